#!/bin/bash
# MANIFEST.setup_cmd: build the Lean library (models, lemmas, property theorems) and every
# per-property driver executable, offline, from files on disk only.
set -e
cd "$(dirname "$0")/lean"
targets="UxVerif"
for f in Drivers/C*.lean; do
  b=$(basename "$f" .lean); targets="$targets drv_$(echo "$b" | tr 'A-Z' 'a-z')"
done
lake build $targets
