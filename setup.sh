#!/bin/bash
# MANIFEST.setup_cmd: build the Lean library (models, lemmas, property theorems) and the driver
# executable of every property claimed in MANIFEST.json, offline, from files on disk only.
set -e
cd "$(dirname "$0")"
ids=$(python3 -c "import json;print(' '.join(c['property_id'] for c in json.load(open('MANIFEST.json'))['checks']))")
cd lean
targets="UxVerif"
for id in $ids; do
  targets="$targets UxVerif.Props.$id drv_$(echo "$id" | tr 'A-Z' 'a-z')"
done
flock .build.lock lake build $targets
