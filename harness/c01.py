"""C01 — readers decode every supported format to the faces the source describes.

Lean side (Props/C01.lean): per-dialect round trips `decode (encode d w m) = ok (pad w m)` for
UGRID / explicit topology (under the decidable `DialectOK` / `TopoOK`), MPAS primal (any padding
content) and dual, ESMF, Exodus (any number/order of blocks), ICON, GEOS-CS index arithmetic,
SCRIP / polygon-ring positions, `spec_pad` (the standard table meets `Readers.Spec`), the
longitude normalisation laws.

Tie (this file): every generated source is an abstract mesh (harness/meshes.py) written in one
dialect of one format as an in-memory xarray.Dataset / array / dict / GeoJSON text (a fraction
written to NetCDF in a scratch dir and re-opened by path).  The real reader is driven through the
public API only.  For every case
  * the Lean predicate `Readers.Spec` is evaluated BY THE DRIVER on the implementation's
    `face_node_connectivity` (node numbers translated to source nodes by position, so formats
    whose node numbering is free are judged by corner positions in cyclic order);
  * the Lean reader model is run on exactly what the reader was given and must equal the
    implementation (rows compared up to the start corner);
  * for UGRID / topology the harness-side encoding is compared with Lean's `encodeUgrid` /
    `encodeTopology`, so that the sources fed to the real code are the ones the theorems speak of;
  * dtype, `_FillValue`, longitude / latitude ranges, n_node, carried-over centre coordinates and
    (MPAS) carried-over connectivity are run-time assertions.
Sample files that are usable offline run first as a corpus, judged against an independent
decoding of the raw file.
"""

from __future__ import annotations

import json
import math
import os
import shutil
import tempfile

import numpy as np

from . import common, meshes
from .common import INT_FILL, enc_ints, enc_rows

TOL = 1e-7  # chord distance on the unit sphere for "same position"
SPEC_CHUNK = 1200
I32MIN = -2147483648

STORE_CODE = {"i32": 0, "i64": 1, "f64": 2}
NP_STORE = {"i32": np.int32, "i64": np.int64, "f64": np.float64}


# --------------------------------------------------------------------------------------
# small helpers
# --------------------------------------------------------------------------------------


def xyz_of(lon, lat):
    lon, lat = np.radians(np.asarray(lon, float)), np.radians(np.asarray(lat, float))
    return np.stack([np.cos(lat) * np.cos(lon), np.cos(lat) * np.sin(lon), np.sin(lat)], axis=1)


def store_of(dtype):
    dtype = np.dtype(dtype)
    if dtype.kind == "f":
        return "f64"
    return "i64" if dtype.itemsize == 8 else "i32"


def is_nan(x):
    return isinstance(x, (float, np.floating)) and math.isnan(x)


def enc_raw(a):
    a = np.asarray(a)
    out = [str(a.shape[0])]
    isf = a.dtype.kind == "f"
    for r in a:
        out.append(str(len(r)))
        if isf:
            out.extend("1 0" if x != x else "0 %d" % int(x) for x in r.tolist())
        else:
            out.extend("0 %d" % x for x in r.tolist())
    return " ".join(out)


def enc_optcell(v):
    if v is None:
        return "0 0"
    if is_nan(v):
        return "2 0"
    return "1 %d" % int(v)


def enc_optint(v):
    return "0 0" if v is None else "1 %d" % int(v)


def enc_fill(f):
    """dialect fill: None | int | 'nan' | 'nanattr'"""
    if f is None:
        return "0 0"
    if f == "nan":
        return "2 0"
    if f == "nanattr":
        return "3 0"
    return "1 %d" % int(f)


def dec_res(s):
    """`ok <rows>` | `err`"""
    if s.startswith("ok"):
        return common.Tok(s.split()[1:]).rows()
    return None


def canon_rows(t):
    """rows up to the start corner (the freedom the property grants)"""
    out = []
    for r in t:
        real = [x for x in r if x != INT_FILL]
        k = len(real)
        if k and list(r[:k]) == real:
            i = real.index(min(real))
            real = real[i:] + real[:i]
            out.append(real + [INT_FILL] * (len(r) - k))
        else:
            out.append(list(r))
    return out


def key_of_float(x):
    """order-preserving integer image of a float (so that Lean sorts as np.unique does)"""
    import struct

    x = float(x)
    if x == 0.0:
        return 0
    b = struct.unpack("<q", struct.pack("<d", abs(x)))[0]
    return b if x > 0 else -b


class Scratch:
    def __init__(self):
        self.dir = None
        self.k = 0

    def path(self, suffix):
        if self.dir is None:
            self.dir = tempfile.mkdtemp(prefix="verif_c01_")
        self.k += 1
        return os.path.join(self.dir, f"s{self.k}{suffix}")

    def close(self):
        if self.dir:
            shutil.rmtree(self.dir, ignore_errors=True)
            self.dir = None


# --------------------------------------------------------------------------------------
# observation + verdict
# --------------------------------------------------------------------------------------


ACCESS = ["n_face", "n_node", "face_node_connectivity", "node_lon", "node_lat", "node_x", "face_lon", "bbox_nodes", "n_max_face_nodes"]


def first_access(g, order):
    """read the decoded grid's attributes for the first time in the order drawn for this case: every lazily
    derived quantity the property speaks about must be the same whatever was read first"""
    for name in order:
        try:
            if name == "bbox_nodes":
                # reads node_lat before node_lon by itself
                g.subset.bounding_box((-180, 180), (-90, 90), element="nodes")
            else:
                getattr(g, name)
        except Exception:
            pass  # what a getter raises is judged where the property speaks about it (observe / carried checks)


def observe(g, order=()):
    first_access(g, order)
    fnc = g.face_node_connectivity
    vals = np.asarray(fnc.values)
    dt = str(vals.dtype)
    if vals.dtype.kind == "f":
        table = [[INT_FILL if (x != x or x <= -9e18) else int(x) for x in r] for r in vals.tolist()]
    else:
        table = [[int(x) for x in r] for r in vals.tolist()]
    fv = fnc.attrs.get("_FillValue", None)
    return dict(
        n_face=int(g.n_face),
        n_node=int(g.n_node),
        width=int(vals.shape[1]) if vals.ndim == 2 else -1,
        table=table,
        dtype=dt,
        fill=None if fv is None else ("NaN" if is_nan(fv) else int(fv)),
        lon=np.asarray(g.node_lon.values, float),
        lat=np.asarray(g.node_lat.values, float),
    )


def classes_of(xyz):
    """canonical representative (smallest index) of every source node's position class"""
    from scipy.spatial import cKDTree

    tree = cKDTree(xyz)
    parent = list(range(len(xyz)))

    def find(a):
        while parent[a] != a:
            parent[a] = parent[parent[a]]
            a = parent[a]
        return a

    for a, b in tree.query_pairs(TOL):
        ra, rb = find(int(a)), find(int(b))
        if ra != rb:
            parent[max(ra, rb)] = min(ra, rb)
    return [find(i) for i in range(len(xyz))], tree


def node_map(exp_xyz, cls, tree, lon, lat):
    if len(lon) == 0:
        return []
    ok = np.isfinite(lon) & np.isfinite(lat)
    xyz = xyz_of(np.where(ok, lon, 0.0), np.where(ok, lat, 0.0))
    dist, idx = tree.query(xyz)
    return [cls[int(i)] if (o and d < TOL) else -1 for d, i, o in zip(dist, idx, ok)]


def sig_of(case):
    d = case.get("dialect", {})
    parts = [case["fmt"]]
    for k in ("start", "fill", "pad", "blocks", "coords", "multi", "dual", "file"):
        if k in d:
            parts.append(f"{k}={d[k]}")
    return "/".join(parts)


def dialect_class(case):
    """coarse class of the dialect used in signatures"""
    d = dict(case.get("dialect", {}))
    out = {}
    if "declared" in d:
        out["start"] = (str(d["base"]) if d["declared"] else "absent")
    elif "base" in d:
        out["start"] = str(d["base"])
    if "fill" in d:
        f = d["fill"]
        out["fill"] = "none" if f is None else ("nan" if isinstance(f, str) else ("std" if f == INT_FILL else "int"))
    for k in ("store", "pad", "coords", "dual"):
        if k in d:
            out[k] = d[k]
    if "blocks" in d:
        out["blocks"] = "1" if d["blocks"] == 1 else (">1" if d["blocks"] < 10 else ">=10")
    if "multi" in d:
        out["multi"] = bool(d["multi"])
    if case.get("via_file"):
        out["via"] = "file"
    if case.get("sample_file"):
        out["file"] = os.path.basename(case["path"])
    return out


def snapshot(src):
    """content of an in-memory source (values, dtypes, dims, attributes), to detect a reader writing into it"""
    import xarray as xr

    def arr(v):
        a = np.asarray(v)
        return (str(a.dtype), a.shape, a.tobytes())

    if src is None:
        return None
    if isinstance(src, xr.Dataset):
        out = {str(k): arr(v.values) + (tuple(v.dims), repr(sorted((str(a), repr(b)) for a, b in v.attrs.items())))
               for k, v in src.variables.items()}
        out["<global attrs>"] = repr(sorted((str(a), repr(b)) for a, b in src.attrs.items()))
        return out
    if isinstance(src, dict):
        return {str(k): (arr(v) if isinstance(v, np.ndarray) else repr(v)) for k, v in src.items()}
    if isinstance(src, np.ndarray):
        return {"<array>": arr(src)}
    return {"<object>": repr(src)}


def snapshot_diff(a, b):
    return sorted(k for k in set(a) | set(b) if a.get(k) != b.get(k))


def judge(ctx, case, exp, open_fn, model_table=None, expect_n_node=None, centres=None, source=None, others=(), edge_centres=None):
    """Judge a source: its first opening, and — when the source is an in-memory object — every further
    opening of the SAME object (`others`: openings of another kind, e.g. the MPAS dual; then the first
    kind again), the first Grid once more after the later openings, and the source itself (a reader must
    not write into what it was given: that is what makes a second decode wrong)."""
    fmt = case["fmt"]
    before = snapshot(source)
    g1 = judge_once(ctx, case, exp, open_fn, model_table, expect_n_node, centres, edge_centres=edge_centres)
    if g1 is None or source is None:
        return g1
    reported = []

    def check_source(when):
        ch = snapshot_diff(before, snapshot(source))
        if ch and not reported:
            reported.append(when)
            ctx.fail(f"C01/{fmt}/source-modified-by-reading",
                     f"{fmt}: the reader modified the caller's in-memory source ({', '.join(ch[:6])}) {when}; a second opening of the "
                     "same object decodes already-converted tables", case, dict(changed=ch), None, ["source_unchanged"])

    check_source("during the first opening")
    ctx.hit("reopened-same-source")
    for o in others:
        go = judge_once(ctx, case, o["exp"], o["open_fn"], o.get("model_table"), o.get("expect_n_node"), o.get("centres"),
                        phase="other-opening", edge_centres=o.get("edge_centres"))
        if go is not None and o.get("post"):
            o["post"](go)
        check_source("during the opening of the other mesh")
    judge_once(ctx, case, exp, open_fn, model_table, expect_n_node, centres, phase="second-opening", edge_centres=edge_centres)
    check_source("during the second opening")
    judge_once(ctx, case, exp, lambda: g1, model_table, expect_n_node, centres, phase="first-grid-after-reopening", edge_centres=edge_centres)
    return g1


def judge_once(ctx, case, exp, open_fn, model_table=None, expect_n_node=None, centres=None, phase=None, edge_centres=None):
    """exp = dict(faces, lon, lat) in source numbering; open_fn() -> Grid"""
    d = ctx.driver
    fmt = case["fmt"]
    cls_sig = sig_of(dict(fmt=fmt, dialect=dialect_class(case)))
    faces = exp["faces"]
    if phase is None:
        nontrivial = len(faces) > 1 or len(set(map(len, faces))) > 1
        key = (fmt, case.get("dialect"), case.get("via_file"), faces[:40], len(faces), case.get("path"))
        small = len(faces) <= 4
        ctx.case(key, nontrivial=nontrivial, sample=(dict(case=case) if small and fmt != "file" else None))
        ctx.hit("fmt=" + fmt)
        for k, v in dialect_class(case).items():
            ctx.hit(f"{fmt}:{k}={v}")
    else:
        ctx.hit("phase=" + phase)
        cls_sig = fmt + "/" + phase  # consequences of one cause: not split by dialect
    try:
        g = open_fn()
        o = observe(g, () if phase == "first-grid-after-reopening" else case.get("access", ()))
    except Exception as e:
        ctx.fail(f"C01/{cls_sig}/raises/{type(e).__name__}",
                 f"{fmt} reader raises {type(e).__name__} on a well-formed source: {str(e)[:160]}", case)
        return None
    impl = dict(n_face=o["n_face"], n_node=o["n_node"], dtype=o["dtype"], fill=o["fill"],
                table=o["table"] if len(o["table"]) <= 60 else o["table"][:60] + [["..."]])
    model = None if model_table is None else (model_table if len(model_table) <= 60 else model_table[:60] + [["..."]])
    bad = False

    # run-time type facts
    if o["dtype"] != "int64":
        ctx.fail(f"C01/{cls_sig}/dtype={o['dtype']}",
                 f"{fmt}: face_node_connectivity has dtype {o['dtype']}, not the platform integer", case, impl, model, ["dtype"])
        bad = True
    if o["fill"] is not None and o["fill"] != INT_FILL:
        ctx.fail(f"C01/{cls_sig}/_FillValue", f"{fmt}: face_node_connectivity declares _FillValue {o['fill']}", case, impl, model, ["fill"])
        bad = True

    # the discrete verdict: Lean Spec on the implementation's table
    exyz = xyz_of(exp["lon"], exp["lat"])
    cls, tree = classes_of(exyz)
    nm = node_map(exyz, cls, tree, o["lon"], o["lat"])
    mfaces = [[cls[v] for v in f] for f in faces]
    w = o["width"]
    n_impl = o["n_node"]
    clauses = set()
    if o["n_face"] != len(faces) or len(o["table"]) != len(faces):
        clauses.add("n_face")
    nchunks = (len(faces) + SPEC_CHUNK - 1) // SPEC_CHUNK
    chunks = list(range(nchunks))
    if nchunks > 3 and not ctx.thorough:
        chunks = sorted(ctx.rng.sample(chunks, 3))
        ctx.hit("spec-subsampled")
    if "n_face" not in clauses:
        for c in chunks:
            a, b = c * SPEC_CHUNK, min(len(faces), (c + 1) * SPEC_CHUNK)
            v = d.ask("C01.spec", n_impl, max(w, 0), enc_rows(mfaces[a:b]), enc_ints(nm), enc_rows(o["table"][a:b]))
            ctx.hit("lean-spec-evaluated")
            if v != "ok":
                clauses |= set(v.split(" ", 1)[1].split(","))
    if clauses:
        ctx.fail(f"C01/{cls_sig}/" + "+".join(sorted(clauses)),
                 f"{fmt}: decoded faces are not the faces the source describes (Lean Spec fails: {','.join(sorted(clauses))})",
                 case, impl, model, sorted(clauses))
        bad = True

    # coordinates: ranges and (for index-preserving readers) node count
    lon, lat = o["lon"], o["lat"]
    if len(lon) and (not np.all(np.isfinite(lon)) or lon.min() < -180 or lon.max() > 180):
        ctx.fail(f"C01/{cls_sig}/lon-range", f"{fmt}: node_lon outside [-180, 180]", case, impl, model, ["lon_range"])
        bad = True
    if len(lat) and (not np.all(np.isfinite(lat)) or lat.min() < -90 - 1e-12 or lat.max() > 90 + 1e-12):
        ctx.fail(f"C01/{cls_sig}/lat-range", f"{fmt}: node_lat outside [-90, 90]", case, impl, model, ["lat_range"])
        bad = True
    if expect_n_node is not None and o["n_node"] != expect_n_node:
        ctx.fail(f"C01/{cls_sig}/n_node", f"{fmt}: n_node {o['n_node']} differs from the source's {expect_n_node}", case, impl, model, ["n_node"])
        bad = True
    # carried centre coordinates, variable by variable (`carried_lon_normalised`): every carried longitude in
    # [-180, 180] and the source's modulo 360 (compared as positions), latitudes unchanged
    for kind, want in (("face", centres), ("edge", edge_centres)):
        if want is None:
            continue
        try:
            cl_, ca_ = np.asarray(getattr(g, kind + "_lon").values, float), np.asarray(getattr(g, kind + "_lat").values, float)
        except Exception as e:
            ctx.fail(f"C01/{fmt}/{kind}-centres/raises", f"{fmt}: {kind}_lon raises {type(e).__name__}", case, impl, model, [kind + "_centres"])
            bad = True
            continue
        if len(cl_) != len(want[0]) or not np.all(np.isfinite(cl_)) or np.abs(xyz_of(cl_, ca_) - xyz_of(*want)).max() > TOL:
            ctx.fail(f"C01/{fmt}/{kind}-centres", f"{fmt}: supplied {kind} centres are not carried over (same positions)", case, impl, model, [kind + "_centres"])
            bad = True
        elif cl_.min() < -180 or cl_.max() > 180:
            ctx.fail(f"C01/{fmt}/{kind}-centres/lon-range",
                     f"{fmt}: carried {kind}_lon outside [-180, 180] (max {cl_.max():.3f}): each longitude variable must be normalised on its own",
                     case, dict(impl, **{kind + "_lon": cl_[:20].tolist()}), model, [kind + "_lon_range"])
            bad = True
        else:
            ctx.hit("centres-carried")
            ctx.hit(f"{kind}-centres-carried")

    # correspondence with the Lean reader model (rows up to the start corner)
    if model_table is not None and not bad:
        if canon_rows(o["table"]) != canon_rows(model_table):
            ctx.mismatch(f"C01/{fmt}/table" + ("" if phase is None else "/" + phase), case, impl, model)
        elif o["table"] == model_table:
            ctx.hit("identical-to-model")
    return g


# --------------------------------------------------------------------------------------
# source builders (one per format); every random choice is in `case`, so replay is exact
# --------------------------------------------------------------------------------------


LONCONV = ["pm180", "0-360", "mixed"]


def lon_conv(case, which, lon_deg):
    """longitudes (degrees in [-180, 180]) written in the convention drawn for THIS variable (`which` in
    node / face / edge): [-180, 180), [0, 360), or both mixed inside one array"""
    mode = (case["dialect"].get("lonconv") or {}).get(which, "pm180")
    lon = np.asarray(lon_deg, float)
    if mode == "0-360":
        return np.where(lon < 0, lon + 360.0, lon)
    if mode == "mixed":
        return np.where((lon < 0) & (np.arange(len(lon)) % 2 == 0), lon + 360.0, lon)
    return lon


def src_lon(case):
    return lon_conv(case, "node", case["lon"])


def centres_of(xyz, groups):
    """normalised mean position of each group of nodes, as (lon, lat) degrees in [-180, 180]"""
    c = np.array([xyz[list(gp)].mean(axis=0) for gp in groups])
    c /= np.linalg.norm(c, axis=1, keepdims=True)
    return np.degrees(np.arctan2(c[:, 1], c[:, 0])), np.degrees(np.arcsin(np.clip(c[:, 2], -1, 1)))


def conn_array(faces, w, base, fill, store):
    """the source table: faces based at `base`, padded to width `w` with the dialect's fill"""
    dt = NP_STORE[store]
    if fill in ("nan", "nanattr"):
        a = np.full((len(faces), w), np.nan, dtype=np.float64)
    else:
        a = np.full((len(faces), w), 0 if fill is None else fill, dtype=dt)
    for i, f in enumerate(faces):
        a[i, : len(f)] = np.asarray(f) + base
    return a


UGRID_OPTIONAL = ["edge_node_connectivity", "edge_face_connectivity", "face_edge_connectivity", "face_face_connectivity",
                  "node_face_connectivity", "node_edge_connectivity"]


def ugrid_optional_elements(faces, n):
    """dialect-independent description of every optional table: name -> (element lists, number of target elements)"""
    edges, fe, ef = edges_of(faces)
    inc = incidence(faces, n)
    vedges = [[] for _ in range(n)]
    for e, (a, b) in enumerate(edges):
        vedges[a].append(e)
        vedges[b].append(e)
    ff = [[g for e in r for g in ef[e] if g != fi] for fi, r in enumerate(fe)]
    return dict(edge_node_connectivity=(edges, n), edge_face_connectivity=(ef, len(faces)), face_edge_connectivity=(fe, len(edges)),
                face_face_connectivity=(ff, len(faces)), node_face_connectivity=(inc, len(faces)), node_edge_connectivity=(vedges, len(edges)))


def ugrid_table(d, rows, n_elem, t):
    """one connectivity variable written in its OWN dialect `t`; status 'ok' (inside the quantifier of
    ugrid_roundtrip), 'ambiguous' (undeclared base and the lowest index unused: no verdict) or 'outside'"""
    if not rows or any(len(r) == 0 for r in rows):
        return None, None, "outside", None
    w = max(map(len, rows)) + t["extra_w"]
    fill = t["fill"]
    if fill is None and any(len(r) != w for r in rows):
        fill = t["fill"] = -1
    arr = conn_array(rows, w, t["base"], fill, t["store"])
    at = {}
    if fill == "nanattr":
        at["_FillValue"] = np.nan
    elif fill not in (None, "nan"):
        at["_FillValue"] = NP_STORE[t["store"]](fill)
    if t["declared"]:
        at["start_index"] = np.int32(t["base"])
    enc = lambda decl: " ".join([str(t["base"]), "1" if decl else "0", enc_fill(fill), str(STORE_CODE[t["store"]])])
    mesh_enc = enc_rows(rows)
    status = "ok"
    if d.ask("C01.wf", n_elem, w, mesh_enc) != "1":
        status = "outside"
    elif d.ask("C01.dialectok", enc(t["declared"]), n_elem, w, mesh_enc) != "1":
        status = "ambiguous" if (not t["declared"] and d.ask("C01.dialectok", enc(True), n_elem, w, mesh_enc) == "1") else "outside"
    if status != "outside":
        # the harness-side variable is the one the theorem's `encodeUgrid` describes
        lean_src = d.ask("C01.ugrid_enc", enc(t["declared"]), w, mesh_enc)
        mine = " ".join([enc_optcell(at.get("_FillValue")), enc_optint(at.get("start_index")), enc_raw(arr)])
        if lean_src != mine:
            return arr, at, "encode-mismatch", (mine[:300], lean_src[:300])
    pad = [list(r) + [INT_FILL] * (w - len(r)) for r in rows]
    return arr, at, status, pad


def case_ugrid(ctx, case, sc):
    import uxarray as ux
    import xarray as xr

    d, dl = ctx.driver, case["dialect"]
    faces = case["faces"]
    n = len(case["lon"])
    nm = dl["names"]
    ds = xr.Dataset()
    ds[nm["mesh"]] = xr.DataArray(np.int32(0), attrs=dict(cf_role="mesh_topology", topology_dimension=2,
                                                         node_coordinates=f"{nm['x']} {nm['y']}",
                                                         face_node_connectivity=nm["conn"]))
    ds[nm["x"]] = xr.DataArray(src_lon(case), dims=[nm["nd"]], attrs=dict(standard_name="longitude", units="degrees_east"))
    ds[nm["y"]] = xr.DataArray(np.asarray(case["lat"], float), dims=[nm["nd"]], attrs=dict(standard_name="latitude", units="degrees_north"))
    arr, at, status, info = ugrid_table(d, faces, n, dl)
    if status == "encode-mismatch":
        ctx.mismatch("C01/ugrid/encode", case, *info)
        return
    if status == "ambiguous":
        # undeclared base and node 0 unused: outside the quantifier (no verdict); the rule itself is
        # `ugrid_undeclared_decodes`, and model and implementation must both follow it
        w_f = max(map(len, faces)) + dl["extra_w"]
        rhs = common.Tok(d.ask("C01.undeclared", w_f, enc_rows(faces))).rows()
        ds[nm["conn"]] = xr.DataArray(arr, dims=[nm["fd"], nm["md"]], attrs=dict(at, cf_role="face_node_connectivity"))
        want = dec_res(d.ask("C01.ugrid", STORE_CODE[store_of(arr.dtype)], enc_optcell(at.get("_FillValue")), enc_optint(None), enc_raw(arr)))
        ctx.case(("ugrid-ambiguous", dl, faces[:40]), nontrivial=True)
        try:
            got = observe(ux.open_grid(ds))["table"]
        except Exception as e:
            ctx.notes.append(f"ugrid ambiguous undeclared base: reader raises {type(e).__name__}")
            return
        ctx.hit("ugrid-ambiguous-undeclared-base(face table):" + ("rebased-to-lowest-index" if got == rhs else "other"))
        if want != rhs:
            ctx.mismatch("C01/ugrid/undeclared-rule/model-vs-theorem/face_node_connectivity", case, want[:20], rhs[:20])
        elif got != rhs:
            ctx.mismatch("C01/ugrid/undeclared-rule/face_node_connectivity", case, got[:20], rhs[:20])
        return
    if status != "ok":
        ctx.hit("outside-quantifier(DialectOK fails)")
        return
    at = dict(at, cf_role="face_node_connectivity")
    ds[nm["conn"]] = xr.DataArray(arr, dims=[nm["fd"], nm["md"]], attrs=at)
    # supplied centre coordinates, each longitude variable in its own convention
    xyz = xyz_of(case["lon"], case["lat"])
    fc = ec = None
    if dl.get("face_centres"):
        fc = centres_of(xyz, faces)
        ds[nm["x"] + "_fc"] = xr.DataArray(lon_conv(case, "face", fc[0]), dims=[nm["fd"]], attrs=dict(units="degrees_east"))
        ds[nm["y"] + "_fc"] = xr.DataArray(fc[1].copy(), dims=[nm["fd"]], attrs=dict(units="degrees_north"))
        ds[nm["mesh"]].attrs["face_coordinates"] = f"{nm['x']}_fc {nm['y']}_fc"
    if dl.get("edge_centres"):
        ec = centres_of(xyz, edges_of(faces)[0])
        ds[nm["x"] + "_ec"] = xr.DataArray(lon_conv(case, "edge", ec[0]), dims=["nEdgesSrc"], attrs=dict(units="degrees_east"))
        ds[nm["y"] + "_ec"] = xr.DataArray(ec[1].copy(), dims=["nEdgesSrc"], attrs=dict(units="degrees_north"))
        ds[nm["mesh"]].attrs["edge_coordinates"] = f"{nm['x']}_ec {nm['y']}_ec"
    # optional tables: every one in its OWN, independently drawn dialect
    opt = {}
    if dl.get("tables"):
        elems = ugrid_optional_elements(faces, n)
        for k, (name, t) in enumerate(sorted(dl["tables"].items(), key=lambda kv: kv[1].get("order", 0))):
            rows, n_elem = elems[name]
            if name in ("edge_node_connectivity", "edge_face_connectivity"):
                t["extra_w"] = 0  # UGRID: these tables have exactly two columns
            tarr, tat, tstatus, tinfo = ugrid_table(d, rows, n_elem, t)
            if tstatus == "ambiguous" and name == "edge_node_connectivity":
                # the rebased table no longer lists the faces' edges: the grid legitimately rebuilds it when edges are
                # derived (e.g. by a subset); that first read is not part of this (no-verdict) comparison
                case["access"] = [x for x in case.get("access", []) if x != "bbox_nodes"]
            if tstatus == "encode-mismatch":
                ctx.mismatch("C01/ugrid/encode/" + name, case, *tinfo)
                return
            if tstatus == "outside":
                ctx.hit("ugrid-optional:outside-quantifier")
                continue
            var = f"{nm['conn']}_{name[:-13]}"
            if t.get("via") == "cf_role":
                tat = dict(tat, cf_role=name)
            else:
                ds[nm["mesh"]].attrs[name] = var
            rowdim = "nEdgesSrc" if name.startswith("edge_") else (nm["fd"] if name.startswith("face_") else nm["nd"])
            ds[var] = xr.DataArray(tarr, dims=[rowdim, f"d{k}_cols"], attrs=tat)
            opt[name] = dict(var=var, arr=tarr, at=tat, status=tstatus, pad=tinfo, t=t)
    if case.get("via_file"):
        path = sc.path(".nc")
        ds.to_netcdf(path)
        with xr.open_dataset(path) as seen:
            v = seen[nm["conn"]]
            seen_arr, seen_at = np.asarray(v.values), dict(v.attrs)
            for o in opt.values():
                o["arr"], o["at"] = np.asarray(seen[o["var"]].values), dict(seen[o["var"]].attrs)
        src, source = path, None
    else:
        seen_arr, seen_at, src, source = arr, at, ds, ds

    def model(a, attrs):
        return dec_res(d.ask("C01.ugrid", STORE_CODE[store_of(a.dtype)], enc_optcell(attrs.get("_FillValue")),
                             enc_optint(attrs.get("start_index")), enc_raw(a)))

    # every table is decoded by the Lean model from ITS OWN variable only (decodeUgrid_table_local), before any opening
    mt = model(seen_arr, seen_at)
    for o in opt.values():
        o["want"] = model(o["arr"], o["at"])
    exp = dict(faces=faces, lon=case["lon"], lat=case["lat"])
    g = judge(ctx, case, exp, lambda: ux.open_grid(src), mt, expect_n_node=n, source=source, centres=fc, edge_centres=ec)
    if g is None:
        return
    # supplied tables are presented on the standard dimensions: an edge table makes n_edge available, and
    # every carried table's row dimension is the standard one of its element kind
    if any(nme.startswith("edge_") for nme in opt):
        n_edges_src = len(edges_of(faces)[0])
        try:
            ne = int(g.n_edge)
            if ne != n_edges_src:
                ctx.fail("C01/ugrid/carried/n_edge", f"ugrid: n_edge {ne} differs from the {n_edges_src} rows of the supplied edge tables", case)
        except Exception as e:
            ctx.fail("C01/ugrid/carried/n_edge/raises/" + ("with" if ec is not None else "without") + "-edge-coordinates",
                     f"ugrid: the source supplies edge tables ({', '.join(x for x in opt if x.startswith('edge_'))}) "
                     f"{'with' if ec is not None else 'WITHOUT'} edge coordinates and grid.n_edge raises {type(e).__name__}: {str(e)[:80]}",
                     case, None, None, ["carried_dimensions"])
    for name, o in opt.items():
        want_dim = {"edge": "n_edge", "face": "n_face", "node": "n_node"}[name.split("_")[0]]
        try:
            got_dim = getattr(g, name).dims[0]
        except Exception:
            got_dim = None
        if got_dim is not None:
            ctx.hit("carried-dims-checked")
            if got_dim != want_dim:
                ctx.fail(f"C01/ugrid/carried/row-dimension/{name.split('_')[0]}",
                         f"ugrid: supplied {name} is carried on dimension {got_dim!r}, not on the standard {want_dim!r}", case, None, None, ["carried_dimensions"])
    for name, o in opt.items():
        t = o["t"]
        tcls = f"start={t['base'] if t['declared'] else 'absent'}"
        try:
            v = np.asarray(getattr(g, name).values)
            if v.dtype.kind == "f":
                got = [[INT_FILL if x != x else int(x) for x in r] for r in v.tolist()]
            else:
                got = [[int(x) for x in r] for r in v.tolist()]
            dt = str(v.dtype)
        except Exception as e:
            ctx.fail(f"C01/ugrid/carried/{name}/raises", f"ugrid: supplied {name} raises {type(e).__name__}: {str(e)[:120]}", case)
            continue
        if o["status"] == "ambiguous":
            # undeclared base and the lowest index unused: the source itself is ambiguous (outside the property's
            # quantifier, never a verdict).  What the rule does is a theorem (`ugrid_undeclared_decodes`: the element
            # lists counted from their lowest index); the model and the implementation must both be that.
            rows, _ = elems[name]
            w_t = max(map(len, rows)) + t["extra_w"]
            rhs = common.Tok(d.ask("C01.undeclared", w_t, enc_rows(rows))).rows()
            ctx.hit("ugrid-ambiguous-undeclared-base:" + ("rebased-to-lowest-index" if got == rhs else "other"))
            if o["want"] != rhs:
                ctx.mismatch("C01/ugrid/undeclared-rule/model-vs-theorem/" + name, case, o["want"][:20], rhs[:20])
            elif got != rhs:
                ctx.mismatch("C01/ugrid/undeclared-rule/" + name, case, got[:20], rhs[:20])
            continue
        ctx.hit("carried-table-checked")
        ctx.hit(f"ugrid-carried:{name}:{tcls}")
        if o["want"] != o["pad"]:
            ctx.mismatch("C01/ugrid/model-vs-elements/" + name, case, o["want"][:20], o["pad"][:20])
            continue
        if got != o["pad"] or dt != "int64":
            bad = [(i, j) for i, (r1, r2) in enumerate(zip(got, o["pad"])) for j, (x, y) in enumerate(zip(r1, r2)) if x != y][:5]
            ctx.fail(f"C01/ugrid/carried/{name}/{tcls}",
                     f"ugrid: supplied {name} (its own dialect: {tcls}, fill={t['fill']}, {t['store']}; face table: "
                     f"start={dl['base'] if dl['declared'] else 'absent'}) is not carried over with the same element lists re-based to zero, "
                     f"standard fill and dtype; first differing entries {bad}",
                     case, dict(table=got[:40], dtype=dt), o["pad"][:40], ["carried_connectivity"])


def case_topology(ctx, case, sc):
    import uxarray as ux

    d, dl = ctx.driver, case["dialect"]
    faces = case["faces"]
    n = len(case["lon"])
    w = max(map(len, faces)) + dl["extra_w"]
    arr = conn_array(faces, w, dl["base"], dl["fill"], dl["store"])
    fv = None if dl["fill"] is None else (np.nan if dl["fill"] == "nan" else dl["fill"])
    mesh_enc = enc_rows(faces)
    if d.ask("C01.wf", n, w, mesh_enc) != "1" or d.ask("C01.topook", dl["base"], enc_fill(dl["fill"]), n, w, mesh_enc) != "1":
        ctx.hit("outside-quantifier(TopoOK fails)")
        return
    lean_src = d.ask("C01.topo_enc", dl["base"], enc_fill(dl["fill"]), w, mesh_enc)
    mine = " ".join([enc_optcell(fv), enc_raw(arr)])
    if lean_src != mine:
        ctx.mismatch("C01/topology/encode", case, mine[:300], lean_src[:300])
        return
    mt = dec_res(d.ask("C01.topology", enc_optcell(fv), dl["base"], enc_raw(arr)))
    kw = dict(node_lon=src_lon(case), node_lat=np.asarray(case["lat"], float), face_node_connectivity=arr.copy(),
              fill_value=fv, start_index=dl["base"])
    xyz = xyz_of(case["lon"], case["lat"])
    fc = ec = None
    if dl.get("face_centres"):
        fc = centres_of(xyz, faces)
        kw["face_lon"], kw["face_lat"] = lon_conv(case, "face", fc[0]), fc[1].copy()
    if dl.get("edge_centres"):
        ec = centres_of(xyz, edges_of(faces)[0])
        kw["edge_lon"], kw["edge_lat"] = lon_conv(case, "edge", ec[0]), ec[1].copy()
    if dl.get("api") == "dict":
        open_fn = lambda: ux.open_grid(kw)
    else:
        open_fn = lambda: ux.Grid.from_topology(**kw)
    judge(ctx, case, dict(faces=faces, lon=case["lon"], lat=case["lat"]), open_fn, mt, expect_n_node=n, source=kw,
          centres=fc, edge_centres=ec)


def pad_tail(rng_vals, f, w, mode, n, one_based=1):
    """padding of an MPAS / ESMF row: zeros, the repeated last index, -1, or garbage"""
    k = w - len(f)
    if mode == "zeros":
        return [0] * k
    if mode == "repeat":
        return [f[-1] + one_based] * k
    if mode == "minus1":
        return [-1] * k
    return [rng_vals[(len(f) * 7 + j * 3) % len(rng_vals)] % n + one_based for j in range(k)]


def incidence(faces, n):
    inc = [[] for _ in range(n)]
    for fi, f in enumerate(faces):
        for v in f:
            inc[v].append(fi)
    return inc


def edges_of(faces):
    """edges in first-seen order, face->edges, edge->faces"""
    idx, edges, fe = {}, [], []
    for f in faces:
        row = []
        for j in range(len(f)):
            a, b = f[j], f[(j + 1) % len(f)]
            k = (min(a, b), max(a, b))
            if k not in idx:
                idx[k] = len(edges)
                edges.append([a, b])
            row.append(idx[k])
        fe.append(row)
    ef = [[] for _ in edges]
    for fi, row in enumerate(fe):
        for e in row:
            ef[e].append(fi)
    return edges, fe, ef


MPAS_FLOATS = dict(primal=dict(face_areas="areaCell", edge_node_distances="dvEdge", edge_face_distances="dcEdge"),
                   dual=dict(face_areas="areaTriangle", edge_node_distances="dcEdge", edge_face_distances="dvEdge"))


def mpas_expectations(d, T):
    """what every table the MPAS reader parses must become, primal and dual: the Lean decoders
    (`mpas_cells_reindex` / `mpas_zeros_reindex`: k -> k-1, 0 -> FILL wherever it stands, everything past
    nEdgesOnCell -> FILL), evaluated on the raw tables BEFORE any opening"""
    ne = enc_ints(T["nEdgesOnCell"].tolist())
    p = lambda name: common.Tok(d.ask("C01.mpas", enc_rows(T[name].tolist()), ne)).rows()
    z = lambda name: common.Tok(d.ask("C01.mpasz", enc_rows(T[name].tolist()))).rows()
    primal = dict(node_face_connectivity=z("cellsOnVertex"))
    dual = dict(node_face_connectivity=p("verticesOnCell"))
    if "verticesOnEdge" in T:
        primal["edge_node_connectivity"] = dual["edge_face_connectivity"] = z("verticesOnEdge")
    if "cellsOnEdge" in T:
        primal["edge_face_connectivity"] = dual["edge_node_connectivity"] = z("cellsOnEdge")
    if "edgesOnCell" in T:
        primal["face_edge_connectivity"] = p("edgesOnCell")
    if "edgesOnVertex" in T:
        dual["face_edge_connectivity"] = z("edgesOnVertex")
    if "cellsOnCell" in T:
        primal["face_face_connectivity"] = p("cellsOnCell")
    return dict(primal=primal, dual=dual)


def mpas_check_carried(ctx, case, g, mode, wants, floats, when):
    """every table / array the source supplies, entry by entry, on Grid `g` opened as `mode`"""
    for name, want in wants[mode].items():
        sig = f"C01/mpas/mode={mode}/carried/{name}"
        try:
            v = np.asarray(getattr(g, name).values)
            got, dt = [[int(x) for x in r] for r in v.tolist()], str(v.dtype)
        except Exception as e:
            ctx.fail(sig + "/raises", f"mpas ({mode}, {when}): supplied {name} raises {type(e).__name__}: {str(e)[:120]}", case)
            continue
        ctx.hit("carried-table-checked")
        ctx.hit(f"mpas-carried:{mode}:{name}")
        if got != want or dt != "int64":
            bad = [(i, j) for i, (r1, r2) in enumerate(zip(got, want)) for j, (x, y) in enumerate(zip(r1, r2)) if x != y][:5]
            ctx.fail(sig, f"mpas ({mode}, {when}): supplied {name} is not carried over with the same meaning (k -> k-1, missing 0 -> the "
                          f"standard fill, padding -> fill, standard dtype); first differing entries {bad}",
                     case, dict(table=got[:40], dtype=dt), want[:40], ["carried_connectivity"])
    for name, srcname in MPAS_FLOATS[mode].items():
        if srcname not in floats:
            continue
        try:
            got = np.asarray(getattr(g, name).values, float)
        except Exception as e:
            ctx.fail(f"C01/mpas/mode={mode}/carried/{name}/raises", f"mpas ({mode}, {when}): supplied {srcname} raises {type(e).__name__}", case)
            continue
        ctx.hit("carried-array-checked")
        if got.shape != floats[srcname].shape or not np.array_equal(got, floats[srcname]):
            ctx.fail(f"C01/mpas/mode={mode}/carried/{name}", f"mpas ({mode}, {when}): supplied {srcname} is not carried over as {name}", case,
                     got[:20], floats[srcname][:20], ["carried_arrays"])


def mpas_run(ctx, case, sc, T, coords, floats, primal_exp, dual_exp, first_mode, cartesian_nodes=False):
    """T: integer tables, coords: radians arrays, floats: supplied float arrays; dual_exp None when the
    dataset describes no dual mesh (partial mesh / incomplete vertex rings)"""
    import uxarray as ux
    import xarray as xr

    d = ctx.driver
    dims = dict(verticesOnCell=["nCells", "maxEdges"], edgesOnCell=["nCells", "maxEdges"], cellsOnCell=["nCells", "maxEdges"],
                nEdgesOnCell=["nCells"], cellsOnVertex=["nVertices", "vertexDegree"], edgesOnVertex=["nVertices", "vertexDegree"],
                verticesOnEdge=["nEdges", "TWO"], cellsOnEdge=["nEdges", "TWO"], areaCell=["nCells"], areaTriangle=["nVertices"],
                dvEdge=["nEdges"], dcEdge=["nEdges"], lonVertex=["nVertices"], latVertex=["nVertices"], lonCell=["nCells"],
                latCell=["nCells"], lonEdge=["nEdges"], latEdge=["nEdges"])
    wants = mpas_expectations(d, T)
    mt_primal = common.Tok(d.ask("C01.mpas", enc_rows(T["verticesOnCell"].tolist()), enc_ints(T["nEdgesOnCell"].tolist()))).rows()
    mt_dual = common.Tok(d.ask("C01.mpasz", enc_rows(T["cellsOnVertex"].tolist()))).rows() if dual_exp is not None else None
    floats = {k: np.array(v, dtype=float) for k, v in floats.items()}
    ds = xr.Dataset()
    for k, v in list(T.items()) + list(coords.items()):
        if cartesian_nodes and k in ("lonVertex", "latVertex"):
            continue
        ds[k] = xr.DataArray(v, dims=dims[k])
    if cartesian_nodes:
        # Cartesian-only corner nodes (node_lon / node_lat are derived lazily), lon/lat centres
        vx = xyz_of(np.degrees(coords["lonVertex"]), np.degrees(coords["latVertex"]))
        for j, nme in enumerate(("xVertex", "yVertex", "zVertex")):
            ds[nme] = xr.DataArray(vx[:, j].copy(), dims=["nVertices"])
    for k, v in floats.items():
        ds[k] = xr.DataArray(v.copy(), dims=dims[k])
    if case.get("via_file"):
        path = sc.path(".nc")
        ds.to_netcdf(path)
        src, source = path, None
    else:
        src = source = ds
    deg = np.degrees
    opens = dict(primal=dict(exp=primal_exp, open_fn=lambda: ux.open_grid(src), model_table=mt_primal,
                             expect_n_node=len(coords["lonVertex"]), centres=(deg(coords["lonCell"]), deg(coords["latCell"])),
                             edge_centres=(deg(coords["lonEdge"]), deg(coords["latEdge"])) if "lonEdge" in coords else None,
                             post=lambda g: mpas_check_carried(ctx, case, g, "primal", wants, floats, "other opening")))
    if dual_exp is not None:
        opens["dual"] = dict(exp=dual_exp, open_fn=lambda: ux.open_grid(src, use_dual=True), model_table=mt_dual,
                             expect_n_node=len(coords["lonCell"]), centres=(deg(coords["lonVertex"]), deg(coords["latVertex"])),
                             edge_centres=(deg(coords["lonEdge"]), deg(coords["latEdge"])) if "lonEdge" in coords else None,
                             post=lambda g: mpas_check_carried(ctx, case, g, "dual", wants, floats, "other opening"))
    first = opens[first_mode]
    others = [o for m, o in opens.items() if m != first_mode]
    g = judge(ctx, case, first["exp"], first["open_fn"], first["model_table"], expect_n_node=first["expect_n_node"],
              centres=first["centres"], source=source, others=others, edge_centres=first.get("edge_centres"))
    if g is not None:
        # the first Grid, after every later opening of the same source
        mpas_check_carried(ctx, case, g, first_mode, wants, floats, "first Grid after the later openings")


def case_mpas(ctx, case, sc):
    dl = case["dialect"]
    faces, n = case["faces"], len(case["lon"])
    w = max(map(len, faces)) + dl["extra_w"]
    gv = dl["garbage"]
    it = NP_STORE[dl.get("store", "i32")]
    T = {}
    T["verticesOnCell"] = np.array([[v + 1 for v in f] + pad_tail(gv, f, w, dl["pad"], n) for f in faces], dtype=it)
    T["nEdgesOnCell"] = np.array([len(f) for f in faces], dtype=it)
    inc = incidence(faces, n)
    edges, fe, ef = edges_of(faces)
    # cellsOnVertex: the cells around a vertex in counter-clockwise order whenever every vertex has a
    # complete ring (then the same dataset describes the primal AND the dual mesh); otherwise the cells
    # of the vertex with the missing ones (0) anywhere in the row, as in a regional MPAS mesh
    am = meshes.AMesh(faces, xyz_of(case["lon"], case["lat"]), True, "src")
    dual = meshes.dual_of(am) if all(len(r) >= 3 for r in inc) and dl.get("closed", dl["dual"]) else None
    has_dual = dual is not None and len(dual.faces) == n
    if dl["dual"] and not has_dual:
        ctx.hit("outside-quantifier(dual needs valence>=3)")
        return
    vedges = [[] for _ in range(n)]
    for e, (a, b) in enumerate(edges):
        vedges[a].append(e)
        vedges[b].append(e)
    vd = max(max(map(len, inc)), max(map(len, vedges)), 3)
    if has_dual:
        cov_rows = dual.faces
        cov = [[c + 1 for c in r] + [0] * (vd - len(r)) for r in cov_rows]
    else:
        cov_rows = None
        cov = []
        for v, r in enumerate(inc):
            row = [c + 1 for c in r] + [0] * (vd - len(r))
            k = v % vd
            cov.append(row[k:] + row[:k])  # zeros inside the row
    T["cellsOnVertex"] = np.array(cov, dtype=it)
    cent = np.array([am.xyz[f].mean(axis=0) for f in faces])
    cent /= np.linalg.norm(cent, axis=1, keepdims=True)
    clon, clat = np.arctan2(cent[:, 1], cent[:, 0]), np.arcsin(np.clip(cent[:, 2], -1, 1))
    # the convention is drawn per variable: lonVertex (node), lonCell (face), lonEdge (edge)
    coords = dict(lonVertex=np.radians(lon_conv(case, "node", case["lon"])), latVertex=np.radians(np.asarray(case["lat"], float)),
                  lonCell=np.radians(lon_conv(case, "face", np.degrees(clon))), latCell=clat)
    floats = {}
    if dl.get("tables"):
        T["verticesOnEdge"] = np.array([[a + 1, b + 1] for a, b in edges], dtype=it)
        # a boundary edge has ONE cell: the missing one (0) first or second
        T["cellsOnEdge"] = np.array([([r[0] + 1, r[1] + 1] if len(r) > 1 else ([r[0] + 1, 0] if e % 2 == 0 else [0, r[0] + 1]))
                                     for e, r in enumerate(ef)], dtype=it)
        T["edgesOnCell"] = np.array([[e + 1 for e in r] + pad_tail(gv, r, w, dl["pad"], len(edges)) for r in fe], dtype=it)
        # cellsOnCell: the neighbour across each edge of the cell, 0 INSIDE the valid prefix at a boundary edge
        nbr = [[next((g + 1 for g in ef[e] if g != fi), 0) for e in r] for fi, r in enumerate(fe)]

        def tail_cells(r):
            k = w - len(r)
            if dl["pad"] == "zeros":
                return [0] * k
            if dl["pad"] == "repeat":
                return [r[-1]] * k
            return [gv[(j * 5 + len(r)) % len(gv)] % len(faces) + 1 for j in range(k)]

        T["cellsOnCell"] = np.array([r + tail_cells(r) for r in nbr], dtype=it)
        T["edgesOnVertex"] = np.array([[e + 1 for e in r] + [0] * (vd - len(r)) for r in vedges], dtype=it)
        elon, elat = centres_of(am.xyz, edges)
        coords["lonEdge"], coords["latEdge"] = np.radians(lon_conv(case, "edge", elon)), np.radians(elat)
        floats = dict(areaCell=np.arange(1, len(faces) + 1, dtype=float) * 0.125, areaTriangle=np.arange(1, n + 1, dtype=float) * 0.03125,
                      dvEdge=np.arange(1, len(edges) + 1, dtype=float) * 0.5, dcEdge=np.arange(1, len(edges) + 1, dtype=float) * 0.75)
        if any(0 in r for r in nbr):
            ctx.hit("mpas:boundary-cells(cellsOnCell has 0 inside the valid prefix)")
    primal_exp = dict(faces=faces, lon=case["lon"], lat=case["lat"])
    dual_exp = dict(faces=cov_rows, lon=np.degrees(clon), lat=np.degrees(clat)) if has_dual else None
    mpas_run(ctx, case, sc, T, coords, floats, primal_exp, dual_exp, "dual" if dl["dual"] else "primal",
             cartesian_nodes=dl.get("node_coords") == "xyz")


def case_mpas_cut(ctx, case, sc):
    """a regional cut-out of the MPAS sample file: the cells inside a cap, renumbered, every reference to a
    removed cell / edge set to 0 (what a regional MPAS mesh looks like), all optional tables carried"""
    dl = case["dialect"]
    path = common.REPO / "test/meshfiles/mpas/QU/mesh.QU.1920km.151026.nc"
    if not path.exists():
        ctx.notes.append("MPAS sample file missing: cut-out case skipped")
        return
    raw = _raw(path)
    V = lambda k: np.asarray(raw[k].values)
    c = xyz_of([dl["lon0"]], [dl["lat0"]])[0]
    cxyz = xyz_of(np.degrees(V("lonCell")), np.degrees(V("latCell")))
    keep = np.nonzero(cxyz @ c >= math.cos(math.radians(dl["radius"])))[0]
    if len(keep) < 2:
        ctx.hit("outside-quantifier(empty cut-out)")
        return
    ne_old = V("nEdgesOnCell")
    voc_o, eoc_o, coc_o = V("verticesOnCell"), V("edgesOnCell"), V("cellsOnCell")
    cmap = {int(o) + 1: i + 1 for i, o in enumerate(keep)}
    vs = sorted({int(v) for o in keep for v in voc_o[o, : ne_old[o]]})
    es = sorted({int(e) for o in keep for e in eoc_o[o, : ne_old[o]]})
    vmap = {o: i + 1 for i, o in enumerate(vs)}
    emap = {o: i + 1 for i, o in enumerate(es)}
    it = NP_STORE[dl.get("store", "i32")]
    w = voc_o.shape[1]

    def cell_rows(tab, mp):
        out = []
        for o in keep:
            k = int(ne_old[o])
            r = [mp.get(int(x), 0) for x in tab[o, :k]]
            out.append(r + ([0] * (w - k) if dl["pad"] == "zeros" else [r[-1]] * (w - k)))
        return np.array(out, dtype=it)

    T = dict(verticesOnCell=cell_rows(voc_o, vmap), edgesOnCell=cell_rows(eoc_o, emap), cellsOnCell=cell_rows(coc_o, cmap),
             nEdgesOnCell=np.array([int(ne_old[o]) for o in keep], dtype=it))
    vi, ei = [o - 1 for o in vs], [o - 1 for o in es]
    T["cellsOnVertex"] = np.array([[cmap.get(int(x), 0) for x in V("cellsOnVertex")[o]] for o in vi], dtype=it)
    T["edgesOnVertex"] = np.array([[emap.get(int(x), 0) for x in V("edgesOnVertex")[o]] for o in vi], dtype=it)
    T["cellsOnEdge"] = np.array([[cmap.get(int(x), 0) for x in V("cellsOnEdge")[o]] for o in ei], dtype=it)
    T["verticesOnEdge"] = np.array([[vmap.get(int(x), 0) for x in V("verticesOnEdge")[o]] for o in ei], dtype=it)
    coords = dict(lonVertex=V("lonVertex")[vi], latVertex=V("latVertex")[vi], lonCell=V("lonCell")[keep], latCell=V("latCell")[keep])
    floats = dict(areaCell=V("areaCell")[keep], areaTriangle=V("areaTriangle")[vi], dvEdge=V("dvEdge")[ei], dcEdge=V("dcEdge")[ei])
    faces = [[int(x) - 1 for x in r[:k]] for r, k in zip(T["verticesOnCell"].tolist(), T["nEdgesOnCell"].tolist())]
    lon = np.degrees(coords["lonVertex"])
    exp = dict(faces=faces, lon=((lon + 180) % 360) - 180, lat=np.degrees(coords["latVertex"]))
    ctx.hit("mpas-cutout-of-sample-file")
    if (T["cellsOnCell"][:, 0] == 0).any() or any(0 in r[:k] for r, k in zip(T["cellsOnCell"].tolist(), T["nEdgesOnCell"].tolist())):
        ctx.hit("mpas:boundary-cells(cellsOnCell has 0 inside the valid prefix)")
    mpas_run(ctx, case, sc, T, coords, floats, exp, None, "primal")


def case_esmf(ctx, case, sc):
    import uxarray as ux
    import xarray as xr

    d, dl = ctx.driver, case["dialect"]
    faces, n = case["faces"], len(case["lon"])
    w = max(map(len, faces)) + dl["extra_w"]
    base = dl["base"]
    conn = np.array([[v + base for v in f] + pad_tail(dl["garbage"], f, w, dl["pad"], n, base) for f in faces], dtype=NP_STORE[dl["store"]])
    num = np.array([len(f) for f in faces], dtype=np.int32)
    am = meshes.AMesh(faces, xyz_of(case["lon"], case["lat"]), True, "src")
    cent = np.array([am.xyz[f].mean(axis=0) for f in faces])
    cent /= np.linalg.norm(cent, axis=1, keepdims=True)
    clon, clat = np.degrees(np.arctan2(cent[:, 1], cent[:, 0])), np.degrees(np.arcsin(np.clip(cent[:, 2], -1, 1)))
    clon_s = lon_conv(case, "face", clon)
    ds = xr.Dataset()
    ds["nodeCoords"] = xr.DataArray(np.stack([src_lon(case), np.asarray(case["lat"], float)], axis=1), dims=["nodeCount", "coordDim"], attrs=dict(units="degrees"))
    at = dict(long_name="Node indices that define the element connectivity")
    if dl["declared"]:
        at["start_index"] = np.int32(base)
    if dl["pad"] == "minus1":
        at["_FillValue"] = NP_STORE[dl["store"]](-1)
    ds["elementConn"] = xr.DataArray(conn, dims=["elementCount", "maxNodePElement"], attrs=at)
    ds["numElementConn"] = xr.DataArray(num, dims=["elementCount"])
    if dl.get("centres", True):
        ds["centerCoords"] = xr.DataArray(np.stack([clon_s, clat], axis=1), dims=["elementCount", "coordDim"], attrs=dict(units="degrees"))
    if case.get("via_file"):
        path = sc.path(".nc")
        ds.to_netcdf(path)
        with xr.open_dataset(path) as seen:
            sa = seen["elementConn"].attrs.get("start_index")
        src, source = path, None
    else:
        sa, src, source = at.get("start_index"), ds, ds
    # the padding is arbitrary for the model (NaN after file decoding becomes an arbitrary int)
    mt = common.Tok(d.ask("C01.esmf", enc_optint(sa), enc_rows(conn.astype(np.int64).tolist()), enc_ints(num.tolist()))).rows()
    exp = dict(faces=faces, lon=case["lon"], lat=case["lat"])
    judge(ctx, case, exp, lambda: ux.open_grid(src), mt, expect_n_node=n,
          centres=(clon, clat) if dl.get("centres", True) else None, source=source)


def case_exodus(ctx, case, sc):
    import uxarray as ux
    import xarray as xr

    d, dl = ctx.driver, case["dialect"]
    n = len(case["lon"])
    blocks = dl["block_faces"]  # list of lists of faces (each block uniform size)
    xyz = xyz_of(case["lon"], case["lat"])
    ds = xr.Dataset()
    if dl["coords"] == "coord":
        ds["coord"] = xr.DataArray(xyz.T.copy(), dims=["num_dim", "num_nodes"])
    else:
        ds["coordx"] = xr.DataArray(xyz[:, 0].copy(), dims=["num_nodes"])
        ds["coordy"] = xr.DataArray(xyz[:, 1].copy(), dims=["num_nodes"])
        ds["coordz"] = xr.DataArray(xyz[:, 2].copy(), dims=["num_nodes"])
        ds["coor_names"] = xr.DataArray(np.array([b"x", b"y", b"z"]), dims=["num_dim"])
    tabs = []
    ids = dl.get("block_ids") or list(range(1, len(blocks) + 1))
    for i, b in enumerate(blocks):
        t = np.array([[v + 1 for v in f] for f in b], dtype=NP_STORE[dl.get("store", "i32")])
        tabs.append(t)
        # the element order of an Exodus file is the order of its blocks IN THE FILE (ascending block number here:
        # connect2 before connect10, and the numbering may have gaps)
        ds[f"connect{ids[i]}"] = xr.DataArray(t, dims=[f"num_el_in_blk{ids[i]}", f"num_nod_per_el{ids[i]}"],
                                            attrs=dict(elem_type={3: "TRI", 4: "QUAD"}.get(t.shape[1], "NSIDED")))
    if case.get("via_file"):
        path = sc.path(".exo")
        ds.to_netcdf(path)
        src, source = path, None
    else:
        src = source = ds
    mt = common.Tok(d.ask("C01.exodus", len(tabs), *[enc_rows(t.tolist()) for t in tabs])).rows()
    faces = [f for b in blocks for f in b]
    exp = dict(faces=faces, lon=case["lon"], lat=case["lat"])
    judge(ctx, case, exp, lambda: ux.open_grid(src), mt, expect_n_node=n, source=source)


def case_scrip(ctx, case, sc):
    import uxarray as ux
    import xarray as xr

    d, dl = ctx.driver, case["dialect"]
    faces = case["faces"]
    w = max(map(len, faces))
    lon, lat = src_lon(case), np.asarray(case["lat"], float)
    clon = np.array([[lon[v] for v in f] + [lon[f[-1]]] * (w - len(f)) for f in faces])
    clat = np.array([[lat[v] for v in f] + [lat[f[-1]]] * (w - len(f)) for f in faces])
    am = meshes.AMesh(faces, xyz_of(case["lon"], case["lat"]), True, "src")
    cent = np.array([am.xyz[f].mean(axis=0) for f in faces])
    cent /= np.linalg.norm(cent, axis=1, keepdims=True)
    cl, ca = np.degrees(np.arctan2(cent[:, 1], cent[:, 0])), np.degrees(np.arcsin(np.clip(cent[:, 2], -1, 1)))
    ds = xr.Dataset()
    ds["grid_corner_lon"] = xr.DataArray(clon, dims=["grid_size", "grid_corners"], attrs=dict(units="degrees"))
    ds["grid_corner_lat"] = xr.DataArray(clat, dims=["grid_size", "grid_corners"], attrs=dict(units="degrees"))
    ds["grid_center_lon"] = xr.DataArray(lon_conv(case, "face", cl), dims=["grid_size"], attrs=dict(units="degrees"))
    ds["grid_center_lat"] = xr.DataArray(ca, dims=["grid_size"], attrs=dict(units="degrees"))
    ds["grid_area"] = xr.DataArray(np.full(len(faces), 0.01), dims=["grid_size"])
    ds["grid_imask"] = xr.DataArray(np.ones(len(faces), dtype=np.int32), dims=["grid_size"])
    ds["grid_dims"] = xr.DataArray(np.array([len(faces)], dtype=np.int32), dims=["grid_rank"])
    if case.get("via_file"):
        path = sc.path(".nc")
        ds.to_netcdf(path)
        src, source = path, None
    else:
        src = source = ds
    # Lean model on order-preserving integer keys of the corner coordinates
    def enc_keys(rows_lon, rows_lat):
        return " ".join([str(len(rows_lon))] + [" ".join([str(len(r1))] + [f"{key_of_float(a)} {key_of_float(b)}" for a, b in zip(r1, r2)])
                                                for r1, r2 in zip(rows_lon, rows_lat)])

    keys = enc_keys(clon.tolist(), clat.tolist())
    fkeys = enc_keys([[lon[v] for v in f] for f in faces], [[lat[v] for v in f] for f in faces])
    # the source is Lean's `encScripRow w` of the faces and meets the hypothesis of `scrip_positions`
    if d.ask("C01.scrip_wf", w, fkeys, keys) != "1":
        ctx.hit("outside-quantifier(scrip: last two corners coincide)")
        return
    tk = common.Tok(d.ask("C01.scrip", keys))
    nodes = tk.pairs()
    mt = tk.rows()
    exp = dict(faces=faces, lon=case["lon"], lat=case["lat"])
    npos = len({(key_of_float(a), key_of_float(b)) for a, b in zip(lon.tolist(), lat.tolist())})
    judge(ctx, case, exp, lambda: ux.open_grid(src), mt, expect_n_node=npos if len(nodes) == npos else None, centres=(cl, ca), source=source)


def case_vertices(ctx, case, sc):
    import uxarray as ux

    d, dl = ctx.driver, case["dialect"]
    faces = case["faces"]
    w = max(map(len, faces))
    F = float(INT_FILL)
    if dl.get("coords") == "xyz":
        # Cartesian-only source: node_lon / node_lat are derived lazily by the grid
        xyz = xyz_of(case["lon"], case["lat"])
        arr = np.full((len(faces), w, 3), F)
        for i, f in enumerate(faces):
            arr[i, : len(f), :] = xyz[f]
        # lexicographic order on (x, y, z) = order on the pair (key x, key y * 2^65 + key z)
        kk = lambda r: (f"{INT_FILL} {INT_FILL}" if r[0] == F else f"{key_of_float(r[0])} {key_of_float(r[1]) * (1 << 65) + key_of_float(r[2])}")
        npos = len({tuple(key_of_float(c) for c in p) for p in xyz.tolist()})
        latlon = False
        if (np.asarray(case["lon"]) < 0).any():
            ctx.hit("vertices-xyz:western-hemisphere-nodes")
        if (np.abs(np.asarray(case["lon"])) > 170).any():
            ctx.hit("vertices-xyz:nodes-near-the-antimeridian")
    else:
        lon, lat = src_lon(case), np.asarray(case["lat"], float)
        arr = np.full((len(faces), w, 2), F)
        for i, f in enumerate(faces):
            arr[i, : len(f), 0] = lon[f]
            arr[i, : len(f), 1] = lat[f]
        kk = lambda r: f"{key_of_float(r[0]) if r[0] != F else INT_FILL} {key_of_float(r[1]) if r[1] != F else INT_FILL}"
        npos = len({(key_of_float(a), key_of_float(b)) for a, b in zip(lon.tolist(), lat.tolist())})
        latlon = True
    keys = " ".join([str(len(faces))] + [" ".join([str(w)] + [kk(r) for r in row]) for row in arr.tolist()])
    tk = common.Tok(d.ask("C01.verts", keys))
    tk.pairs()
    mt = tk.rows()
    src = arr if dl.get("api") == "array" else arr.tolist()
    exp = dict(faces=faces, lon=case["lon"], lat=case["lat"])
    judge(ctx, case, exp, lambda: ux.open_grid(src, latlon=latlon), mt, expect_n_node=npos, source=src)


def case_geos(ctx, case, sc):
    import uxarray as ux
    import xarray as xr

    d, dl = ctx.driver, case["dialect"]
    nf, nx, ny = dl["nf"], dl["nx"], dl["ny"]
    lon, lat = src_lon(case), np.asarray(case["lat"], float)
    ds = xr.Dataset()
    ds["corner_lons"] = xr.DataArray(lon.reshape(nf, nx, ny), dims=["nf", "YCdim", "XCdim"])
    ds["corner_lats"] = xr.DataArray(lat.reshape(nf, nx, ny), dims=["nf", "YCdim", "XCdim"])
    am = meshes.AMesh(case["faces"], xyz_of(case["lon"], case["lat"]), False, "src")
    cent = np.array([am.xyz[f].mean(axis=0) for f in case["faces"]])
    cent /= np.linalg.norm(cent, axis=1, keepdims=True)
    cl, ca = np.degrees(np.arctan2(cent[:, 1], cent[:, 0])), np.degrees(np.arcsin(np.clip(cent[:, 2], -1, 1)))
    if dl.get("centres", True):
        ds["lons"] = xr.DataArray(lon_conv(case, "face", cl).reshape(nf, nx - 1, ny - 1), dims=["nf", "Ydim", "Xdim"])
        ds["lats"] = xr.DataArray(ca.reshape(nf, nx - 1, ny - 1), dims=["nf", "Ydim", "Xdim"])
    if case.get("via_file"):
        path = sc.path(".nc4")
        ds.to_netcdf(path)
        src, source = path, None
    else:
        src = source = ds
    mt = common.Tok(d.ask("C01.geos", nf, nx, ny)).rows()
    exp = dict(faces=case["faces"], lon=case["lon"], lat=case["lat"])
    judge(ctx, case, exp, lambda: ux.open_grid(src), mt, expect_n_node=nf * nx * ny,
          centres=(cl, ca) if dl.get("centres", True) else None, source=source)


def case_icon(ctx, case, sc):
    import uxarray as ux
    import xarray as xr

    d, dl = ctx.driver, case["dialect"]
    faces, n = case["faces"], len(case["lon"])
    edges, fe, ef = edges_of(faces)
    miss = dl["missing"]  # how a missing neighbour is stored: 0 or -1
    it = NP_STORE[dl.get("store", "i32")]
    voc = np.array([[v + 1 for v in f] for f in faces], dtype=it).T.copy()
    eoc = np.array([[e + 1 for e in r] for r in fe], dtype=it).T.copy()
    nb = []
    for fi, r in enumerate(fe):
        nb.append([next((g + 1 for g in ef[e] if g != fi), miss) for e in r])
    nci = np.array(nb, dtype=it).T.copy()
    ace = np.array([[r[0] + 1, (r[1] + 1) if len(r) > 1 else miss] for r in ef], dtype=it).T.copy()
    ev = np.array([[a + 1, b + 1] for a, b in edges], dtype=it).T.copy()
    xyz = xyz_of(case["lon"], case["lat"])
    ec = np.array([xyz[a] + xyz[b] for a, b in edges])
    ec /= np.linalg.norm(ec, axis=1, keepdims=True)
    cc = np.array([xyz[f].mean(axis=0) for f in faces])
    cc /= np.linalg.norm(cc, axis=1, keepdims=True)
    ds = xr.Dataset()
    ds["vlon"] = xr.DataArray(np.radians(lon_conv(case, "node", case["lon"])), dims=["vertex"])
    ds["vlat"] = xr.DataArray(np.radians(np.asarray(case["lat"], float)), dims=["vertex"])
    ds["elon"] = xr.DataArray(np.radians(lon_conv(case, "edge", np.degrees(np.arctan2(ec[:, 1], ec[:, 0])))), dims=["edge"])
    ds["elat"] = xr.DataArray(np.arcsin(np.clip(ec[:, 2], -1, 1)), dims=["edge"])
    ds["clon"] = xr.DataArray(np.radians(lon_conv(case, "face", np.degrees(np.arctan2(cc[:, 1], cc[:, 0])))), dims=["cell"])
    ds["clat"] = xr.DataArray(np.arcsin(np.clip(cc[:, 2], -1, 1)), dims=["cell"])
    ds["vertex_of_cell"] = xr.DataArray(voc, dims=["nv", "cell"])
    ds["edge_of_cell"] = xr.DataArray(eoc, dims=["nv", "cell"])
    ds["neighbor_cell_index"] = xr.DataArray(nci, dims=["nv", "cell"])
    ds["adjacent_cell_of_edge"] = xr.DataArray(ace, dims=["nc", "edge"])
    ds["edge_vertices"] = xr.DataArray(ev, dims=["nc", "edge"])
    if case.get("via_file"):
        path = sc.path(".nc")
        ds.to_netcdf(path)
        src, source = path, None
    else:
        src = source = ds
    mt = common.Tok(d.ask("C01.icon", len(faces), enc_rows(voc.tolist()))).rows()
    # expectations for the supplied tables, computed before any opening
    wants = {name: common.Tok(d.ask("C01.icon", ncell, enc_rows(tab.tolist()))).rows()
             for name, tab, ncell in (("edge_node_connectivity", ev, len(edges)), ("edge_face_connectivity", ace, len(edges)),
                                      ("face_edge_connectivity", eoc, len(faces)), ("face_face_connectivity", nci, len(faces)))}
    exp = dict(faces=faces, lon=case["lon"], lat=case["lat"])
    g = judge(ctx, case, exp, lambda: ux.open_grid(src), mt, expect_n_node=n,
              centres=(np.degrees(np.arctan2(cc[:, 1], cc[:, 0])), np.degrees(np.arcsin(np.clip(cc[:, 2], -1, 1)))), source=source,
              edge_centres=(np.degrees(np.arctan2(ec[:, 1], ec[:, 0])), np.degrees(np.arcsin(np.clip(ec[:, 2], -1, 1)))))
    if g is None:
        return
    cls_sig = sig_of(dict(fmt="icon", dialect=dialect_class(case)))
    for name, want in wants.items():
        try:
            v = np.asarray(g._ds[name].values) if name == "face_face_connectivity" else np.asarray(getattr(g, name).values)
            got, dt = [[int(x) for x in r] for r in v.tolist()], str(v.dtype)
        except Exception as e:
            ctx.fail(f"C01/{cls_sig}/carried/{name}/raises", f"icon: supplied {name} raises {type(e).__name__}", case)
            continue
        ctx.hit("carried-table-checked")
        if got != want or dt != "int64":
            ctx.fail(f"C01/{cls_sig}/carried/{name}", f"icon: supplied {name} is not carried over re-based with the standard fill and dtype",
                     case, dict(table=got[:40], dtype=dt), want[:40], ["carried_connectivity"])


def case_geojson(ctx, case, sc):
    import uxarray as ux

    d, dl = ctx.driver, case["dialect"]
    faces = case["faces"]
    lon, lat = np.asarray(case["lon"], float), np.asarray(case["lat"], float)

    def ring(f):
        pts = [[float(lon[v]), float(lat[v])] for v in f]
        return pts + [pts[0]]

    feats, i = [], 0
    for k in dl["groups"]:  # sizes of consecutive groups; 1 = Polygon, >1 = MultiPolygon
        fs = faces[i : i + k]
        i += k
        if k == 1:
            geom = dict(type="Polygon", coordinates=[ring(fs[0])])
        else:
            geom = dict(type="MultiPolygon", coordinates=[[ring(f)] for f in fs])
        feats.append(dict(type="Feature", properties=dict(id=len(feats)), geometry=geom))
    path = sc.path(".geojson")
    with open(path, "w") as fh:
        json.dump(dict(type="FeatureCollection", features=feats), fh)
    mt = common.Tok(d.ask("C01.rings", enc_ints([len(f) for f in faces]))).rows()
    exp = dict(faces=faces, lon=case["lon"], lat=case["lat"])
    import contextlib
    import io

    def open_fn():
        with contextlib.redirect_stdout(io.StringIO()):
            return ux.Grid.from_file(path, backend="geopandas")

    judge(ctx, case, exp, open_fn, mt, expect_n_node=sum(map(len, faces)))


BUILDERS = dict(ugrid=case_ugrid, topology=case_topology, mpas=case_mpas, mpas_cut=case_mpas_cut, esmf=case_esmf, exodus=case_exodus,
                scrip=case_scrip, vertices=case_vertices, geos=case_geos, icon=case_icon, geojson=case_geojson)


def draw_access(ctx, case):
    """the order of first reads is a random dimension of every case (stored in the case: replay is exact)"""
    if "access" not in case:
        k = ctx.rng.choice([0, 2, 3, len(ACCESS)])
        order = ctx.rng.sample(ACCESS, k)
        if ctx.rng.random() < 0.35:
            order = [ctx.rng.choice(["node_lat", "bbox_nodes", "node_x", "face_lon"])] + [x for x in order if x != "bbox_nodes"]
        case["access"] = order
    ctx.hit("first-read=" + (case["access"][0] if case["access"] else "default(face_node_connectivity)"))
    dl = case.get("dialect")
    if isinstance(dl, dict) and not case.get("sample_file") and case.get("fmt") != "mpas_cut":
        if "lonconv" not in dl:
            dl["lonconv"] = dict(node=ctx.rng.choice(LONCONV), face=ctx.rng.choice(LONCONV), edge=ctx.rng.choice(LONCONV))
        lc = dl["lonconv"]
        ctx.hit("lonconv:" + ("all-equal" if len(set(lc.values())) == 1 else "differs-per-variable"))
        if lc["node"] == "pm180" and (lc["face"] != "pm180" or lc["edge"] != "pm180"):
            ctx.hit("lonconv:nodes<=180,centres-0..360")


def run_case(ctx, case, sc):
    draw_access(ctx, case)
    try:
        BUILDERS[case["fmt"]](ctx, case, sc)
    except (RuntimeError, AssertionError):
        raise
    finally:
        pass


# --------------------------------------------------------------------------------------
# longitude normalisation: Lean `setRange` at Float vs the implementation
# --------------------------------------------------------------------------------------


def lon_case(ctx, lons):
    import uxarray as ux

    d = ctx.driver
    lons = [float(x) for x in lons]
    n = len(lons)
    lat = np.linspace(-60, 60, n)
    conn = np.array([[0, 1, 2]], dtype=np.int64)
    case = dict(fmt="lonrange", lons=lons)
    ctx.case(("lon", lons), nontrivial=max(lons) > 180, sample=case if n <= 4 else None)
    ctx.hit("lon:max>180" if max(lons) > 180 else "lon:max<=180")
    g = ux.Grid.from_topology(node_lon=np.array(lons), node_lat=lat, face_node_connectivity=conn, fill_value=INT_FILL)
    got = np.asarray(g.node_lon.values, float)
    want = np.array(common.Tok(d.ask("C01.normlon", common.enc_floats(lons))).floats())
    # position on the circle preserved, result inside [-180, 180] whenever the input is in a stated convention
    in_conv = all(0 <= x <= 360 for x in lons) or all(-180 <= x <= 180 for x in lons)
    turn = np.abs(((got - np.array(lons)) / 360.0) - np.round((got - np.array(lons)) / 360.0)).max()
    if in_conv and (got.min() < -180 or got.max() > 180 or turn > 1e-9):
        ctx.fail("C01/lonrange/" + ("range" if turn <= 1e-9 else "position"), "node_lon is not the same longitude brought into [-180, 180]",
                 case, got.tolist(), want.tolist(), ["lon_range"])
    elif np.abs(((got - want) / 360.0) - np.round((got - want) / 360.0)).max() > 1e-11:
        # compared as positions on the circle: which of -180 / 180 represents the antimeridian is free
        ctx.mismatch("C01/lonrange/setRange", case, got.tolist(), want.tolist())


# --------------------------------------------------------------------------------------
# malformed-input stream (OUTSIDE the property's quantifier: never a verdict).  What the real code rejects
# as "unknown format", and which reader an accepted dataset reaches, is compared with the Lean model
# `Readers.sniff` (theorems sniff_rejects_iff / sniff_mpas_iff / sniff_ugrid_iff); a disagreement is counted
# and noted.  A few malformed sources per reader record accept / reject.
# --------------------------------------------------------------------------------------

MARKERS = ["coord", "coordx", "gridCenterLon", "attrNodeCoords", "attrFaceNode", "attrTopoDim", "roleMeshTopo", "verticesOnCell",
           "dimMaxNodePElement", "dimNf", "dimYC", "dimXC", "vertexOfCell"]
FMT_CODE = {0: "rejected", 1: "exodus", 2: "scrip", 3: "ugrid", 4: "mpas", 5: "esmf", 6: "geos", 7: "icon"}
SPEC_NAME = {"Exodus": "exodus", "Scrip": "scrip", "UGRID": "ugrid", "MPAS": "mpas", "ESMF": "esmf", "GEOS-CS": "geos", "ICON": "icon"}


def marker_dataset(on):
    import xarray as xr

    ds = xr.Dataset()
    z = np.zeros
    if "coord" in on:
        ds["coord"] = xr.DataArray(z((3, 3)), dims=["num_dim", "num_nodes"])
    if "coordx" in on:
        ds["coordx"] = xr.DataArray(z(3), dims=["num_nodes_x"])
    if "gridCenterLon" in on:
        ds["grid_center_lon"] = xr.DataArray(z(2), dims=["grid_size"])
    for k, (attr, val) in dict(attrNodeCoords=("node_coordinates", "x y"), attrFaceNode=("face_node_connectivity", "fn"),
                               attrTopoDim=("topology_dimension", 2), roleMeshTopo=("cf_role", "mesh_topology")).items():
        if k in on:
            ds["v_" + k] = xr.DataArray(np.int32(0), attrs={attr: val})
    if "verticesOnCell" in on:
        ds["verticesOnCell"] = xr.DataArray(np.ones((2, 3), dtype=np.int32), dims=["nCells", "maxEdges"])
    for k, dim in dict(dimMaxNodePElement="maxNodePElement", dimNf="nf", dimYC="YCdim", dimXC="XCdim").items():
        if k in on:
            ds["d_" + dim] = xr.DataArray(z(2), dims=[dim])
    if "vertexOfCell" in on:
        ds["vertex_of_cell"] = xr.DataArray(np.ones((3, 2), dtype=np.int32), dims=["nv", "cell"])
    return ds


def reader_reached(ux, ds):
    """`rejected` (unknown format), or the reader the dataset was dispatched to (it may then fail on the
    incomplete dataset: the deepest uxarray/io frame of the traceback tells which reader ran)"""
    import re
    import traceback

    try:
        g = ux.Grid.from_dataset(ds)
        return SPEC_NAME.get(g.source_grid_spec, str(g.source_grid_spec)), "accepted"
    except RuntimeError as e:
        if "recognize" in str(e):
            return "rejected", "RuntimeError"
        err = e
    except Exception as e:
        err = e
    reached = "unknown"
    for fr in traceback.extract_tb(err.__traceback__):
        mm = re.search(r"uxarray/io/_(\w+)\.py$", fr.filename)
        if mm:
            reached = {"geopandas": "geo", "topology": "topology", "vertices": "vertices"}.get(mm.group(1), mm.group(1))
    return reached, type(err).__name__


def malformed_stream(ctx):
    import uxarray as ux
    import xarray as xr

    rng, d = ctx.rng, ctx.driver
    for _ in range(ctx.n(60, 600)):
        k = rng.choice([0, 1, 1, 2, 2, 3, 4])
        on = set(rng.sample(MARKERS, k))
        if rng.random() < 0.25:
            on |= {"attrNodeCoords", "attrFaceNode", "attrTopoDim", "roleMeshTopo"} - ({rng.choice(MARKERS[3:7])} if rng.random() < 0.5 else set())
        if rng.random() < 0.15:
            on |= {"dimNf", "dimYC", "dimXC"} - ({rng.choice(MARKERS[9:12])} if rng.random() < 0.5 else set())
        model = FMT_CODE[int(d.ask("C01.sniff", *[1 if m in on else 0 for m in MARKERS]))]
        reached, how = reader_reached(ux, marker_dataset(on))
        ctx.hit("malformed-stream:sniff:" + model)
        if reached == model:
            ctx.hit("malformed-stream:model-agrees")
        else:
            ctx.hit("malformed-stream:model-DISAGREES")
            if len([x for x in ctx.notes if x.startswith("malformed stream")]) < 5:
                ctx.notes.append(f"malformed stream: markers {sorted(on)}: model says {model}, implementation reached {reached} ({how})")
    # a few malformed sources per reader: what the real code does is recorded (no verdict)
    lon, lat = np.array([0.0, 10.0, 10.0, 0.0]), np.array([0.0, 0.0, 10.0, 10.0])

    def record(label, fn, model=None):
        try:
            fn()
            out = "accepted"
        except Exception as e:
            out = "rejected:" + type(e).__name__
        ctx.hit(f"malformed-stream:{label}:{out}")
        if model is not None:
            agree = (out == "accepted") == (model == "accepted")
            ctx.hit("malformed-stream:model-agrees" if agree else "malformed-stream:model-DISAGREES")
            if not agree and not any(label in x for x in ctx.notes):
                ctx.notes.append(f"malformed stream: {label}: the model {model}s, the implementation {out}")

    # UGRID-like table with a NaN that is not the declared fill
    bad = np.array([[0, 1, 2, np.nan]])
    m_bad = d.ask("C01.topology", enc_optcell(-1), 0, enc_raw(bad))
    record("topology:NaN-not-the-declared-fill", lambda: ux.Grid.from_topology(lon, lat, bad.copy(), fill_value=-1),
           "accepted" if m_bad.startswith("ok") else "reject")
    record("topology:index-out-of-range", lambda: ux.Grid.from_topology(lon, lat, np.array([[0, 1, 9]]), fill_value=-1).face_node_connectivity)
    mp = xr.Dataset(dict(verticesOnCell=(("nCells", "maxEdges"), np.array([[1, 2, 3]], dtype=np.int32)),
                         cellsOnVertex=(("nVertices", "vertexDegree"), np.array([[1, 0, 0]] * 3, dtype=np.int32)),
                         lonVertex=(("nVertices",), np.zeros(3)), latVertex=(("nVertices",), np.zeros(3))))
    record("mpas:missing-nEdgesOnCell", lambda: ux.open_grid(mp))
    es = xr.Dataset(dict(elementConn=(("elementCount", "maxNodePElement"), np.array([[1, 2, 3]], dtype=np.int32)),
                         numElementConn=(("elementCount",), np.array([3], dtype=np.int32))))
    record("esmf:missing-nodeCoords", lambda: ux.open_grid(es))
    record("vertices:wrong-rank", lambda: ux.open_grid(np.zeros(3), latlon=True))
    record("open_grid:unsupported-object", lambda: ux.open_grid(3.5))


# --------------------------------------------------------------------------------------
# generators
# --------------------------------------------------------------------------------------

NAMES = [dict(mesh="Mesh2", x="Mesh2_node_x", y="Mesh2_node_y", conn="Mesh2_face_nodes", nd="nMesh2_node", fd="nMesh2_face", md="nMaxMesh2_face_nodes"),
         dict(mesh="grid_topology", x="node_lon", y="node_lat", conn="face_node_connectivity", nd="n_node", fd="n_face", md="n_max_face_nodes"),
         dict(mesh="topo", x="lon", y="lat", conn="elem", nd="nodes", fd="cells", md="corners"),
         dict(mesh="m", x="xq", y="yq", conn="fn", nd="a", fd="b", md="c")]


def base_case(fmt, m, **dl):
    return dict(fmt=fmt, faces=[list(f) for f in m.faces], lon=[float(x) for x in m.lon], lat=[float(x) for x in m.lat], dialect=dl, via_file=False)


def uniform(m):
    return len(set(m.sizes())) == 1


def draw_table_dialect(rng, uniform_rows, allow_std=True):
    """one table's dialect, drawn independently of every other table of the dataset"""
    store = rng.choice(["i32", "i64", "f64"])
    fills = [-1, 999999, I32MIN, "nan", "nanattr"] + ([INT_FILL] if allow_std else [])
    if uniform_rows:
        fills += [None, None]
    fill = rng.choice(fills)
    if fill in ("nan", "nanattr"):
        store = "f64"
    if fill == INT_FILL:
        store = "i64"
    return dict(base=rng.choice([0, 1]), declared=rng.random() < 0.55, fill=fill, store=store,
                extra_w=0 if fill is None else rng.choice([0, 0, 1]))


def gen_ugrid(rng, m):
    t = draw_table_dialect(rng, uniform(m))
    c = base_case("ugrid", m, names=rng.choice(NAMES), face_centres=rng.random() < 0.5, edge_centres=rng.random() < 0.4, **t)
    if rng.random() < 0.45 and m.n_face <= 400:
        names = [x for x in UGRID_OPTIONAL if rng.random() < 0.5] or ["edge_node_connectivity"]
        rng.shuffle(names)
        c["dialect"]["tables"] = {x: dict(draw_table_dialect(rng, x == "edge_node_connectivity"), order=i,
                                          via=rng.choice(["attr", "attr", "cf_role"])) for i, x in enumerate(names)}
    c["via_file"] = rng.random() < 0.25
    return c


def gen_topology(rng, m):
    store = rng.choice(["i32", "i64", "f64"])
    fills = [-1, 999999, "nan", INT_FILL, 0]
    if uniform(m):
        fills += [None, None, None]
    fill = rng.choice(fills)
    base = rng.choice([0, 1, 1])
    if fill == 0:
        base = 1
    if fill == "nan":
        store = "f64"
    if fill == INT_FILL:
        store = "i64"
    return base_case("topology", m, base=base, fill=fill, store=store, extra_w=0 if fill is None else rng.choice([0, 0, 1]),
                     api=rng.choice(["classmethod", "dict"]), face_centres=rng.random() < 0.5, edge_centres=rng.random() < 0.4)


def gen_mpas(rng, m, dual=False):
    c = base_case("mpas", m, pad=rng.choice(["zeros", "repeat", "garbage"]), extra_w=rng.choice([0, 0, 1, 2]),
                  garbage=[rng.randrange(1 << 20) for _ in range(11)], dual=dual, tables=rng.random() < 0.6 and m.n_face <= 400,
                  store=rng.choice(["i32", "i64"]), closed=bool(m.closed), node_coords=rng.choice(["lonlat", "lonlat", "xyz"]))
    c["via_file"] = rng.random() < 0.2
    return c


def gen_esmf(rng, m):
    declared = rng.random() < 0.5
    base = rng.choice([0, 1]) if declared else 1
    c = base_case("esmf", m, base=base, declared=declared, pad=rng.choice(["minus1", "minus1", "zeros", "repeat", "garbage"]),
                  store=rng.choice(["i32", "i64"]), extra_w=rng.choice([0, 0, 1]), garbage=[rng.randrange(1 << 20) for _ in range(11)],
                  centres=rng.random() < 0.7)
    c["via_file"] = rng.random() < 0.25
    return c


def gen_exodus(rng, m, many=False):
    by = {}
    for f in m.faces:
        by.setdefault(len(f), []).append(list(f))
    blocks = []
    for k, fs in by.items():
        if many and len(fs) > 1:  # many small blocks of the same element type
            step = max(1, len(fs) // rng.choice([4, 6, 9]))
            blocks += [fs[i : i + step] for i in range(0, len(fs), step)]
        elif len(fs) > 1 and rng.random() < 0.3:  # the same element type in two blocks
            cut = rng.randrange(1, len(fs))
            blocks += [fs[:cut], fs[cut:]]
        else:
            blocks.append(fs)
    rng.shuffle(blocks)
    # block numbers: 1..k, or ascending with gaps (blocks deleted from a larger file)
    ids, cur = [], 0
    gaps = rng.random() < 0.4
    for _ in blocks:
        cur += rng.choice([1, 1, 2, 4]) if gaps else 1
        ids.append(cur)
    c = base_case("exodus", m, block_faces=blocks, blocks=len(blocks), coords=rng.choice(["coord", "coordxyz"]),
                  store=rng.choice(["i32", "i64"]), block_ids=ids)
    c["faces"] = [f for b in blocks for f in b]
    c["via_file"] = rng.random() < 0.25
    return c


def gen_scrip(rng, m):
    c = base_case("scrip", m, pad="uniform" if uniform(m) else "repeat-last")
    c["via_file"] = rng.random() < 0.2
    return c


def gen_vertices(rng, m):
    return base_case("vertices", m, pad="uniform" if uniform(m) else "fill", api=rng.choice(["array", "list"]),
                     coords=rng.choice(["lonlat", "xyz"]))


def gen_geos(rng):
    nf, nx, ny = rng.choice([1, 2, 3, 6]), rng.choice([2, 3, 4, 5]), rng.choice([2, 3, 4, 5])
    lon, lat = [], []
    lon0 = rng.choice([-170.0, -40.0, 100.0, 160.0])
    for t in range(nf):
        for a in range(nx):
            for b in range(ny):
                lon.append(lon0 + 55.0 * t + 3.0 * b + 0.2 * a)
                lat.append(-50.0 + 17.0 * (t % 3) + 3.5 * a - 0.1 * b)
    lon = [((x + 180.0) % 360.0) - 180.0 for x in lon]
    idx = lambda t, a, b: t * nx * ny + a * ny + b
    faces = [[idx(t, a + 1, b + 1), idx(t, a + 1, b), idx(t, a, b), idx(t, a, b + 1)]
             for t in range(nf) for a in range(nx - 1) for b in range(ny - 1)]
    c = dict(fmt="geos", faces=faces, lon=lon, lat=lat, dialect=dict(nf=nf, nx=nx, ny=ny, centres=rng.random() < 0.7), via_file=rng.random() < 0.2)
    return c


def gen_icon(rng, m):
    c = base_case("icon", m, missing=rng.choice([0, -1]), store=rng.choice(["i32", "i64"]))
    c["via_file"] = rng.random() < 0.2
    return c


def gen_geojson(rng, m):
    groups, left = [], m.n_face
    while left:
        k = min(left, rng.choice([1, 1, 1, 2, 3]))
        groups.append(k)
        left -= k
    return base_case("geojson", m, groups=groups, multi=any(k > 1 for k in groups))


def tri_meshes(rng):
    out = [meshes.icosa(), meshes.bipyramid(rng.choice([3, 4, 5, 6])), meshes.hull(rng.choice([6, 9, 14]), rng),
           meshes.fan(rng.choice([3, 4, 5, 6])), meshes.fan(3, full=False), meshes.isolated(rng.choice([1, 2, 3]))]
    return [m.renumber(rng) if rng.random() < 0.6 else m for m in out]


def regional_meshes(rng):
    """partial meshes with boundary cells: lattice patches (also split / merged), open fans, closed meshes with holes"""
    p = meshes.patch(rng.choice([2, 3, 4]), rng.choice([2, 3]), lon0=rng.choice([-30, 150, 170]), lat0=rng.choice([-20, 40, 70]))
    out = [p, p.split_some(rng).merge_some(rng), meshes.fan(rng.choice([4, 5, 6]), full=False),
           meshes.cube_sphere(rng.choice([2, 3])).drop_faces(rng, 0.4), meshes.dual_of(meshes.hull(rng.choice([12, 16]), rng)).drop_faces(rng, 0.35),
           meshes.hull(rng.choice([10, 14]), rng).drop_faces(rng, 0.3)]
    return [m.renumber(rng) if rng.random() < 0.7 else m for m in out]


def closed3(rng):
    """closed meshes whose every node has valence >= 3 (so that the dual has one face per node)"""
    out = [meshes.prism(rng.choice([3, 4, 5, 6, 7, 8])), meshes.cube_sphere(rng.choice([1, 2])), meshes.icosa(),
           meshes.dual_of(meshes.hull(rng.choice([8, 12, 16]), rng)), meshes.hull(rng.choice([6, 10]), rng), meshes.antiprism(rng.choice([3, 4, 5]))]
    return [m.renumber(rng) if rng.random() < 0.6 else m for m in out]


def with_unused_nodes(rng, m):
    """the same faces over a node list that starts with nodes no face uses (a regional mesh that lists all global nodes)"""
    k = rng.choice([1, 1, 2])
    extra = np.array([meshes._ll(rng.uniform(-179, 179), rng.uniform(-85, 85)) for _ in range(k)])
    return meshes.AMesh([[v + k for v in f] for f in m.faces], np.vstack([extra, m.xyz]), m.closed, m.kind + "+unused")


def generated(ctx, sc):
    rng = ctx.rng
    reps = ctx.n(5, 60)
    for rep in range(reps):
        zoo = meshes.zoo(rng, big=(rep == 0))
        for m in zoo:
            if m.n_face > 700:
                continue
            mu = with_unused_nodes(rng, m) if rng.random() < 0.3 else m
            if mu is not m:
                ctx.hit("mesh-with-unused-leading-nodes")
            plan = [gen_ugrid(rng, mu), gen_ugrid(rng, mu), gen_ugrid(rng, m), gen_topology(rng, mu), gen_topology(rng, m),
                    gen_mpas(rng, mu), gen_esmf(rng, mu), gen_exodus(rng, mu), gen_vertices(rng, m)]
            for c in plan[:1]:
                if mu is not m:
                    c["dialect"]["declared"] = True  # the base cannot be inferred when the lowest node is unused
            if mu is not m and rng.random() < 0.5:
                # an optional table without start_index over a node list whose lowest nodes are unused
                plan[0]["dialect"]["tables"] = dict(edge_node_connectivity=dict(draw_table_dialect(rng, True), declared=False, order=0, via="attr"))
            # plan[1] keeps its drawn `declared`: when undeclared it is the ambiguous dialect (recorded, no verdict)
            if m.n_face <= 300:
                plan.append(gen_scrip(rng, m))
            if m.n_face <= 60:
                plan.append(gen_geojson(rng, m))
            for c in plan:
                run_case(ctx, c, sc)
        for m in closed3(rng):
            run_case(ctx, gen_mpas(rng, m, dual=True), sc)
            run_case(ctx, gen_mpas(rng, m, dual=False), sc)
        # regional MPAS meshes: boundary cells / edges / vertices, every optional table supplied
        for m in regional_meshes(rng):
            c = gen_mpas(rng, m, dual=False)
            c["dialect"]["tables"] = True
            run_case(ctx, c, sc)
        for _ in range(2):
            run_case(ctx, dict(fmt="mpas_cut", via_file=rng.random() < 0.3,
                               dialect=dict(lon0=round(rng.uniform(-180, 180), 3), lat0=round(rng.uniform(-80, 80), 3),
                                            radius=rng.choice([25, 40, 60, 85]), pad=rng.choice(["zeros", "repeat"]),
                                            store=rng.choice(["i32", "i64"]))), sc)
        for m in tri_meshes(rng):
            run_case(ctx, gen_icon(rng, m), sc)
            run_case(ctx, gen_exodus(rng, m), sc)
        for m in (meshes.cube_sphere(rng.choice([2, 3])), meshes.hull(rng.choice([14, 20]), rng), meshes.dual_of(meshes.hull(24, rng)).merge_some(rng, tries=4)):
            run_case(ctx, gen_exodus(rng, m.renumber(rng), many=True), sc)
        for _ in range(4):
            run_case(ctx, gen_geos(rng), sc)
        # uniform meshes: the "no fill at all" dialects
        for m in (meshes.cube_sphere(rng.choice([1, 2, 3])), meshes.patch(rng.choice([1, 2, 3]), rng.choice([1, 2]), lon0=rng.choice([-30, 170])),
                  meshes.hull(rng.choice([5, 8]), rng)):
            m = m.renumber(rng)
            for c in (gen_ugrid(rng, m), gen_topology(rng, m), gen_scrip(rng, m), gen_vertices(rng, m)):
                run_case(ctx, c, sc)
        for _ in range(6):
            k = rng.randint(3, 9)
            conv = rng.choice(["0-360", "pm180", "pm180-edge", "0-360-edge"])
            if conv == "0-360":
                l = [rng.uniform(0, 360) for _ in range(k)]
            elif conv == "pm180":
                l = [rng.uniform(-180, 180) for _ in range(k)]
            elif conv == "pm180-edge":
                l = [rng.choice([-180.0, 180.0, 0.0, 179.999999, rng.uniform(-180, 180)]) for _ in range(k)]
            else:
                l = [rng.choice([0.0, 360.0, 180.0, 180.0000001, 359.75, rng.uniform(0, 360)]) for _ in range(k)]
            lon_case(ctx, l)


# --------------------------------------------------------------------------------------
# corpus: the sample files that are usable offline, judged against an independent decoding
# --------------------------------------------------------------------------------------


def _raw(path):
    import xarray as xr

    return xr.open_dataset(path, mask_and_scale=False, decode_times=False)


def expect_ugrid_file(path):
    ds = _raw(path)
    topo = [v for v in ds.variables if ds[v].attrs.get("cf_role") == "mesh_topology"][0]
    a = ds[topo].attrs
    x, y = a["node_coordinates"].split()
    c = ds[a["face_node_connectivity"]]
    fv, si = c.attrs.get("_FillValue"), int(c.attrs.get("start_index", 0))
    vals = np.asarray(c.values)
    faces = [[int(v) - si for v in r if not (v == fv or v != v)] for r in vals.tolist()]
    lon = np.asarray(ds[x].values, float)
    return dict(faces=faces, lon=((lon + 180) % 360) - 180, lat=np.asarray(ds[y].values, float)), len(lon)


def expect_mpas_file(path, dual):
    ds = _raw(path)
    if not dual:
        voc, ne = np.asarray(ds["verticesOnCell"].values), np.asarray(ds["nEdgesOnCell"].values)
        faces = [[int(v) - 1 for v in r[:k]] for r, k in zip(voc.tolist(), ne.tolist())]
        lon, lat = np.degrees(ds["lonVertex"].values), np.degrees(ds["latVertex"].values)
    else:
        cov = np.asarray(ds["cellsOnVertex"].values)
        faces = [[int(v) - 1 for v in r if v != 0] for r in cov.tolist()]
        lon, lat = np.degrees(ds["lonCell"].values), np.degrees(ds["latCell"].values)
    return dict(faces=faces, lon=((lon + 180) % 360) - 180, lat=lat), len(lon)


def expect_esmf_file(path):
    ds = _raw(path)
    conn, num = np.asarray(ds["elementConn"].values), np.asarray(ds["numElementConn"].values)
    si = int(ds["elementConn"].attrs.get("start_index", 1))
    faces = [[int(v) - si for v in r[:k]] for r, k in zip(conn.tolist(), num.tolist())]
    nc = np.asarray(ds["nodeCoords"].values, float)
    return dict(faces=faces, lon=((nc[:, 0] + 180) % 360) - 180, lat=nc[:, 1]), len(nc)


def expect_exodus_file(path):
    ds = _raw(path)
    names = sorted([v for v in ds.variables if v.startswith("connect")], key=lambda s: int(s[7:]))
    faces = [[int(v) - 1 for v in r] for nme in names for r in np.asarray(ds[nme].values).tolist()]
    xyz = np.asarray(ds["coord"].values, float).T
    xyz = xyz / np.linalg.norm(xyz, axis=1, keepdims=True)
    return dict(faces=faces, lon=np.degrees(np.arctan2(xyz[:, 1], xyz[:, 0])), lat=np.degrees(np.arcsin(np.clip(xyz[:, 2], -1, 1)))), len(xyz)


def expect_scrip_file(path):
    ds = _raw(path)
    lo, la = np.asarray(ds["grid_corner_lon"].values, float), np.asarray(ds["grid_corner_lat"].values, float)
    nf, w = lo.shape
    faces = [[i * w + j for j in range(w)] for i in range(nf)]
    lon = lo.ravel()
    return dict(faces=faces, lon=((lon + 180) % 360) - 180, lat=la.ravel()), None


def expect_geos_file(path):
    ds = _raw(path)
    lo, la = np.asarray(ds["corner_lons"].values, float), np.asarray(ds["corner_lats"].values, float)
    nf, nx, ny = lo.shape
    idx = lambda t, a, b: t * nx * ny + a * ny + b
    faces = [[idx(t, a + 1, b + 1), idx(t, a + 1, b), idx(t, a, b), idx(t, a, b + 1)] for t in range(nf) for a in range(nx - 1) for b in range(ny - 1)]
    lon = lo.ravel()
    return dict(faces=faces, lon=((lon + 180) % 360) - 180, lat=la.ravel()), nf * nx * ny


def expect_geo_file(path):
    """independent decoding of a polygon file: exterior rings through pyogrio + shapely"""
    import pyogrio
    import shapely

    _, _, geoms, _ = pyogrio.raw.read(path)
    faces, lon, lat = [], [], []
    for wkb in geoms:
        g = shapely.from_wkb(wkb)
        parts = list(g.geoms) if g.geom_type == "MultiPolygon" else [g]
        for p in parts:
            xy = np.asarray(p.exterior.coords)[:-1, :2]
            faces.append(list(range(len(lon), len(lon) + len(xy))))
            lon += xy[:, 0].tolist()
            lat += xy[:, 1].tolist()
    return dict(faces=faces, lon=lon, lat=lat), len(lon)


FILES = [
    ("ugrid", "test/meshfiles/ugrid/quad-hexagon/grid.nc", {}),
    ("ugrid", "test/meshfiles/ugrid/outCSne30/outCSne30.ug", {}),
    ("ugrid", "test/meshfiles/ugrid/geoflow-small/grid.nc", {}),
    ("ugrid", "test/meshfiles/ugrid/ov_RLL10deg_CSne4/ov_RLL10deg_CSne4.ug", {}),
    ("ugrid", "test/meshfiles/ugrid/outRLL1deg/outRLL1deg.ug", {"thorough": True}),
    ("ugrid", "test/meshfiles/ugrid/fesom/fesom.mesh.diag.nc", {}),
    ("mpas", "test/meshfiles/mpas/QU/mesh.QU.1920km.151026.nc", {"dual": False}),
    ("mpas", "test/meshfiles/mpas/QU/mesh.QU.1920km.151026.nc", {"dual": True}),
    ("scrip", "test/meshfiles/scrip/outCSne8/outCSne8.nc", {}),
    ("exodus", "test/meshfiles/exodus/outCSne8/outCSne8.g", {}),
    ("exodus", "test/meshfiles/exodus/mixed/mixed.exo", {}),
    ("esmf", "test/meshfiles/esmf/ne30/ne30pg3.grid.nc", {"thorough": True}),
    ("geos", "test/meshfiles/geos-cs/c12/test-c12.native.nc4", {}),
    ("geo", "test/meshfiles/geojson/sample_chicago_buildings.geojson", {}),
    ("geo", "test/meshfiles/shp/5poly/5poly.shp", {}),
    ("geo", "test/meshfiles/shp/multipoly/multipoly.shp", {}),
]


def run_file(ctx, kind, rel, opt):
    import contextlib
    import io

    import uxarray as ux

    path = common.REPO / rel
    if not path.exists():
        ctx.notes.append(f"sample file missing: {rel}")
        return
    try:
        if kind == "ugrid":
            exp, n = expect_ugrid_file(path)
        elif kind == "mpas":
            exp, n = expect_mpas_file(path, opt["dual"])
        elif kind == "esmf":
            exp, n = expect_esmf_file(path)
        elif kind == "exodus":
            exp, n = expect_exodus_file(path)
        elif kind == "scrip":
            exp, n = expect_scrip_file(path)
        elif kind == "geos":
            exp, n = expect_geos_file(path)
        else:
            exp, n = expect_geo_file(path)
    except Exception as e:
        ctx.notes.append(f"sample file {rel}: independent decoding not possible ({type(e).__name__}: {e}); skipped")
        return
    dl = {}
    if kind == "mpas":
        dl["dual"] = opt["dual"]
    if kind == "exodus":
        dl["blocks"] = 2 if "mixed" in rel else 1
        dl["coords"] = "coord"
    case = dict(fmt={"geo": "geofile"}.get(kind, kind), path=rel, dialect=dl, sample_file=True)
    if opt.get("access") is not None:
        case["access"] = opt["access"]
    draw_access(ctx, case)

    def open_fn():
        with contextlib.redirect_stdout(io.StringIO()):
            if kind == "geo":
                return ux.Grid.from_file(str(path))
            if kind == "mpas":
                return ux.open_grid(str(path), use_dual=opt["dual"])
            return ux.open_grid(str(path))

    ctx.hit("sample-file")
    g = judge(ctx, case, exp, open_fn, None, expect_n_node=n)
    if kind == "ugrid" and g is not None and any(k in g._ds for k in ("edge_node_connectivity", "edge_face_connectivity")):
        try:
            int(g.n_edge)
            ctx.hit("sample-file:n_edge-available")
        except Exception as e:
            ctx.fail("C01/ugrid/carried/n_edge/raises/file=" + os.path.basename(rel),
                     f"ugrid sample file supplies edge tables and grid.n_edge raises {type(e).__name__}: {str(e)[:80]}", case, None, None, ["carried_dimensions"])
    if kind == "mpas" and g is not None:
        # every table / array the file supplies, entry by entry, against the Lean decoders on the raw file
        raw = _raw(path)
        names = ["verticesOnCell", "nEdgesOnCell", "cellsOnVertex", "verticesOnEdge", "cellsOnEdge", "edgesOnCell", "cellsOnCell", "edgesOnVertex"]
        T = {k: np.asarray(raw[k].values) for k in names if k in raw}
        floats = {k: np.asarray(raw[k].values, float) for k in ("areaCell", "areaTriangle", "dvEdge", "dcEdge") if k in raw}
        mpas_check_carried(ctx, case, g, "dual" if opt["dual"] else "primal", mpas_expectations(ctx.driver, T), floats, "sample file")


def corpus_files(ctx):
    for kind, rel, opt in FILES:
        if opt.get("thorough") and not (ctx.thorough or ctx.escalate):
            continue
        run_file(ctx, kind, rel, opt)


def corpus_cases(ctx, sc):
    cdir = common.CORPUS / "C01"
    if not cdir.is_dir():
        return
    for f in sorted(cdir.glob("*.json")):
        j = json.loads(f.read_text())
        case = j.get("input", j)
        ctx.hit("corpus-case")
        dispatch(ctx, case, sc)


def dispatch(ctx, case, sc):
    if isinstance(case, dict) and "case" in case and "fmt" not in case:
        case = case["case"]
    if case.get("sample_file"):
        for kind, rel, opt in FILES:
            if rel == case["path"] and (kind != "mpas" or opt.get("dual") == case["dialect"].get("dual")):
                run_file(ctx, kind, rel, dict(opt, access=case.get("access")))
        return
    if case["fmt"] == "lonrange":
        lon_case(ctx, case["lons"])
        return
    d = case.get("dialect", {})
    if isinstance(d.get("fill"), str) and d["fill"] == "NaN":
        d["fill"] = "nan"
    run_case(ctx, case, sc)


def run(ctx):
    ctx.rule = ("abstract meshes from harness/meshes.zoo (prisms, antiprisms, bipyramids, cube-sphere, hull triangulations and "
                "duals, merged/split lattices incl. pole/antimeridian placements, fans, isolated faces, holes; random renumbering and "
                "start corner) x dialect grid: UGRID start_index {0,1,absent} x fill {-1, 999999, int32-min, INT_FILL, NaN, NaN+attr, "
                "none} x {int32,int64,float64} x extra width x 4 naming schemes x lon convention x {in-memory, NetCDF file}; topology "
                "arrays via classmethod/dict; MPAS primal (zeros / repeated-last / garbage padding, extra width, carried tables) and "
                "dual; ESMF (start_index attr 0/1/absent, 4 paddings, int32/64, file); Exodus (1..n blocks, shuffled, split blocks, "
                "coord / coordx-y-z); SCRIP; face-vertex arrays; GEOS-CS lattices; ICON; GeoJSON polygons and multipolygons; longitude "
                "lists in both conventions incl. end points; usable sample files as corpus. distinct = distinct (format, dialect, "
                "faces); non-trivial = more than one face or mixed sizes")
    ctx.assumptions = ["NumPy/xarray/netCDF4/geopandas semantics (astype, masking of _FillValue on read, np.unique, reshape) are tied to "
                       "the model only by this differential run",
                       "positions are compared on the unit sphere with chord tolerance 1e-7; node numbering is judged through positions",
                       "GEOS-CS: the reference cyclic order is the lattice perimeter order br,bl,tl,tr (the source fixes no orientation)",
                       "MPAS dual: sources are closed meshes whose nodes all have valence >= 3 (a boundary vertex describes no dual face)"]
    sc = Scratch()
    try:
        if not ctx.escalate or not ctx.evaluations:
            corpus_cases(ctx, sc)
            corpus_files(ctx)
        generated(ctx, sc)
        malformed_stream(ctx)
    finally:
        sc.close()


def replay(ctx, rp):
    sc = Scratch()
    try:
        dispatch(ctx, rp["input"], sc)
    finally:
        sc.close()
