"""source -> lean/UxVerif/Gen/Defaults.lean : default arguments of the public methods the properties quantify
over (read with inspect.signature from the tree under test), so that theorems about "the default rule",
"the default k" are re-checked against what the code says now."""
from __future__ import annotations

import inspect

from . import common, translate


def _lit(v):
    if isinstance(v, bool):
        return "true" if v else "false", "Bool"
    if isinstance(v, int):
        return str(v), "Int"
    if isinstance(v, float):
        a, b = float(v).as_integer_ratio()
        return f"({a}, {b})", "Int × Nat"
    if v is None:
        return '"None"', "String"
    return '"' + str(v).replace('"', '\\"') + '"', "String"


def gen_defaults(notes):
    common.use_repo()
    import uxarray as ux
    from uxarray.remap.dataarray_accessor import UxDataArrayRemapAccessor as RA

    targets = {
        "compute_face_areas": ux.Grid.compute_face_areas,
        "calculate_total_face_area": ux.Grid.calculate_total_face_area,
        "integrate": ux.UxDataArray.integrate,
        "idw": RA.inverse_distance_weighted,
        "nn": RA.nearest_neighbor,
        "get_ball_tree": ux.Grid.get_ball_tree,
        "get_kd_tree": ux.Grid.get_kd_tree,
        "to_geodataframe": ux.Grid.to_geodataframe,
        "to_polycollection": ux.Grid.to_polycollection,
        "to_linecollection": ux.Grid.to_linecollection,
        "gradient": ux.UxDataArray.gradient,
    }
    lines = ["namespace UxVerif.Gen.Defaults", ""]
    for tname, fn in targets.items():
        try:
            sig = inspect.signature(fn)
        except Exception as e:  # noqa: BLE001
            notes.append(f"Defaults: no signature for {tname}: {e}")
            continue
        for pname, p in sig.parameters.items():
            if p.default is inspect._empty or pname in ("self", "kwargs", "args"):
                continue
            if not isinstance(p.default, (bool, int, float, str, type(None))):
                continue
            lit, ty = _lit(p.default)
            lines.append(f"/-- default of `{tname}({pname}=…)` -/")
            lines.append(f"def {tname}_{pname} : {ty} := {lit}")
    lines += ["", "end UxVerif.Gen.Defaults", ""]
    return translate._write("Defaults.lean", "\n".join(lines))


translate.GENERATORS["Defaults.lean"] = gen_defaults
