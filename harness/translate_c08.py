"""uxarray/grid/{grid,connectivity,coordinates,neighbors,geometry}.py -> lean/UxVerif/Gen/GridWrites.lean  (property C08)

The table of lazily populated ``Grid`` attributes is REGENERATED from the source text (``ast``) on
every run: for every ``@property`` of ``Grid`` that belongs to a modelled variable group

* which populate functions it calls (followed through helpers that receive the grid),
* which ``Grid._ds`` keys / private attributes are WRITTEN (``grid._ds["k"] = …``, ``grid._x = …``),
  each with a provenance number (function, target, right-hand side) so that two getters writing the
  same key can be told to write the same thing,
* which other getters are READ (``grid.<property>``; branches on a parameter are pruned with the
  call's constant arguments / defaults, e.g. ``compute_face_areas()`` ⇒ ``latlon=True``),
* whether ``_set_desired_longitude_range`` is called after populating / on every call,
* every write to a module-level container (``x = ugrid.CONST; x[...] = …``, ``ugrid.CONST[...] = …``,
  ``.update/.append/…`` on them), every ``.data = …`` rewrite of a stored variable, and every written
  key that no modelled variable corresponds to.

Props/C08.lean proves (``decide +kernel``), against whatever this file contains today, that the
regenerated table is the table of the model the history-independence theorems are about.
"""

from __future__ import annotations

import ast
import zlib

from . import common, translate

FILES = ["grid/grid.py", "grid/connectivity.py", "grid/coordinates.py", "grid/neighbors.py", "grid/geometry.py",
         "grid/validation.py", "grid/slice.py", "io/_ugrid.py", "io/_exodus.py", "io/_scrip.py"]

GROUPS = ["nodeLL", "nodeXYZ", "edgeLL", "edgeXYZ", "faceLL", "faceXYZ", "faceNode", "edgeNode", "faceEdge",
          "edgeFace", "faceFace", "nodeFace", "nPer", "areas", "bounds", "enDist", "efDist", "holes", "enZ",
          "amIdx", "jac"]
GID = {n: i for i, n in enumerate(GROUPS)}
GROUP_OF = {
    "node_lon": "nodeLL", "node_lat": "nodeLL", "node_x": "nodeXYZ", "node_y": "nodeXYZ", "node_z": "nodeXYZ",
    "edge_lon": "edgeLL", "edge_lat": "edgeLL", "edge_x": "edgeXYZ", "edge_y": "edgeXYZ", "edge_z": "edgeXYZ",
    "face_lon": "faceLL", "face_lat": "faceLL", "face_x": "faceXYZ", "face_y": "faceXYZ", "face_z": "faceXYZ",
    "face_node_connectivity": "faceNode", "edge_node_connectivity": "edgeNode", "face_edge_connectivity": "faceEdge",
    "edge_face_connectivity": "edgeFace", "face_face_connectivity": "faceFace", "node_face_connectivity": "nodeFace",
    "n_nodes_per_face": "nPer", "face_areas": "areas", "bounds": "bounds", "edge_node_distances": "enDist",
    "edge_face_distances": "efDist", "hole_edge_indices": "holes", "edge_node_z": "enZ",
    "antimeridian_face_indices": "amIdx", "face_jacobian": "jac",
}
ATTR_KEYS = {"_antimeridian_face_indices": "amIdx", "_face_jacobian": "jac"}
MODULE_ALIASES = {"ugrid", "descriptors", "constants"}
MUTATORS = {"update", "append", "extend", "insert", "pop", "popitem", "clear", "setdefault", "remove", "add", "sort"}
WRAP = "_set_desired_longitude_range"


class Source:
    def __init__(self):
        root = common.REPO / "uxarray"
        self.funcs = {}
        self.shadowed = []   # earlier definitions of a name defined twice in one module set
        self.grid_cls = None
        for rel in FILES:
            p = root / rel
            if not p.exists():
                continue
            tree = ast.parse(p.read_text())
            for node in tree.body:
                if isinstance(node, ast.FunctionDef):
                    if node.name in self.funcs:
                        self.shadowed.append((rel, node))
                    self.funcs[node.name] = (rel, node)
                if isinstance(node, ast.ClassDef) and node.name == "Grid" and rel == "grid/grid.py":
                    self.grid_cls = node
        self.props, self.methods = {}, {}
        for node in self.grid_cls.body if self.grid_cls else []:
            if isinstance(node, ast.FunctionDef):
                decos = [ast.unparse(d) for d in node.decorator_list]
                if "property" in decos:
                    self.props[node.name] = node
                elif not decos:
                    self.methods[node.name] = node


class Effects:
    def __init__(self):
        self.reads = []          # property names read through the grid
        self.writes = []         # (kind 'ds'|'attr', key, provenance number)
        self.inplace = []        # descriptions of `.data = …` rewrites
        self.module_writes = []  # descriptions
        self.drops = []          # (dimension expression, provenance): `grid._ds = grid._ds.drop_dims(<dim>, …)`
        self.wrap_always = False
        self.wrap_pop = False

    def merge(self, o, wraps=False):
        self.reads += [r for r in o.reads if r not in self.reads]
        self.writes += [w for w in o.writes if w not in self.writes]
        self.inplace += [x for x in o.inplace if x not in self.inplace]
        self.module_writes += [x for x in o.module_writes if x not in self.module_writes]
        self.drops += [x for x in o.drops if x not in self.drops]


def _prov(where, target, value):
    # a store written inline in a property is identified by what is stored (two getters storing the
    # result of the same call store the same thing); inside a populate function by the function too
    if where.startswith("Grid."):
        where = "Grid"
    return zlib.crc32(f"{where}|{target}|{value}".encode()) % 1000003


def _const_default(fn):
    """parameter -> constant default"""
    out = {}
    args = fn.args
    pos = args.args
    for a, d in zip(pos[len(pos) - len(args.defaults):], args.defaults):
        if isinstance(d, ast.Constant):
            out[a.arg] = d.value
    return out


class Analyzer:
    def __init__(self, src: Source):
        self.src = src
        self.prop_names = set(src.props)

    def analyze(self, fn, gridparam, bindings, where, depth=0, top=False):
        eff = Effects()
        aliases = {}
        self._block(fn.body, gridparam, bindings, where, depth, eff, aliases, in_absent_if=False, top=top)
        return eff

    # -- statements, with pruning of `if <param>:` on constant bindings
    def _block(self, stmts, g, b, where, depth, eff, aliases, in_absent_if, top):
        for st in stmts:
            if isinstance(st, ast.If):
                t = st.test
                if isinstance(t, ast.Name) and t.id in b and isinstance(b[t.id], (bool, int, type(None))):
                    self._block(st.body if b[t.id] else st.orelse, g, b, where, depth, eff, aliases, in_absent_if, top)
                    continue
                self._expr(t, g, b, where, depth, eff, aliases, in_absent_if, top)
                absent = self._is_absent_test(t, g)
                self._block(st.body, g, b, where, depth, eff, aliases, in_absent_if or absent, top)
                self._block(st.orelse, g, b, where, depth, eff, aliases, in_absent_if, top)
                continue
            if isinstance(st, (ast.For, ast.While, ast.With, ast.Try)):
                for f in ("iter", "test"):
                    if hasattr(st, f):
                        self._expr(getattr(st, f), g, b, where, depth, eff, aliases, in_absent_if, top)
                for f in ("items",):
                    for it in getattr(st, f, []):
                        self._expr(it.context_expr, g, b, where, depth, eff, aliases, in_absent_if, top)
                for f in ("body", "orelse", "finalbody"):
                    self._block(getattr(st, f, []), g, b, where, depth, eff, aliases, in_absent_if, top)
                for h in getattr(st, "handlers", []):
                    self._block(h.body, g, b, where, depth, eff, aliases, in_absent_if, top)
                continue
            if isinstance(st, (ast.Assign, ast.AugAssign, ast.AnnAssign)):
                targets = st.targets if isinstance(st, ast.Assign) else [st.target]
                value = st.value
                if value is not None:
                    self._expr(value, g, b, where, depth, eff, aliases, in_absent_if, top)
                vsrc = ast.unparse(value) if value is not None else ""
                # `grid._ds = grid._ds.drop_dims(<dim>, …)`: the dataset is rebound without every variable
                # along <dim> — a modelled write ("drops all keys on <dim>"), not an unlisted one
                if (isinstance(st, ast.Assign) and len(targets) == 1 and ast.unparse(targets[0]) == f"{g}._ds"
                        and isinstance(value, ast.Call) and isinstance(value.func, ast.Attribute)
                        and value.func.attr == "drop_dims" and ast.unparse(value.func.value) == f"{g}._ds"
                        and value.args):
                    dim = ast.unparse(value.args[0])
                    eff.drops.append((dim, _prov(where, "_ds", vsrc)))
                    continue
                for tg in targets:
                    self._target(tg, vsrc, None, g, where, eff, aliases)
                # alias of a module-level container:  x = ugrid.CONST
                if isinstance(st, ast.Assign) and len(targets) == 1 and isinstance(targets[0], ast.Name):
                    if self._module_const(value):
                        aliases[targets[0].id] = ast.unparse(value)
                    else:
                        aliases.pop(targets[0].id, None)
                continue
            if isinstance(st, (ast.FunctionDef, ast.ClassDef, ast.Import, ast.ImportFrom)):
                continue
            for node in ast.iter_child_nodes(st):
                if isinstance(node, ast.expr):
                    self._expr(node, g, b, where, depth, eff, aliases, in_absent_if, top)

    def _is_absent_test(self, t, g):
        """`"k" not in <grid>._ds` (possibly inside an `or`) / `<grid>._x is None`"""
        for n in ast.walk(t):
            if isinstance(n, ast.Compare) and len(n.ops) == 1:
                if isinstance(n.ops[0], ast.NotIn) and ast.unparse(n.comparators[0]) == f"{g}._ds":
                    return True
                if isinstance(n.ops[0], ast.Is) and ast.unparse(n.left).startswith(f"{g}._"):
                    return True
        return False

    def _module_const(self, e):
        if isinstance(e, ast.Attribute) and isinstance(e.value, ast.Name) and e.value.id in MODULE_ALIASES \
                and e.attr.isupper():
            return True
        if isinstance(e, ast.Subscript):
            return self._module_const(e.value)
        return isinstance(e, ast.Name) and e.id.isupper() and e.id.endswith(("_ATTRS", "_DIMS", "_NAMES", "COORDS", "CONNECTIVITY"))

    def _target(self, tg, vsrc, idx, g, where, eff, aliases):
        if isinstance(tg, (ast.Tuple, ast.List)):
            for i, el in enumerate(tg.elts):
                self._target(el, vsrc, i, g, where, eff, aliases)
            return
        vdesc = vsrc if idx is None else f"{vsrc}[{idx}]"
        if isinstance(tg, ast.Subscript):
            base = ast.unparse(tg.value)
            if base == f"{g}._ds" and isinstance(tg.slice, ast.Constant) and isinstance(tg.slice.value, str):
                eff.writes.append(("ds", tg.slice.value, _prov(where, tg.slice.value, vdesc)))
                return
            if base == f"{g}._ds":
                eff.writes.append(("ds", "<computed:" + ast.unparse(tg.slice) + ">", _prov(where, "?", vdesc)))
                return
            root = tg.value
            while isinstance(root, (ast.Subscript, ast.Attribute)):
                root = root.value
            if (isinstance(tg.value, ast.Name) and tg.value.id in aliases) or self._module_const(tg.value):
                eff.module_writes.append(f"{where}: {ast.unparse(tg)} = …   ({aliases.get(getattr(tg.value, 'id', ''), ast.unparse(tg.value))})")
            return
        if isinstance(tg, ast.Attribute):
            if isinstance(tg.value, ast.Name) and tg.value.id == g and tg.attr.startswith("_"):
                eff.writes.append(("attr", tg.attr, _prov(where, tg.attr, vdesc)))
                return
            if tg.attr == "data":
                eff.inplace.append(f"{where}: {ast.unparse(tg)} = …")
                return
            if isinstance(tg.value, ast.Name) and tg.value.id in MODULE_ALIASES:
                eff.module_writes.append(f"{where}: {ast.unparse(tg)} = …")

    def _expr(self, e, g, b, where, depth, eff, aliases, in_absent_if, top):
        for n in ast.walk(e):
            if isinstance(n, ast.Attribute) and isinstance(n.value, ast.Name) and n.value.id == g \
                    and isinstance(n.ctx, ast.Load) and n.attr in self.prop_names:
                if n.attr not in eff.reads:
                    eff.reads.append(n.attr)
            if isinstance(n, ast.Call):
                f = n.func
                # mutating method on a module-level container
                if isinstance(f, ast.Attribute) and f.attr in MUTATORS:
                    if (isinstance(f.value, ast.Name) and f.value.id in aliases) or self._module_const(f.value):
                        eff.module_writes.append(f"{where}: {ast.unparse(f)}(…)")
                if isinstance(f, ast.Name) and f.id == WRAP:
                    if top:
                        if in_absent_if:
                            eff.wrap_pop = True
                        else:
                            eff.wrap_always = True
                    continue
                callee, cg, cb = None, None, {}
                if isinstance(f, ast.Name) and f.id in self.src.funcs:
                    rel, fn = self.src.funcs[f.id]
                    params = [a.arg for a in fn.args.args]
                    for i, a in enumerate(n.args):
                        if isinstance(a, ast.Name) and a.id == g and i < len(params):
                            callee, cg = fn, params[i]
                    for kw in n.keywords:
                        if isinstance(kw.value, ast.Name) and kw.value.id == g and kw.arg in params:
                            callee, cg = fn, kw.arg
                    if callee is not None:
                        cb = _const_default(fn)
                        for i, a in enumerate(n.args):
                            if isinstance(a, ast.Constant) and i < len(params):
                                cb[params[i]] = a.value
                        for kw in n.keywords:
                            if isinstance(kw.value, ast.Constant):
                                cb[kw.arg] = kw.value.value
                        cwhere = f.id
                elif isinstance(f, ast.Attribute) and isinstance(f.value, ast.Name) and f.value.id == g \
                        and f.attr in self.src.methods:
                    fn = self.src.methods[f.attr]
                    params = [a.arg for a in fn.args.args]
                    callee, cg = fn, params[0]
                    cb = _const_default(fn)
                    for i, a in enumerate(n.args):
                        if isinstance(a, ast.Constant) and i + 1 < len(params):
                            cb[params[i + 1]] = a.value
                    for kw in n.keywords:
                        if isinstance(kw.value, ast.Constant):
                            cb[kw.arg] = kw.value.value
                    cwhere = "Grid." + f.attr
                if callee is not None and depth < 4:
                    sub = self.analyze(callee, cg, cb, cwhere, depth + 1)
                    eff.merge(sub)


ALIASING_CALLS = {"asarray", "asanyarray", "ascontiguousarray", "atleast_1d", "atleast_2d", "ravel", "reshape",
                  "squeeze", "view", "transpose"}
INPLACE_METHODS = {"sort", "fill", "partition", "put", "itemset", "resize", "setfield", "byteswap"}


class Taint:
    """in-place operations on arrays that (may) alias a stored variable: names bound to `<…>.values` /
    `.data`, passed on through `np.asarray`-like calls and into the functions of the analysed modules;
    flagged: `x op= …`, `x[...] = …`, `out=x`, `x.sort()`-like methods"""

    def __init__(self, src):
        self.src = src
        self.found = []
        self.seen = set()

    def may_alias(self, e, tainted):
        if isinstance(e, ast.Name):
            return e.id in tainted
        if isinstance(e, ast.Attribute):
            return e.attr in ("values", "data") or (e.attr == "T" and self.may_alias(e.value, tainted))
        if isinstance(e, ast.Subscript):
            # basic slicing gives a view; fancy indexing a copy — a slice of an alias stays an alias
            return self.may_alias(e.value, tainted) and isinstance(e.slice, (ast.Slice, ast.Tuple))
        if isinstance(e, ast.Call):
            f = e.func
            name = f.attr if isinstance(f, ast.Attribute) else getattr(f, "id", "")
            if name in ALIASING_CALLS:
                args = list(e.args) + ([f.value] if isinstance(f, ast.Attribute) and not
                                       (isinstance(f.value, ast.Name) and f.value.id in ("np", "numpy")) else [])
                return any(self.may_alias(a, tainted) for a in args)
            return False
        if isinstance(e, (ast.Tuple, ast.List)):
            return any(self.may_alias(x, tainted) for x in e.elts)
        if isinstance(e, ast.GeneratorExp):
            inner = set(tainted)
            for c in e.generators:
                if self.may_alias(c.iter, tainted):
                    for n in ast.walk(c.target):
                        if isinstance(n, ast.Name):
                            inner.add(n.id)
            return self.may_alias(e.elt, inner)
        if isinstance(e, ast.IfExp):
            return self.may_alias(e.body, tainted) or self.may_alias(e.orelse, tainted)
        return False

    def scan(self, fn, tainted, where, depth=0):
        key = (where, tuple(sorted(tainted)))
        if key in self.seen or depth > 4:
            return
        self.seen.add(key)
        self._block(fn.body, set(tainted), where, depth)

    def _block(self, stmts, tainted, where, depth):
        for st in stmts:
            if isinstance(st, ast.If):
                self._calls(st.test, tainted, where, depth)
                t1, t2 = set(tainted), set(tainted)
                self._block(st.body, t1, where, depth)
                self._block(st.orelse, t2, where, depth)
                new = (t1 | t2) if st.orelse else (t1 | tainted)
                tainted.clear()
                tainted |= new
                continue
            if isinstance(st, (ast.For, ast.While, ast.With, ast.Try)):
                for f in ("body", "orelse", "finalbody"):
                    self._block(getattr(st, f, []), tainted, where, depth)
                for h in getattr(st, "handlers", []):
                    self._block(h.body, tainted, where, depth)
                continue
            if isinstance(st, ast.AugAssign):
                self._calls(st.value, tainted, where, depth)
                tg = st.target
                base = tg.value if isinstance(tg, ast.Subscript) else tg
                if isinstance(base, ast.Name) and base.id in tainted:
                    self.found.append(f"{where}: {ast.unparse(st)}")
                continue
            if isinstance(st, ast.Assign):
                self._calls(st.value, tainted, where, depth)
                alias = self.may_alias(st.value, tainted)
                for tg in st.targets:
                    if isinstance(tg, ast.Subscript) and isinstance(tg.value, ast.Name) and tg.value.id in tainted:
                        self.found.append(f"{where}: {ast.unparse(tg)} = …")
                    for n in ([tg] if isinstance(tg, ast.Name) else
                              [x for x in ast.walk(tg) if isinstance(tg, (ast.Tuple, ast.List)) and isinstance(x, ast.Name)]):
                        if alias:
                            tainted.add(n.id)
                        else:
                            tainted.discard(n.id)
                continue
            if isinstance(st, (ast.FunctionDef, ast.ClassDef)):
                continue
            for node in ast.iter_child_nodes(st):
                if isinstance(node, ast.expr):
                    self._calls(node, tainted, where, depth)

    def _calls(self, e, tainted, where, depth):
        for n in ast.walk(e):
            if not isinstance(n, ast.Call):
                continue
            f = n.func
            for kw in n.keywords:
                if kw.arg == "out" and self.may_alias(kw.value, tainted):
                    self.found.append(f"{where}: {ast.unparse(n)[:80]} (out=)")
            if isinstance(f, ast.Attribute) and f.attr in INPLACE_METHODS and self.may_alias(f.value, tainted):
                self.found.append(f"{where}: {ast.unparse(n)[:80]}")
            if isinstance(f, ast.Name) and f.id in self.src.funcs:
                rel, fn = self.src.funcs[f.id]
                params = [a.arg for a in fn.args.args]
                t = {params[i] for i, a in enumerate(n.args) if i < len(params) and self.may_alias(a, tainted)}
                t |= {kw.arg for kw in n.keywords if kw.arg in params and self.may_alias(kw.value, tainted)}
                if t:
                    self.scan(fn, t, f.id, depth + 1)


def extract():
    src = Source()
    an = Analyzer(src)
    per_prop = {}
    for name, fn in src.props.items():
        per_prop[name] = an.analyze(fn, "self", {}, "Grid." + name, top=True)

    def read_groups(prop, seen=()):
        """the variable groups a read of `grid.<prop>` goes through"""
        if prop in GROUP_OF:
            return [GROUP_OF[prop]]
        if prop in seen or prop not in per_prop:
            return []
        e = per_prop[prop]
        out = []
        for kind, key, _ in e.writes:
            gname = GROUP_OF.get(key) if kind == "ds" else ATTR_KEYS.get(key)
            if gname and gname not in out:
                out.append(gname)
        if out:
            return out  # e.g. n_edge: delivers (populates) edge_node_connectivity
        for r in e.reads:
            for gname in read_groups(r, seen + (prop,)):
                if gname not in out:
                    out.append(gname)
        return out

    table = {g: dict(reads=[], writes=[], wrap_pop=None, wrap_always=None, getters=[]) for g in GROUPS}
    unknown, module_writes, inplace = [], [], []
    drops = {}
    for prop, e in per_prop.items():
        if e.drops and prop in GROUP_OF:
            drops.setdefault(GID[GROUP_OF[prop]], [])
            for d, _ in e.drops:
                if d not in drops[GID[GROUP_OF[prop]]]:
                    drops[GID[GROUP_OF[prop]]].append(d)
        elif e.drops:
            unknown.append(f"Grid.{prop}: drops dimension(s) {[d for d, _ in e.drops]}")
        module_writes += [m for m in e.module_writes if m not in module_writes]
        inplace += [m for m in e.inplace if m not in inplace]
        for kind, key, _ in e.writes:
            gname = GROUP_OF.get(key) if kind == "ds" else ATTR_KEYS.get(key)
            if gname is None:
                d = f"Grid.{prop}: {'_ds[' + repr(key) + ']' if kind == 'ds' else key}"
                if d not in unknown:
                    unknown.append(d)
        if prop not in GROUP_OF:
            continue
        t = table[GROUP_OF[prop]]
        t["getters"].append(prop)
        for kind, key, pv in e.writes:
            gname = GROUP_OF.get(key) if kind == "ds" else ATTR_KEYS.get(key)
            if gname is not None and (GID[gname], pv) not in t["writes"]:
                t["writes"].append((GID[gname], pv))
        for r in e.reads:
            for gname in read_groups(r):
                if GID[gname] not in t["reads"]:
                    t["reads"].append(GID[gname])
        for f, v in (("wrap_pop", e.wrap_pop), ("wrap_always", e.wrap_always)):
            t[f] = v if t[f] is None else (t[f] and v)
    # the in-place rewrites of the longitude wrap itself are the modelled `wrapAll`
    wrapfn = src.funcs.get(WRAP)
    wrap_targets = []
    if wrapfn:
        for n in ast.walk(wrapfn[1]):
            if isinstance(n, ast.List) and all(isinstance(x, ast.Constant) for x in n.elts):
                wrap_targets = [x.value for x in n.elts]
    # in-place operations on (possible) aliases of stored arrays, in every function of the analysed
    # modules and every Grid property / method, followed through calls
    taint = Taint(src)
    for name, (rel, fn) in src.funcs.items():
        taint.scan(fn, set(), name)
    for name, fn in list(src.props.items()) + list(src.methods.items()):
        taint.scan(fn, set(), "Grid." + name)
    inplace += [m for m in taint.found if m not in inplace]
    return dict(table=table, unknown=unknown, module_writes=module_writes, inplace=inplace, drops=drops,
                wrap_targets=wrap_targets, missing=[p for p in GROUP_OF if p not in per_prop])


def _nats(l):
    return "[" + ", ".join(str(int(x)) for x in l) + "]"


def render(notes=None):
    notes = notes if notes is not None else []
    common.use_repo()
    x = extract()
    T = x["table"]
    lines = ["namespace UxVerif.Gen.GridWrites", "",
             "/-- variable groups, in the order of `UxVerif.Caches.Var.all` -/",
             "def groups : List String := " + translate._strlist(GROUPS), ""]
    lines.append("/-- group → the public getters of `Grid` that belong to it -/")
    lines.append("def getters : List (Nat × List String) := [" +
                 ", ".join(f"({GID[g]}, {translate._strlist(T[g]['getters'])})" for g in GROUPS) + "]")
    lines.append("")
    lines.append("/-- group → groups its getters read through other getters (own outputs included) -/")
    lines.append("def reads : List (Nat × List Nat) := [" +
                 ", ".join(f"({GID[g]}, {_nats(sorted(T[g]['reads']))})" for g in GROUPS) + "]")
    lines.append("")
    lines.append("/-- group → (group written, provenance of the stored expression) -/")
    lines.append("def writes : List (Nat × List (Nat × Nat)) := [" +
                 ", ".join(f"({GID[g]}, [" + ", ".join(f"({k}, {p})" for k, p in sorted(T[g]['writes'])) + "])" for g in GROUPS) + "]")
    lines.append("")
    lines.append("/-- groups whose getters wrap all longitudes after populating / on every call -/")
    lines.append("def wrapPop : List Nat := " + _nats([GID[g] for g in GROUPS if T[g]["wrap_pop"]]))
    lines.append("def wrapGet : List Nat := " + _nats([GID[g] for g in GROUPS if T[g]["wrap_always"]]))
    lines.append("/-- the variables `_set_desired_longitude_range` rewrites -/")
    lines.append("def wrapTargets : List String := " + translate._strlist(x["wrap_targets"]))
    lines.append("")
    lines.append("/-- group → dimensions whose variables its getters may DROP (`grid._ds = grid._ds.drop_dims(<dim>)`) -/")
    lines.append("def dropDims : List (Nat × List String) := [" +
                 ", ".join(f"({k}, {translate._strlist(v)})" for k, v in sorted(x["drops"].items())) + "]")
    lines.append("/-- writes of a `Grid` property to a `_ds` key / private attribute outside the modelled variables -/")
    lines.append("def unknownWrites : List String := " + translate._strlist(x["unknown"]))
    lines.append("/-- writes of a `Grid` property (or anything it calls with the grid) to a module-level container -/")
    lines.append("def moduleWrites : List String := " + translate._strlist(x["module_writes"]))
    lines.append("/-- `.data = …` rewrites of stored variables reachable from a `Grid` property -/")
    lines.append("def inplaceWrites : List String := " + translate._strlist(x["inplace"]))
    lines.append("/-- modelled getters the class no longer has -/")
    lines.append("def missingGetters : List String := " + translate._strlist(x["missing"]))
    lines += ["", "end UxVerif.Gen.GridWrites", ""]
    if x["missing"]:
        notes.append("GridWrites.lean: Grid properties not found: " + ", ".join(x["missing"]))
    return "\n".join(lines)


def gen_gridwrites(notes):
    return translate._write("GridWrites.lean", render(notes))


def stale():
    """is the file on disk what the tree under test yields now (used while translate.py does not
    import this module)"""
    f = translate.GEN / "GridWrites.lean"
    return (not f.exists()) or f.read_text() != translate.HEADER + render()


translate.GENERATORS["GridWrites.lean"] = gen_gridwrites
