"""C02 — derived edges are exactly the boundary segments of the faces.

Correspondence: Grid.edge_node_connectivity / face_edge_connectivity / n_edge / n_nodes_per_face
/ n_max_face_edges of the real code vs the Lean model `Edges.build`; the verdict on the
implementation's output is the Lean predicate `Edges.Spec` (proved of the model for every
standard-form table in Props/C02.lean).
"""

from __future__ import annotations

import itertools
import json
import sys

import numpy as np

from . import common, meshes
from .common import INT_FILL, enc_ints, enc_pairs, enc_rows


ORDERS = list(itertools.permutations(["n_edge", "edge_node_connectivity", "face_edge_connectivity", "n_nodes_per_face"]))


# ---- the ARGUMENT FORM of the face table (round h) -------------------------------------------------------------
# Memory layout, dtype and the (fill_value, start_index) convention of what the caller hands to
# Grid.from_topology are not part of the Lean model (the model starts from the standardized table); they are a
# random dimension of every case, with the same verdicts.
LAYOUTS = ["list", "C", "F", "transposed-view", "strided-view"]
CONVENTIONS = [  # (fill_value, start_index, dtypes)
    ("INT_FILL", 0, ["int64"]), ("INT_FILL", 1, ["int64"]),
    (-1, 0, ["int64", "int32"]), (-1, 1, ["int64", "int32"]), (0, 1, ["int64", "int32"]),
    ("nan", 0, ["float64", "float32"]), ("nan", 1, ["float64"]),
    (None, 0, ["int64", "int32"]), (None, 1, ["int64", "int32"]),
]
STD_FORM = dict(layout="C", dtype="int64", fill="INT_FILL", start=0)


def draw_form(rng, has_padding):
    while True:
        fill, start, dts = rng.choice(CONVENTIONS)
        layout = rng.choice(LAYOUTS)
        if fill is None and (has_padding or layout == "list"):
            continue  # without a fill value there is no padding, and the reader subtracts start_index from an array
        return dict(layout=layout, dtype=rng.choice(dts), fill=fill, start=start)


def _lay(a, layout):
    if layout == "list":
        return a.tolist()
    if layout == "C":
        return np.ascontiguousarray(a)
    if layout == "F":
        return np.asfortranarray(a)
    if layout == "transposed-view":  # .T of a node-major table
        return np.ascontiguousarray(a.T).T
    wide = np.zeros((a.shape[0], 2 * a.shape[1]), dtype=a.dtype)  # every other column of a wider array
    wide[:, ::2] = a
    return wide[:, ::2]


def encode_conn(rows, form):
    """a standardized table (0-based, INT_FILL padding) as the caller's array in the given form"""
    a = np.array(rows, dtype=np.int64)
    pad = a == INT_FILL
    fill = form["fill"]
    if form["dtype"].startswith("float"):
        out = (a + form["start"]).astype(form["dtype"])
        out[pad] = np.nan
    else:
        out = a + form["start"]
        out[pad] = INT_FILL if fill in ("INT_FILL", None) else fill
        out = out.astype(form["dtype"])
    return _lay(out, form["layout"])


def form_kwargs(form):
    fill = form["fill"]
    return dict(fill_value=INT_FILL if fill == "INT_FILL" else (float("nan") if fill == "nan" else fill), start_index=form["start"])


def make_grid(m, ux, form=None, edges=None):
    form = form or STD_FORM
    kw = form_kwargs(form)
    if edges is not None:
        kw["edge_node_connectivity"] = encode_conn([list(e) for e in edges], dict(form, layout="C" if form["layout"] == "list" else form["layout"]))
    return ux.Grid.from_topology(node_lon=m.lon.copy(), node_lat=m.lat.copy(),
                                 face_node_connectivity=encode_conn(m.rows(), form), **kw)


def hit_form(ctx, form):
    ctx.hit("form:layout=" + form["layout"])
    ctx.hit(f"form:fill={form['fill']},start={form['start']},dtype={form['dtype']}")


def observe(ux, m, order=None, form=None):
    """The derived quantities are lazily populated, so the ORDER of first access is part of the
    input: every grid is observed in a (seeded) random order of first access, on a fresh grid,
    in one process with all the grids observed before it (a side table left behind by an
    earlier grid, or a population path that depends on what was asked first, shows up as a wrong
    table here)."""
    g = make_grid(m, ux, form)
    for name in order or ORDERS[0]:
        getattr(g, name)
    E = g.edge_node_connectivity.values
    FE = g.face_edge_connectivity.values
    N = g.n_nodes_per_face.values
    return g, dict(
        edges=[(int(a), int(b)) for a, b in E],
        faceEdges=[[int(x) for x in r] for r in FE],
        nPerFace=[int(x) for x in N],
        n_edge=int(g.n_edge),
        n_max_face_edges=int(g.n_max_face_edges),
        dtypes=[str(E.dtype), str(FE.dtype)],
    )


def canon(edges, fe):
    """quotient by the freedom the property grants: edge numbering (and order inside a pair)"""
    key = [tuple(sorted(e)) for e in edges]
    order = sorted(range(len(key)), key=lambda i: key[i])
    ren = {old: new for new, old in enumerate(order)}
    return [key[i] for i in order], [[ren.get(x, x) for x in r] for r in fe]


def judge(ctx, m, tag, order=None, form=None):
    import uxarray as ux

    t = m.rows()
    w = m.width
    order = list(ctx.rng.choice(ORDERS)) if order is None else order
    form = form or draw_form(ctx.rng, len(set(m.sizes())) > 1)
    inp = dict(mesh=m.describe(), table=t, tag=tag, access_order=order, argument_form=form)
    ctx.hit("first-access=" + order[0])
    hit_form(ctx, form)
    try:
        g, o = observe(ux, m, order, form)
    except Exception as e:  # the real code refuses a well-formed table
        ctx.case((tag, t), sample=inp)
        ctx.fail(f"C02/raises/{type(e).__name__}/layout={form['layout']}/fill={form['fill']}", f"edge construction raises {type(e).__name__}: {e}", inp)
        return
    if [[int(x) for x in r] for r in g.face_node_connectivity.values] != t:
        # the reader's job (C01), but everything below is judged against `t`
        ctx.case((tag, t), sample=inp)
        ctx.fail(f"C02/face-table-not-standardized/layout={form['layout']}/fill={form['fill']},start={form['start']},dtype={form['dtype']}",
                 "Grid.face_node_connectivity is not the 0-based, INT_FILL-padded form of the table handed in", inp,
                 dict(face_node_connectivity=g.face_node_connectivity.values))
        return
    d = ctx.driver
    std = d.ask("C02.std", m.n_node, w, enc_rows(t))
    assert std == "1", "generator produced a non-standard table"
    verdict = d.ask("C02.spec", w, enc_rows(t), enc_pairs(o["edges"]), enc_rows(o["faceEdges"]), enc_ints(o["nPerFace"]))
    mo = common.Tok(d.ask("C02.model", enc_rows(t)))
    model = dict(edges=mo.pairs(), faceEdges=mo.rows(), nPerFace=mo.ints())
    nontriv = len(set(m.sizes())) > 1 or m.n_face > 1
    ctx.case((tag, t), nontrivial=nontriv, sample=dict(inp, implementation=o) if m.n_face <= 4 else None)
    ctx.hit("faces=%d" % min(m.n_face, 64) if m.n_face < 8 else "faces>=8")
    for s in set(m.sizes()):
        ctx.hit(f"size{s}")
    ctx.hit("padding" if len(set(m.sizes())) > 1 else "no-padding")
    ctx.hit("closed" if m.closed else "partial")
    if verdict != "ok":
        clauses = verdict.split(" ", 1)[1].split(",")
        sig = "C02/" + "+".join(clauses) + ("" if form["layout"] in ("list", "C") else "/layout=" + form["layout"])
        ctx.fail(sig, "edge tables do not describe the faces' boundary segments: " + verdict, inp, o, model, clauses)
        return
    # further observable clauses of the property
    if o["n_edge"] != len(o["edges"]):
        ctx.fail("C02/n_edge", "n_edge differs from the number of edge rows", inp, o, model, ["n_edge"])
    if o["n_max_face_edges"] != w:
        ctx.fail("C02/n_max_face_edges", "n_max_face_edges differs from the table width", inp, o, model, ["n_max_face_edges"])
    if m.closed:
        # tested clause (not a theorem). The generator's claim "this mesh tiles the sphere" is checked
        # against the Lean MODEL's edge count first: a mesh that is not a sphere tiling is a generator
        # matter, never a verdict on the implementation
        if m.n_node - len(model["edges"]) + m.n_face != 2:
            ctx.hit("closed-flag-but-not-a-sphere-tiling(generator)")
        elif m.n_node - o["n_edge"] + m.n_face != 2:
            ctx.fail("C02/euler", "n_node - n_edge + n_face != 2 on a sphere tiling", inp, o, model, ["euler"])
        else:
            ctx.hit("euler-checked")
    ctx.hit("simple-faces" if is_simple(t) else "non-simple-faces(repeated corner or < 3 corners)")
    # correspondence with the model.  First up to the freedom the property grants (edge numbering) ...
    ci, cm = canon(o["edges"], o["faceEdges"]), canon(model["edges"], model["faceEdges"])
    if ci != cm or o["nPerFace"] != model["nPerFace"]:
        ctx.mismatch("C02/canon-edges", inp, o, model)
    elif (o["edges"], o["faceEdges"]) == (model["edges"], model["faceEdges"]):
        ctx.hit("identical-numbering")
    else:
        # ... then entry for entry.  The model of np.unique(axis=0) is sort + dedup, and Lean proves
        # (edges_sorted, spec_sorted_unique) that an output meeting Spec whose edges are sorted pairs in
        # lexicographic order IS the model's output.  So a difference here means the code no longer numbers
        # the edges the way the model does (the property itself grants that freedom: the Spec verdict above
        # stands, this is a correspondence finding, not a spec failure)
        srt = [tuple(e) for e in o["edges"]]
        how = ("pair-not-sorted" if any(a > b for a, b in srt) else
               "rows-not-in-lexicographic-order" if srt != sorted(srt) else "face-edge-entries")
        ctx.mismatch("C02/edge-numbering/" + how, inp, o, model)


def is_simple(t):
    """every face has pairwise distinct corners, at least three (hypothesis of edge_faces_distinct)"""
    for r in t:
        f = [v for v in r if v != INT_FILL]
        if len(f) < 3 or len(set(f)) != len(f):
            return False
    return True


MALFORMED_KINDS = ["fill-inside-row", "fill-first", "empty-row", "index-out-of-range", "negative-index"]


def draw_malformed(rng):
    """a rectangular table that is NOT in standard form (outside the property's quantifier)"""
    kind = rng.choice(MALFORMED_KINDS)
    nf, w, n = rng.randint(1, 3), rng.randint(2, 6), rng.randint(2, 6)
    t = []
    for _ in range(nf):
        k = rng.randint(1, w)
        t.append([rng.randrange(n) for _ in range(k)] + [INT_FILL] * (w - k))
    r = rng.randrange(nf)
    if kind == "fill-inside-row":
        j = rng.randrange(0, w - 1)
        t[r][j] = INT_FILL
        t[r][rng.randrange(j + 1, w)] = rng.randrange(n)
    elif kind == "fill-first":
        t[r][0] = INT_FILL
        if rng.random() < 0.7:
            t[r][rng.randrange(1, w)] = rng.randrange(n)
    elif kind == "empty-row":
        t[r] = [INT_FILL] * w
    elif kind == "index-out-of-range":
        t[r][0] = n + rng.randrange(3)
    else:
        t[r][0] = -1 - rng.randrange(3)
    return kind, t, n


def malformed_stream(ctx):
    """OUTSIDE the property's quantifier: tables not in standard form.  The real builders validate nothing
    (no exception, tables are produced); the Lean model is total in the same way.  Model and code are compared
    entry for entry - this ties the transcription (np.put at the first fill, argmax, unique, searchsorted) to
    the code on inputs the well-formed generators never produce.  Whatever happens here is REPORTED (hits and a
    note) and is never a verdict on the property: no ctx.fail / ctx.mismatch, no ctx.case."""
    import uxarray as ux

    d = ctx.driver
    differs = []
    for _ in range(ctx.n(60, 600)):
        kind, t, n = draw_malformed(ctx.rng)
        w = len(t[0])
        if d.ask("C02.std", n, w, enc_rows(t)) == "1":
            ctx.hit("malformed:drawn-table-was-standard(skipped)")
            continue
        nn = max([n] + [v + 1 for r in t for v in r if v != INT_FILL])
        lon, lat = np.linspace(-170.0, 170.0, nn), np.linspace(-60.0, 60.0, nn)
        mo = common.Tok(d.ask("C02.model", enc_rows(t)))
        model = dict(edges=mo.pairs(), faceEdges=mo.rows(), nPerFace=mo.ints())
        try:
            g = ux.Grid.from_topology(node_lon=lon, node_lat=lat, face_node_connectivity=np.array(t, dtype=np.int64),
                                      fill_value=INT_FILL)
            for name in ctx.rng.choice(ORDERS):
                getattr(g, name)
            o = dict(edges=[(int(a), int(b)) for a, b in g.edge_node_connectivity.values],
                     faceEdges=[[int(x) for x in r] for r in g.face_edge_connectivity.values],
                     nPerFace=[int(x) for x in g.n_nodes_per_face.values])
        except Exception as e:
            ctx.hit(f"malformed:{kind}:code-raises-{type(e).__name__}(model accepts)")
            differs.append(dict(kind=kind, table=t, raises=f"{type(e).__name__}: {e}"))
            continue
        same = ([tuple(e) for e in o["edges"]], o["faceEdges"], o["nPerFace"]) == \
               ([tuple(e) for e in model["edges"]], model["faceEdges"], model["nPerFace"])
        ctx.hit(f"malformed:{kind}:" + ("accepted-by-code-and-model,identical-tables" if same else "TABLES-DIFFER"))
        if not same:
            differs.append(dict(kind=kind, table=t, implementation=o, model=model))
        # which Spec clauses the CODE's tables miss on such input (Lean proves of the model that only edges_sound
        # and faceEdge_points_at can: nPerFace_ok_any, edges_complete_any, edges_once_any)
        v = d.ask("C02.spec", w, enc_rows(t), enc_pairs(o["edges"]), enc_rows(o["faceEdges"]), enc_ints(o["nPerFace"]))
        ctx.hit("malformed:code-output:" + ("meets-Spec-anyway" if v == "ok" else "misses=" + v.split(" ", 1)[1]))
    if differs:
        ctx.notes.append("malformed-input stream (outside the quantifier, no verdict): model and code differ on "
                         f"{len(differs)} non-standard tables, first: {json.dumps(common._jsonable(differs[0]))[:600]}")
        print(f"[C02] note (no verdict): {ctx.notes[-1][:300]}", file=sys.stderr)
    ctx.extra["malformed_differs"] = ctx.extra.get("malformed_differs", 0) + len(differs)


SUPPLIED_VIA = ["from_topology", "ugrid-dataset"]


def ugrid_dataset(m, G, layout="C"):
    """a UGRID dataset that ships its own edge table (own variable / dimension names, cf_role attributes)"""
    import xarray as xr

    ds = xr.Dataset()
    ds["mesh"] = xr.DataArray(np.int32(0), attrs=dict(
        cf_role="mesh_topology", topology_dimension=2, node_coordinates="mesh_node_x mesh_node_y",
        face_node_connectivity="mesh_face_nodes", edge_node_connectivity="mesh_edge_nodes"))
    ds["mesh_node_x"] = xr.DataArray(m.lon.copy(), dims=["nMesh_node"], attrs=dict(standard_name="longitude", units="degrees_east"))
    ds["mesh_node_y"] = xr.DataArray(m.lat.copy(), dims=["nMesh_node"], attrs=dict(standard_name="latitude", units="degrees_north"))
    ds["mesh_face_nodes"] = xr.DataArray(np.asarray(_lay(m.table().copy(), layout)), dims=["nMesh_face", "nMaxMesh_face_nodes"],
                                         attrs=dict(cf_role="face_node_connectivity", start_index=0, _FillValue=INT_FILL))
    ds["mesh_edge_nodes"] = xr.DataArray(np.array(G, dtype=np.int64).reshape(-1, 2), dims=["n_edge", "Two"],
                                         attrs=dict(cf_role="edge_node_connectivity", start_index=0))
    return ds


def draw_supplied(rng, E0):
    """the source's own edge table: the faces' edges in the source's own order, each row from whichever end
    node the source happened to list first; sometimes (kind=incomplete) a table that misses an edge"""
    perm = list(range(len(E0)))
    rng.shuffle(perm)
    kind = "complete"
    if len(E0) > 1 and rng.random() < 0.1:
        kind = "incomplete"
        perm = perm[:-1]
    flip = [rng.random() < 0.5 for _ in perm]
    return dict(kind=kind, perm=perm, flip=flip, via=rng.choice(SUPPLIED_VIA))


def judge_supplied(ctx, m, tag, sup=None, order=None, form=None):
    """grids whose SOURCE supplies edge_node_connectivity (Grid.from_topology(edge_node_connectivity=...) or a UGRID
    dataset with an edge table): the supplied table is the grid's edge table (same rows, same numbering, same
    orientation) and face_edge_connectivity indexes into it; a table that misses an edge is re-derived.  Such grids
    are observed in the same process, interleaved with grids that derive their own edges, in any first-access order."""
    import uxarray as ux

    d = ctx.driver
    t, w = m.rows(), m.width
    E0 = common.Tok(d.ask("C02.model", enc_rows(t))).pairs()
    sup = sup or draw_supplied(ctx.rng, E0)
    G = [((E0[i][1], E0[i][0]) if f else tuple(E0[i])) for i, f in zip(sup["perm"], sup["flip"])]
    order = list(ctx.rng.choice(ORDERS)) if order is None else order
    form = form or draw_form(ctx.rng, len(set(m.sizes())) > 1)
    hit_form(ctx, form)
    inp = dict(mesh=m.describe(), table=t, tag=tag, supplied=sup, supplied_edge_table=G, access_order=order, argument_form=form)
    key = (tag, t, G, sup["via"])
    ctx.hit(f"supplied:{sup['via']}:{sup['kind']}")
    ctx.hit("supplied:first-access=" + order[0])
    try:
        if sup["via"] == "from_topology":
            g = make_grid(m, ux, form, edges=G)
        else:
            g = ux.open_grid(ugrid_dataset(m, G, form["layout"]))
        for name in order:
            getattr(g, name)
        o = dict(edges=[(int(a), int(b)) for a, b in g.edge_node_connectivity.values],
                 faceEdges=[[int(x) for x in r] for r in g.face_edge_connectivity.values],
                 nPerFace=[int(x) for x in g.n_nodes_per_face.values], n_edge=int(g.n_edge))
    except Exception as e:
        ctx.case(key, sample=inp)
        if sup["kind"] == "incomplete":
            # one signature for the whole class (the order of first access does not matter for it)
            sig = f"C02/supplied/incomplete-table/re-derivation-raises-{type(e).__name__}"
        else:
            sig = f"C02/supplied/complete/raises/{type(e).__name__}/first-access={order[0]}"
        ctx.fail(sig, f"edge tables of a grid with a source-supplied edge table raise {type(e).__name__}: {e}", inp)
        return
    ctx.case(key, nontrivial=True, sample=dict(inp, implementation=o) if m.n_face <= 3 else None)
    verdict = d.ask("C02.specGiven", w, enc_rows(t), enc_pairs(G), enc_pairs(o["edges"]), enc_rows(o["faceEdges"]), enc_ints(o["nPerFace"]))
    mo = common.Tok(d.ask("C02.modelGiven", enc_rows(t), enc_pairs(G)))
    kept = mo.int() == 1
    model = dict(edges=mo.pairs(), faceEdges=mo.rows(), nPerFace=mo.ints(), supplied_table_kept=kept)
    assert kept == (sup["kind"] == "complete"), "generator: kind of supplied table"
    if verdict != "ok":
        clauses = verdict.split(" ", 1)[1].split(",")
        ctx.fail(f"C02/supplied/{sup['kind']}/" + "+".join(clauses),
                 "edge tables of a grid with a source-supplied edge table: " + verdict, inp, o, model, clauses)
        return
    if o["n_edge"] != len(o["edges"]):
        ctx.fail("C02/supplied/n_edge", "n_edge differs from the number of edge rows", inp, o, model, ["n_edge"])
    if ([tuple(e) for e in o["edges"]], o["faceEdges"], o["nPerFace"]) != ([tuple(e) for e in model["edges"]], model["faceEdges"], model["nPerFace"]):
        ctx.mismatch("C02/supplied/tables-differ", inp, o, model)
    else:
        ctx.hit("supplied:identical-to-model(" + ("table kept" if kept else "table re-derived") + ")")


PRE_ATTRS = ["edge_node_connectivity", "face_edge_connectivity", "n_nodes_per_face", "edge_face_connectivity",
             "node_face_connectivity", "face_face_connectivity", "hole_edge_indices", "edge_face_distances"]


def draw_derivation(rng, m):
    """a grid DERIVED from a built one: what was read on the parent first, then 1-2 selections (faces in any
    order and shape: non-adjacent, notched, single; node- or edge-based) and possibly a copy()"""
    pre = rng.sample(PRE_ATTRS, rng.randint(0, 4))
    steps, nf = [], m.n_face
    for _ in range(rng.choice([1, 1, 2])):
        if nf < 1:
            break
        k = rng.randint(1, max(1, min(nf, 12)))
        sel = rng.sample(range(nf), k)
        if rng.random() < 0.3:
            sel.sort()
        steps.append(["n_face", sel])
        nf = k
    if rng.random() < 0.2:
        steps.append(["copy", []])
    return dict(pre=pre, steps=steps)


def derive(g, der):
    for name in der["pre"]:
        getattr(g, name)
    for kind, sel in der["steps"]:
        g = g.copy() if kind == "copy" else g.isel(**{kind: list(sel)})
    return g


def judge_derived(ctx, m, tag, der=None, order=None, form=None):
    """the statement is about EVERY grid the library hands out, so the same verdict (Lean `Edges.Spec` on the
    grid's own face table) is asked of grids derived by isel/copy from a parent with any history"""
    import uxarray as ux

    der = der or draw_derivation(ctx.rng, m)
    order = list(ctx.rng.choice(ORDERS)) if order is None else order
    form = form or draw_form(ctx.rng, len(set(m.sizes())) > 1)
    hit_form(ctx, form)
    inp = dict(mesh=m.describe(), table=m.rows(), tag=tag, derivation=der, access_order=order, argument_form=form)
    key = (tag, m.rows(), str(der))
    try:
        g = derive(make_grid(m, ux, form), der)
        for name in order:
            getattr(g, name)
        t = [[int(x) for x in r] for r in g.face_node_connectivity.values]
        o = dict(edges=[(int(a), int(b)) for a, b in g.edge_node_connectivity.values],
                 faceEdges=[[int(x) for x in r] for r in g.face_edge_connectivity.values],
                 nPerFace=[int(x) for x in g.n_nodes_per_face.values], n_edge=int(g.n_edge))
        n_node = int(g.n_node)
    except Exception as e:
        ctx.case(key, sample=inp)
        ctx.fail(f"C02/derived/raises/{type(e).__name__}", f"edge tables of a derived grid raise {type(e).__name__}: {e}", inp)
        return
    d = ctx.driver
    w = len(t[0])
    ctx.case(key, nontrivial=len(t) > 1, sample=dict(inp, implementation=o) if len(t) <= 3 else None)
    ctx.hit("derived:" + "+".join(k for k, _ in der["steps"]))
    ctx.hit("derived:parent-read-first" if der["pre"] else "derived:fresh-parent")
    if d.ask("C02.std", n_node, w, enc_rows(t)) != "1":
        ctx.fail("C02/derived/face-table-not-standard", "the derived grid's face table is not in standard form", inp, dict(o, table=t))
        return
    verdict = d.ask("C02.spec", w, enc_rows(t), enc_pairs(o["edges"]), enc_rows(o["faceEdges"]), enc_ints(o["nPerFace"]))
    mo = common.Tok(d.ask("C02.model", enc_rows(t)))
    model = dict(edges=mo.pairs(), faceEdges=mo.rows(), nPerFace=mo.ints())
    if verdict != "ok":
        clauses = verdict.split(" ", 1)[1].split(",")
        ctx.fail("C02/derived/" + "+".join(clauses), "edge tables of a derived grid do not describe its faces' boundary segments: " + verdict,
                 inp, dict(o, table=t), model, clauses)
        return
    if o["n_edge"] != len(o["edges"]):
        ctx.fail("C02/derived/n_edge", "n_edge differs from the number of edge rows", inp, o, model, ["n_edge"])
    if canon(o["edges"], o["faceEdges"]) != canon(model["edges"], model["faceEdges"]) or o["nPerFace"] != model["nPerFace"]:
        ctx.mismatch("C02/derived/canon-edges", inp, o, model)
    else:
        # a derived grid keeps the parent's edges re-indexed (it does not rebuild them), so its numbering is
        # free: counted, never demanded
        ctx.hit("derived:identical-numbering" if (o["edges"], o["faceEdges"]) == (model["edges"], model["faceEdges"])
                else "derived:own-numbering(same tables up to edge numbering)")


def small_scope(ctx):
    """every standard-form table with <= F faces over <= N nodes, sizes 3..5, all rotations"""
    F, N = (2, 5) if not (ctx.thorough or ctx.escalate) else (3, 6)
    faces = []
    for k in (3, 4, 5):
        if k > N:
            continue
        for comb in itertools.combinations(range(N), k):
            # cyclic orders up to rotation: fix the first element, permute the rest
            for perm in itertools.permutations(comb[1:]):
                faces.append([comb[0]] + list(perm))
    rng = ctx.rng
    count = ctx.n(150, 4000)
    seen = 0
    xyz = np.array([meshes._ll(37.0 * i - 170, 11.0 * i - 40) for i in range(N)])
    while seen < count:
        nf = rng.randint(1, F)
        fs = [list(rng.choice(faces)) for _ in range(nf)]
        fs = [f[r:] + f[:r] for f in fs for r in [rng.randrange(len(f))]]
        if rng.random() < 0.12:
            # standard form does not ask for distinct corners or for three of them: degenerate faces are inside
            # the quantifier (and are the other side of the hypothesis of edge_faces_distinct)
            f = fs[rng.randrange(nf)]
            if rng.random() < 0.5:
                del f[rng.randint(1, 2):]
            else:
                i, j = rng.sample(range(len(f)), 2)
                f[i] = f[j]
        used = sorted({v for f in fs for v in f})
        mp = {v: i for i, v in enumerate(used)}
        m = meshes.AMesh([[mp[v] for v in f] for f in fs], xyz[used], False, "small-scope")
        if rng.random() < 0.25:
            judge_supplied(ctx, m, "small+supplied")
        else:
            judge(ctx, m, "small")
        seen += 1


def run(ctx):
    ctx.rule = ("meshes from harness/meshes.zoo (prisms, antiprisms, bipyramids, cube-sphere, convex-hull "
                "triangulations and their duals, merged/split lattices, fans, isolated faces, holes; random "
                "renumbering, start corner, rotation) + random small standard-form tables + grids DERIVED from them (random reads on the parent, "
                "1-2 isel(n_face=...) selections in any order/shape, copy()); distinct = distinct "
                "face-node table; non-trivial = more than one face or mixed sizes")
    ctx.rule += ("; the comparison with the model is entry for entry (identical edge numbering) on built grids; a separate "
                 "malformed-input stream (tables NOT in standard form: fill inside / at the start of a row, empty rows, indices out of "
                 "range or negative) compares code and model entry for entry and is reported without verdict")
    ctx.rule += ("; the ARGUMENT FORM of the face table is a random dimension of every case: list of lists / C-ordered / F-ordered / "
                 "transposed view / strided view, int64 / int32 / float with NaN fill, (fill_value, start_index) conventions")
    ctx.assumptions = ["np.unique(axis=0) is modelled as sort + dedup in lexicographic row order (proved of the model: edges_sorted, "
                       "uniqPair_eq_of_sorted); that NumPy does the same, and the NumPy semantics of argmax/np.put/searchsorted/reshape, "
                       "are tied to the model by this differential run with IDENTICAL tables, also on non-standard tables",
                       "Euler's formula is tested on generated sphere tilings, not proved"]
    small_scope(ctx)
    malformed_stream(ctx)
    for rep in range(ctx.n(1, 6)):
        for m in meshes.zoo(ctx.rng, big=(ctx.thorough or ctx.escalate or rep == 0)):
            judge(ctx, m, m.kind)
            if m.n_face <= 40 and ctx.rng.random() < 0.3:
                judge(ctx, meshes.with_orphans(m, ctx.rng), m.kind + "+orphans")
            if m.n_face <= 200 and ctx.rng.random() < 0.5:
                judge_derived(ctx, m, m.kind + "+derived")
            if m.n_face <= 400 and ctx.rng.random() < 0.5:
                judge_supplied(ctx, m, m.kind + "+supplied")


def replay(ctx, rp):
    inp = rp["input"]
    t = inp["table"]
    faces = [[v for v in r if v != INT_FILL] for r in t]
    n = max(max(f) for f in faces) + 1
    xyz = np.array([meshes._ll(37.0 * i - 170, 11.0 * (i % 14) - 70) for i in range(n)])
    m = meshes.AMesh(faces, xyz, inp["mesh"].get("closed", False), "replay")
    # the generated stream observes many grids in one process: replay after a fully populated
    # other grid, so that failures which need an earlier grid (leaked side tables) reproduce
    import uxarray as ux

    observe(ux, meshes.prism(5))
    form = inp.get("argument_form") or STD_FORM
    if inp.get("supplied"):
        judge_supplied(ctx, m, "replay", inp["supplied"], inp.get("access_order"), form)
        return
    if inp.get("derivation"):
        judge_derived(ctx, m, "replay", inp["derivation"], inp.get("access_order"), form)
        return
    judge(ctx, m, "replay", inp.get("access_order"), form)
