"""C02 — derived edges are exactly the boundary segments of the faces.

Correspondence: Grid.edge_node_connectivity / face_edge_connectivity / n_edge / n_nodes_per_face
/ n_max_face_edges of the real code vs the Lean model `Edges.build`; the verdict on the
implementation's output is the Lean predicate `Edges.Spec` (proved of the model for every
standard-form table in Props/C02.lean).
"""

from __future__ import annotations

import itertools

import numpy as np

from . import common, meshes
from .common import INT_FILL, enc_ints, enc_pairs, enc_rows


ORDERS = list(itertools.permutations(["n_edge", "edge_node_connectivity", "face_edge_connectivity", "n_nodes_per_face"]))


def observe(ux, m, order=None):
    """The derived quantities are lazily populated, so the ORDER of first access is part of the
    input: every grid is observed in a (seeded) random order of first access, on a fresh grid,
    in one process with all the grids observed before it (a side table left behind by an
    earlier grid, or a population path that depends on what was asked first, shows up as a wrong
    table here)."""
    g = meshes.to_grid(m, ux)
    for name in order or ORDERS[0]:
        getattr(g, name)
    E = g.edge_node_connectivity.values
    FE = g.face_edge_connectivity.values
    N = g.n_nodes_per_face.values
    return g, dict(
        edges=[(int(a), int(b)) for a, b in E],
        faceEdges=[[int(x) for x in r] for r in FE],
        nPerFace=[int(x) for x in N],
        n_edge=int(g.n_edge),
        n_max_face_edges=int(g.n_max_face_edges),
        dtypes=[str(E.dtype), str(FE.dtype)],
    )


def canon(edges, fe):
    """quotient by the freedom the property grants: edge numbering (and order inside a pair)"""
    key = [tuple(sorted(e)) for e in edges]
    order = sorted(range(len(key)), key=lambda i: key[i])
    ren = {old: new for new, old in enumerate(order)}
    return [key[i] for i in order], [[ren.get(x, x) for x in r] for r in fe]


def judge(ctx, m, tag, order=None):
    import uxarray as ux

    t = m.rows()
    w = m.width
    order = list(ctx.rng.choice(ORDERS)) if order is None else order
    inp = dict(mesh=m.describe(), table=t, tag=tag, access_order=order)
    ctx.hit("first-access=" + order[0])
    try:
        g, o = observe(ux, m, order)
    except Exception as e:  # the real code refuses a well-formed table
        ctx.case((tag, t), sample=inp)
        ctx.fail(f"C02/raises/{type(e).__name__}/first-access={order[0]}", f"edge construction raises {type(e).__name__}: {e}", inp)
        return
    d = ctx.driver
    std = d.ask("C02.std", m.n_node, w, enc_rows(t))
    assert std == "1", "generator produced a non-standard table"
    verdict = d.ask("C02.spec", w, enc_rows(t), enc_pairs(o["edges"]), enc_rows(o["faceEdges"]), enc_ints(o["nPerFace"]))
    mo = common.Tok(d.ask("C02.model", enc_rows(t)))
    model = dict(edges=mo.pairs(), faceEdges=mo.rows(), nPerFace=mo.ints())
    nontriv = len(set(m.sizes())) > 1 or m.n_face > 1
    ctx.case((tag, t), nontrivial=nontriv, sample=dict(inp, implementation=o) if m.n_face <= 4 else None)
    ctx.hit("faces=%d" % min(m.n_face, 64) if m.n_face < 8 else "faces>=8")
    for s in set(m.sizes()):
        ctx.hit(f"size{s}")
    ctx.hit("padding" if len(set(m.sizes())) > 1 else "no-padding")
    ctx.hit("closed" if m.closed else "partial")
    if verdict != "ok":
        clauses = verdict.split(" ", 1)[1].split(",")
        ctx.fail("C02/" + "+".join(clauses), "edge tables do not describe the faces' boundary segments: " + verdict,
                 inp, o, model, clauses)
        return
    # further observable clauses of the property
    if o["n_edge"] != len(o["edges"]):
        ctx.fail("C02/n_edge", "n_edge differs from the number of edge rows", inp, o, model, ["n_edge"])
    if o["n_max_face_edges"] != w:
        ctx.fail("C02/n_max_face_edges", "n_max_face_edges differs from the table width", inp, o, model, ["n_max_face_edges"])
    if m.closed:
        # tested clause (not a theorem). The generator's claim "this mesh tiles the sphere" is checked
        # against the Lean MODEL's edge count first: a mesh that is not a sphere tiling is a generator
        # matter, never a verdict on the implementation
        if m.n_node - len(model["edges"]) + m.n_face != 2:
            ctx.hit("closed-flag-but-not-a-sphere-tiling(generator)")
        elif m.n_node - o["n_edge"] + m.n_face != 2:
            ctx.fail("C02/euler", "n_node - n_edge + n_face != 2 on a sphere tiling", inp, o, model, ["euler"])
        else:
            ctx.hit("euler-checked")
    # correspondence with the model up to edge numbering
    ci, cm = canon(o["edges"], o["faceEdges"]), canon(model["edges"], model["faceEdges"])
    if ci != cm or o["nPerFace"] != model["nPerFace"]:
        ctx.mismatch("C02/canon-edges", inp, o, model)
    elif (o["edges"], o["faceEdges"]) == (model["edges"], model["faceEdges"]):
        ctx.hit("identical-numbering")


PRE_ATTRS = ["edge_node_connectivity", "face_edge_connectivity", "n_nodes_per_face", "edge_face_connectivity",
             "node_face_connectivity", "face_face_connectivity", "hole_edge_indices", "edge_face_distances"]


def draw_derivation(rng, m):
    """a grid DERIVED from a built one: what was read on the parent first, then 1-2 selections (faces in any
    order and shape: non-adjacent, notched, single; node- or edge-based) and possibly a copy()"""
    pre = rng.sample(PRE_ATTRS, rng.randint(0, 4))
    steps, nf = [], m.n_face
    for _ in range(rng.choice([1, 1, 2])):
        if nf < 1:
            break
        k = rng.randint(1, max(1, min(nf, 12)))
        sel = rng.sample(range(nf), k)
        if rng.random() < 0.3:
            sel.sort()
        steps.append(["n_face", sel])
        nf = k
    if rng.random() < 0.2:
        steps.append(["copy", []])
    return dict(pre=pre, steps=steps)


def derive(g, der):
    for name in der["pre"]:
        getattr(g, name)
    for kind, sel in der["steps"]:
        g = g.copy() if kind == "copy" else g.isel(**{kind: list(sel)})
    return g


def judge_derived(ctx, m, tag, der=None, order=None):
    """the statement is about EVERY grid the library hands out, so the same verdict (Lean `Edges.Spec` on the
    grid's own face table) is asked of grids derived by isel/copy from a parent with any history"""
    import uxarray as ux

    der = der or draw_derivation(ctx.rng, m)
    order = list(ctx.rng.choice(ORDERS)) if order is None else order
    inp = dict(mesh=m.describe(), table=m.rows(), tag=tag, derivation=der, access_order=order)
    key = (tag, m.rows(), str(der))
    try:
        g = derive(meshes.to_grid(m, ux), der)
        for name in order:
            getattr(g, name)
        t = [[int(x) for x in r] for r in g.face_node_connectivity.values]
        o = dict(edges=[(int(a), int(b)) for a, b in g.edge_node_connectivity.values],
                 faceEdges=[[int(x) for x in r] for r in g.face_edge_connectivity.values],
                 nPerFace=[int(x) for x in g.n_nodes_per_face.values], n_edge=int(g.n_edge))
        n_node = int(g.n_node)
    except Exception as e:
        ctx.case(key, sample=inp)
        ctx.fail(f"C02/derived/raises/{type(e).__name__}", f"edge tables of a derived grid raise {type(e).__name__}: {e}", inp)
        return
    d = ctx.driver
    w = len(t[0])
    ctx.case(key, nontrivial=len(t) > 1, sample=dict(inp, implementation=o) if len(t) <= 3 else None)
    ctx.hit("derived:" + "+".join(k for k, _ in der["steps"]))
    ctx.hit("derived:parent-read-first" if der["pre"] else "derived:fresh-parent")
    if d.ask("C02.std", n_node, w, enc_rows(t)) != "1":
        ctx.fail("C02/derived/face-table-not-standard", "the derived grid's face table is not in standard form", inp, dict(o, table=t))
        return
    verdict = d.ask("C02.spec", w, enc_rows(t), enc_pairs(o["edges"]), enc_rows(o["faceEdges"]), enc_ints(o["nPerFace"]))
    mo = common.Tok(d.ask("C02.model", enc_rows(t)))
    model = dict(edges=mo.pairs(), faceEdges=mo.rows(), nPerFace=mo.ints())
    if verdict != "ok":
        clauses = verdict.split(" ", 1)[1].split(",")
        ctx.fail("C02/derived/" + "+".join(clauses), "edge tables of a derived grid do not describe its faces' boundary segments: " + verdict,
                 inp, dict(o, table=t), model, clauses)
        return
    if o["n_edge"] != len(o["edges"]):
        ctx.fail("C02/derived/n_edge", "n_edge differs from the number of edge rows", inp, o, model, ["n_edge"])
    if canon(o["edges"], o["faceEdges"]) != canon(model["edges"], model["faceEdges"]) or o["nPerFace"] != model["nPerFace"]:
        ctx.mismatch("C02/derived/canon-edges", inp, o, model)


def small_scope(ctx):
    """every standard-form table with <= F faces over <= N nodes, sizes 3..5, all rotations"""
    F, N = (2, 5) if not (ctx.thorough or ctx.escalate) else (3, 6)
    faces = []
    for k in (3, 4, 5):
        if k > N:
            continue
        for comb in itertools.combinations(range(N), k):
            # cyclic orders up to rotation: fix the first element, permute the rest
            for perm in itertools.permutations(comb[1:]):
                faces.append([comb[0]] + list(perm))
    rng = ctx.rng
    count = ctx.n(150, 4000)
    seen = 0
    xyz = np.array([meshes._ll(37.0 * i - 170, 11.0 * i - 40) for i in range(N)])
    while seen < count:
        nf = rng.randint(1, F)
        fs = [list(rng.choice(faces)) for _ in range(nf)]
        fs = [f[r:] + f[:r] for f in fs for r in [rng.randrange(len(f))]]
        used = sorted({v for f in fs for v in f})
        mp = {v: i for i, v in enumerate(used)}
        m = meshes.AMesh([[mp[v] for v in f] for f in fs], xyz[used], False, "small-scope")
        judge(ctx, m, "small")
        seen += 1


def run(ctx):
    ctx.rule = ("meshes from harness/meshes.zoo (prisms, antiprisms, bipyramids, cube-sphere, convex-hull "
                "triangulations and their duals, merged/split lattices, fans, isolated faces, holes; random "
                "renumbering, start corner, rotation) + random small standard-form tables + grids DERIVED from them (random reads on the parent, "
                "1-2 isel(n_face=...) selections in any order/shape, copy()); distinct = distinct "
                "face-node table; non-trivial = more than one face or mixed sizes")
    ctx.assumptions = ["NumPy semantics of np.unique/argmax/searchsorted are tied to the model only by this differential run",
                       "Euler's formula is tested on generated sphere tilings, not proved"]
    small_scope(ctx)
    for rep in range(ctx.n(1, 6)):
        for m in meshes.zoo(ctx.rng, big=(ctx.thorough or ctx.escalate or rep == 0)):
            judge(ctx, m, m.kind)
            if m.n_face <= 40 and ctx.rng.random() < 0.3:
                judge(ctx, meshes.with_orphans(m, ctx.rng), m.kind + "+orphans")
            if m.n_face <= 200 and ctx.rng.random() < 0.5:
                judge_derived(ctx, m, m.kind + "+derived")


def replay(ctx, rp):
    inp = rp["input"]
    t = inp["table"]
    faces = [[v for v in r if v != INT_FILL] for r in t]
    n = max(max(f) for f in faces) + 1
    xyz = np.array([meshes._ll(37.0 * i - 170, 11.0 * (i % 14) - 70) for i in range(n)])
    m = meshes.AMesh(faces, xyz, inp["mesh"].get("closed", False), "replay")
    # the generated stream observes many grids in one process: replay after a fully populated
    # other grid, so that failures which need an earlier grid (leaked side tables) reproduce
    import uxarray as ux

    observe(ux, meshes.prism(5))
    if inp.get("derivation"):
        judge_derived(ctx, m, "replay", inp["derivation"], inp.get("access_order"))
        return
    judge(ctx, m, "replay", inp.get("access_order"))
