"""C19 — a grid shares no mutable state with its inputs, copies or exports.

Lean side (Props/C19.lean): objects are roots in a heap of references; `construct_readonly`
(constructors only allocate), `copy_disjoint`/`export_disjoint_*` (repaired copy / exporters return
separated objects), `copy_independent` (separated ⇒ ANY mutation history on one side leaves every
cell the other side reaches untouched).  Tie:

(a) the OBJECT GRAPH of the real Python objects (Grid → Dataset → Variable → buffer / attrs dict,
    caches, exported objects; buffers identified by `np.shares_memory`, everything else by identity)
    is extracted before/after every constructor, copy, export and mutation step and sent to the Lean
    driver as a heap.  The verdicts come from the verified checkers `judge` (separated / shared with
    a witness cell and a path to it from either side) and `frameJ` (unchanged / changed with witness),
    whose answers are certified by `judge_sep`, `judge_shared`, `frameJ_ok`, `frameJ_changed`.
(b) the public observation of the untouched side (every materialised variable's values/attrs,
    grid attrs, sizes) is compared before/after each step, and a re-export is compared with the
    first export.
(c) the same abstract scenario is run in the Lean model (`C19.model`, as-is and repaired): the real
    code may alias no more than the model does (the model is the one proved safe).
"""

from __future__ import annotations

import copy as pycopy
import zlib

import numpy as np

from . import common, meshes
from .common import INT_FILL, enc_ints

# --------------------------------------------------------------------------------------
# object graph of live Python objects  ->  heap for the Lean driver
# --------------------------------------------------------------------------------------


def _crc(b):
    return zlib.crc32(b) & 0x7FFFFFFF


def _digest(o):
    if isinstance(o, np.ndarray):
        try:
            return _crc(str((o.dtype.str, o.shape)).encode() + np.ascontiguousarray(o).tobytes())
        except Exception:
            return _crc(repr(o).encode())
    return _crc(repr(o).encode())


def _is_imm(v):
    return v is None or isinstance(v, (str, int, float, bool, bytes, tuple, frozenset, np.generic, type))


def _opaque_digest(o):
    """content digest of an exported geometry object (what a caller would see of it)"""
    name = type(o).__name__
    try:
        if name == "GeoDataFrame":
            cols = [str(c) for c in o.columns]
            parts = [repr(cols), str(len(o))]
            for c in cols:
                if c != "geometry":
                    parts.append(str(_digest(np.asarray(o[c].values))))
            return _crc("|".join(parts).encode())
        if name in ("LineCollection", "PolyCollection"):
            arr = o.get_array()
            return _crc(repr((len(o.get_paths()), tuple(np.atleast_1d(o.get_linewidth()).tolist()),
                              None if arr is None else _digest(np.asarray(arr)))).encode())
        if name in ("BallTree", "KDTree") and (type(o).__module__ or "").startswith("sklearn"):
            return _digest(np.asarray(o.data))
    except Exception:
        pass
    return 0


class Graph:
    """Registry of mutable objects reachable from the registered roots.  Addresses are stable for
    the life of the registry (objects are kept alive, so `id` is never reused)."""

    KEYS = {}  # field name -> int (shared so that paths read the same everywhere)

    def __init__(self):
        self.addr = {}  # id(obj) -> addr
        self.kind = []  # addr -> kind
        self.keep = []
        self.reps = []  # (addr, ndarray) one representative per memory class
        self.arr_addr = {}  # id(ndarray) -> addr
        self.root_objs = []
        self.cells = []  # last snapshot: addr -> (data, {key: addr})

    @classmethod
    def key(cls, name):
        if name not in cls.KEYS:
            cls.KEYS[name] = len(cls.KEYS)
        return cls.KEYS[name]

    @classmethod
    def key_name(cls, k):
        for n, v in cls.KEYS.items():
            if v == k:
                return n
        return str(k)

    def _new(self, o, kind):
        a = len(self.kind)
        self.kind.append(kind)
        self.keep.append(o)
        self.cells.append((0, {}))
        return a

    def _node(self, o, kind):
        k = id(o)
        if k in self.addr:
            return self.addr[k]
        a = self._new(o, kind)
        self.addr[k] = a
        return a

    def _array(self, a):
        k = id(a)
        if k in self.arr_addr:
            return self.arr_addr[k]
        found = None
        if a.size:
            for addr, b in self.reps:
                if np.may_share_memory(a, b):
                    try:
                        sh = np.shares_memory(a, b)
                    except Exception:
                        sh = True
                    if sh:
                        found = addr
                        break
        if found is None:
            found = self._new(a, "buf")
            self.reps.append((found, a))
        else:
            self.keep.append(a)
        self.arr_addr[k] = found
        return found

    # ---- walking ----
    def register(self, o):
        a = self._walk(o, {})
        self.root_objs.append(o)
        return a

    def snapshot(self):
        """re-read every cell reachable from the registered roots; returns the heap (list of cells)"""
        seen = {}
        for o in list(self.root_objs):
            self._walk(o, seen)
        # buffers: digest of the representative (re-read every time)
        for addr, arr in self.reps:
            self.cells[addr] = (_digest(arr), {})
        return [(d, dict(r)) for d, r in self.cells]

    def _walk(self, o, seen):
        import xarray as xr
        import uxarray as ux

        if isinstance(o, np.ndarray):
            return self._array(o)
        if isinstance(o, ux.Grid):
            a = self._node(o, "grid")
            if a in seen:
                return a
            seen[a] = True
            refs = {}
            for k, v in sorted(vars(o).items()):
                if not _is_imm(v):
                    refs[self.key(k)] = self._walk(v, seen)
            self.cells[a] = (_digest((o.source_grid_spec,)), refs)
            return a
        if isinstance(o, xr.Dataset):
            a = self._node(o, "dataset")
            if a in seen:
                return a
            seen[a] = True
            refs = {}
            for k, v in o.variables.items():
                refs[self.key("var:" + str(k))] = self._walk(v, seen)
            refs[self.key("attrs")] = self._walk(o.attrs, seen)
            self.cells[a] = (_digest((sorted(map(str, o.variables)), sorted(map(str, o.coords)))), refs)
            return a
        if isinstance(o, xr.DataArray):
            a = self._node(o, "dataarray")
            if a in seen:
                return a
            seen[a] = True
            refs = {self.key("variable"): self._walk(o.variable, seen)}
            for k, v in o._coords.items():
                refs[self.key("coord:" + str(k))] = self._walk(v, seen)
            self.cells[a] = (_digest(str(o.name)), refs)
            return a
        if isinstance(o, xr.Variable):
            a = self._node(o, "variable")
            if a in seen:
                return a
            seen[a] = True
            refs = {}
            d = o._data
            if isinstance(d, np.ndarray):
                refs[self.key("data")] = self._walk(d, seen)
            else:
                b = self._node(d, "lazy:" + type(d).__name__)
                try:
                    self.cells[b] = (_digest(np.asarray(o.values)), {})
                except Exception:
                    self.cells[b] = (0, {})
                refs[self.key("data")] = b
            refs[self.key("attrs")] = self._walk(o.attrs, seen)
            self.cells[a] = (_digest((tuple(map(str, o.dims)), str(o.dtype), tuple(o.shape))), refs)
            return a
        if isinstance(o, dict):
            a = self._node(o, "dict")
            if a in seen:
                return a
            seen[a] = True
            refs, imm = {}, []
            for k, v in o.items():
                if _is_imm(v):
                    imm.append((str(k), repr(v)))
                else:
                    refs[self.key("key:" + str(k))] = self._walk(v, seen)
            self.cells[a] = (_digest(sorted(imm)), refs)
            return a
        if isinstance(o, list):
            a = self._node(o, "list")
            if a in seen:
                return a
            seen[a] = True
            refs = {}
            for i, v in enumerate(o):
                if not _is_imm(v):
                    refs[self.key(f"item:{i}")] = self._walk(v, seen)
            self.cells[a] = (_digest([repr(v) for v in o if _is_imm(v)] + [len(o)]), refs)
            return a
        a = self._node(o, "obj:" + type(o).__name__)
        if a not in seen:
            seen[a] = True
            refs, imm = {}, []
            if (type(o).__module__ or "").startswith("uxarray") and hasattr(o, "__dict__"):
                # helper objects the library caches on a grid (BallTree, KDTree, …): their fields are state too,
                # in particular the reference back to the grid they were built from
                for k, v in sorted(vars(o).items()):
                    if _is_imm(v):
                        imm.append((k, repr(v)))
                    else:
                        refs[self.key(k)] = self._walk(v, seen)
            self.cells[a] = (_crc(repr((_opaque_digest(o), imm)).encode()), refs)
        return a


def enc_heap(cells):
    out = [str(len(cells))]
    for d, refs in cells:
        out.append(f"1 {int(d)}")
        out.append(str(len(refs)))
        for k, b in refs.items():
            out.append(f"{k} {b}")
    return " ".join(out)


def path_str(p):
    return "/" + "/".join(Graph.key_name(k) for k in p)


def lean_judge(ctx, cells, a, b):
    t = common.Tok(ctx.driver.ask("C19.judge", enc_heap(cells), a, b))
    w = t.word()
    if w == "sep":
        return ("sep", None, None, None)
    if w == "shared":
        return ("shared", t.int(), t.ints(), t.ints())
    raise RuntimeError("Lean checker could not certify a verdict (judge = unknown)")


def lean_frame(ctx, cells0, cells1, r):
    # the later heap may be longer (allocation appends); never shorter
    t = common.Tok(ctx.driver.ask("C19.frame", enc_heap(cells0), enc_heap(cells1), r))
    w = t.word()
    if w == "ok":
        return ("ok", None, None)
    if w == "changed":
        return ("changed", t.int(), t.ints())
    raise RuntimeError("Lean checker could not certify a verdict (frame = unknown)")


# --------------------------------------------------------------------------------------
# public observation of a grid / deep content of inputs and exports
# --------------------------------------------------------------------------------------


def deep_snap(o):
    import xarray as xr

    if isinstance(o, np.ndarray):
        return ("nd", o.dtype.str, tuple(o.shape), _digest(o))
    if isinstance(o, np.generic):
        return ("g", o.dtype.str, repr(o))
    if isinstance(o, xr.Dataset):
        return ("ds", tuple((str(k), deep_snap(v)) for k, v in o.variables.items()),
                tuple(sorted(map(str, o.coords))), deep_snap(dict(o.attrs)))
    if isinstance(o, xr.Variable):
        return ("var", tuple(map(str, o.dims)), deep_snap(np.asarray(o.values)), deep_snap(dict(o.attrs)))
    if isinstance(o, xr.DataArray):
        return ("da", deep_snap(o.variable), str(o.name))
    if isinstance(o, dict):
        return ("dict", tuple((str(k), deep_snap(v)) for k, v in o.items()))
    if isinstance(o, (list, tuple)):
        return (type(o).__name__, tuple(deep_snap(v) for v in o))
    if type(o).__name__ in ("GeoDataFrame", "LineCollection", "PolyCollection"):
        return ("geo", type(o).__name__, _opaque_digest(o))
    return ("imm", repr(o))


def snap_diff(a, b, path=""):
    if a == b:
        return []
    if isinstance(a, tuple) and isinstance(b, tuple) and len(a) == len(b) and a and a[0] == b[0]:
        out = []
        for x, y in zip(a, b):
            p = path
            if isinstance(x, tuple) and len(x) == 2 and isinstance(x[0], str):
                p = path + "/" + x[0]
            out += snap_diff(x, y, p)
        return out or [path or "/"]
    return [path or "/"]


def pub_obs(g):
    """what the grid reports through its public API, without deriving anything"""
    out = {}
    for name in sorted(g.coordinates | g.connectivity | g.descriptors):
        try:
            da = getattr(g, name)
            out[name] = deep_snap(da.variable)
        except Exception as e:  # a getter that raises reports nothing comparable
            out[name] = ("raises", type(e).__name__)
    out["@attrs"] = deep_snap(dict(g.attrs))
    out["@sizes"] = tuple(sorted((str(k), int(v)) for k, v in g.sizes.items()))
    return out


def obs_diff(a, b):
    return sorted(k for k in set(a) | set(b) if a.get(k) != b.get(k))


# --------------------------------------------------------------------------------------
# meshes, inputs
# --------------------------------------------------------------------------------------


def mesh_in(m):
    return dict(faces=m.faces, lon=[float(x) for x in m.lon], lat=[float(x) for x in m.lat], kind=m.kind)


def mesh_out(d):
    lon, lat = np.radians(d["lon"]), np.radians(d["lat"])
    xyz = np.stack([np.cos(lat) * np.cos(lon), np.cos(lat) * np.sin(lon), np.sin(lat)], axis=1)
    return meshes.AMesh(d["faces"], xyz, False, d.get("kind", "replay"))


def small_meshes(rng, k):
    pool = [
        lambda: meshes.prism(rng.choice([3, 5, 6])),
        lambda: meshes.patch(rng.choice([1, 2]), rng.choice([1, 2]), lon0=rng.choice([-30, 150, 170])).split_some(rng),
        lambda: meshes.fan(rng.choice([3, 4, 5])),
        lambda: meshes.cube_sphere(1),
        lambda: meshes.hull(rng.choice([6, 8]), rng),
        lambda: meshes.bipyramid(rng.choice([3, 4])),
        lambda: meshes.isolated(2),
        lambda: meshes.dual_of(meshes.hull(8, rng)),
    ]
    out = []
    while len(out) < k:
        m = rng.choice(pool)()
        if rng.random() < 0.5:
            m = m.renumber(rng)
        out.append(m)
    return out


def lon360(m):
    lon = m.lon.copy()
    lon[lon < 0] += 360.0
    return lon


# ---- dialect datasets (in memory) ----


UGRID_CONNS = {
    # uxarray name: (variable name in the file, dims)
    "face_node_connectivity": ("Mesh2_face_nodes", ["nMesh2_face", "nMaxMesh2_face_nodes"]),
    "edge_node_connectivity": ("Mesh2_edge_nodes", ["nMesh2_edge", "Two"]),
    "face_edge_connectivity": ("Mesh2_face_edges", ["nMesh2_face", "nMaxMesh2_face_nodes"]),
    "edge_face_connectivity": ("Mesh2_edge_faces", ["nMesh2_edge", "Two"]),
    "node_face_connectivity": ("Mesh2_node_faces", ["nMesh2_node", "nMaxMesh2_node_faces"]),
}
UGRID_DTYPES = ["int32", "int64", "float64"]
UGRID_FILLS = [-1, 999, INT_FILL, None]  # None: no _FillValue attribute (float tables pad with NaN, integer tables have no padding)
UGRID_STARTS = [0, 1, "min"]  # "min": no start_index attribute, smallest index 1
UGRID_COMBOS = [(d, f, st) for d in UGRID_DTYPES for f in UGRID_FILLS for st in UGRID_STARTS]


def encode_conn(ref, dtype, fill, start):
    """a zero-based INT_FILL-padded table in the given dialect; returns (array, attrs) or None when the
    combination cannot be written down (fill not representable, padding without a fill value)"""
    ref = np.asarray(ref, dtype=np.int64)
    real = ref != INT_FILL
    shift = 0 if start == 0 else 1
    dt = np.dtype(dtype)
    attrs = {}
    if dt.kind == "f":
        out = np.where(real, ref + shift, 0).astype(dt)
        out[~real] = np.nan if fill is None else float(fill)
        if fill is not None:
            attrs["_FillValue"] = dt.type(fill)
    else:
        if fill is None:
            if (~real).any():
                return None
        elif not (np.iinfo(dt).min <= fill <= np.iinfo(dt).max):
            return None
        out = np.where(real, ref + shift, 0).astype(dt)
        if fill is not None:
            out[~real] = fill
            attrs["_FillValue"] = dt.type(fill)
    if start != "min":
        attrs["start_index"] = (np.int32 if dt.kind == "f" else dt.type)(start)
    return out, attrs


def ugrid_ds(m, conns, wrap):
    """in-memory UGRID dataset; `conns`: {uxarray connectivity name: [dtype, fill, start]}"""
    import uxarray as ux
    import xarray as xr

    need_uniform = any(np.dtype(d).kind != "f" and f is None
                       for n, (d, f, st) in conns.items() if n in ("face_node_connectivity", "face_edge_connectivity"))
    if need_uniform:
        k = min(m.sizes())
        m = meshes.AMesh([f[:k] for f in m.faces], m.xyz, False, m.kind + "+uniform")
    topo = dict(cf_role="mesh_topology", topology_dimension=2, node_coordinates="Mesh2_node_x Mesh2_node_y",
                face_dimension="nMesh2_face", node_dimension="nMesh2_node")
    ds = xr.Dataset()
    ds["Mesh2_node_x"] = xr.DataArray(lon360(m) if wrap else m.lon.copy(), dims=["nMesh2_node"],
                                      attrs=dict(standard_name="longitude", units="degrees_east"))
    ds["Mesh2_node_y"] = xr.DataArray(m.lat.copy(), dims=["nMesh2_node"],
                                      attrs=dict(standard_name="latitude", units="degrees_north"))
    ref = None
    for name, (dtype, fill, start) in conns.items():
        if name == "face_node_connectivity":
            table = m.table()
        else:
            if ref is None:
                ref = meshes.to_grid(m, ux)
            table = np.asarray(getattr(ref, name).values)
        enc = encode_conn(table, dtype, fill, start)
        if enc is None:
            raise ValueError(f"{name}: {dtype}/{fill}/{start} cannot be encoded")
        arr, attrs = enc
        var, dims = UGRID_CONNS[name]
        ds[var] = xr.DataArray(arr, dims=dims, attrs=dict(attrs, cf_role=name))
        topo[name] = var
        if name.startswith("edge_"):
            topo["edge_dimension"] = "nMesh2_edge"
    ds["Mesh2"] = xr.DataArray(np.int32(0), attrs=topo)
    ds.attrs = dict(title="c19", history=["made", "for", "c19"])
    return ds


def ugrid_conns_of(spec):
    if "conns" in spec:
        return {k: tuple(v) for k, v in spec["conns"].items()}
    return {"face_node_connectivity": (spec["dtype"], spec["fill"], spec["start"])}


def mpas_ds(m, idt=np.int32):
    import xarray as xr

    w = m.width
    voc = np.zeros((m.n_face, w), dtype=idt)
    for i, f in enumerate(m.faces):
        voc[i, : len(f)] = np.asarray(f) + 1
    inc = [[] for _ in range(m.n_node)]
    for fi, f in enumerate(m.faces):
        for v in f:
            inc[v].append(fi + 1)
    cov = np.zeros((m.n_node, 3), dtype=idt)
    for v, l in enumerate(inc):
        cov[v, : min(3, len(l))] = l[:3]
    ds = xr.Dataset()
    ds["verticesOnCell"] = xr.DataArray(voc, dims=["nCells", "maxEdges"])
    ds["nEdgesOnCell"] = xr.DataArray(np.array(m.sizes(), dtype=idt), dims=["nCells"])
    ds["cellsOnVertex"] = xr.DataArray(cov, dims=["nVertices", "vertexDegree"])
    ds["lonVertex"] = xr.DataArray(np.radians(m.lon) % (2 * np.pi), dims=["nVertices"], attrs=dict(units="rad"))
    ds["latVertex"] = xr.DataArray(np.radians(m.lat), dims=["nVertices"], attrs=dict(units="rad"))
    cen = np.array([m.xyz[f].mean(axis=0) for f in m.faces])
    cen /= np.linalg.norm(cen, axis=1, keepdims=True)
    ds["lonCell"] = xr.DataArray(np.arctan2(cen[:, 1], cen[:, 0]) % (2 * np.pi), dims=["nCells"])
    ds["latCell"] = xr.DataArray(np.arcsin(cen[:, 2]), dims=["nCells"])
    ds["xVertex"] = xr.DataArray(m.xyz[:, 0] * 6371.0, dims=["nVertices"])
    ds["yVertex"] = xr.DataArray(m.xyz[:, 1] * 6371.0, dims=["nVertices"])
    ds["zVertex"] = xr.DataArray(m.xyz[:, 2] * 6371.0, dims=["nVertices"])
    ds.attrs = dict(model_name="mpas", sphere_radius=6371.0, on_a_sphere="YES", history=["x"])
    return ds


def exodus_ds(m, idt=np.int32):
    import xarray as xr

    w = m.width
    c = np.zeros((m.n_face, w), dtype=idt)
    for i, f in enumerate(m.faces):
        c[i, : len(f)] = np.asarray(f) + 1
    ds = xr.Dataset()
    ds["coordx"] = xr.DataArray(m.xyz[:, 0].copy(), dims=["num_nodes"])
    ds["coordy"] = xr.DataArray(m.xyz[:, 1].copy(), dims=["num_nodes"])
    ds["coordz"] = xr.DataArray(m.xyz[:, 2].copy(), dims=["num_nodes"])
    ds["connect1"] = xr.DataArray(c, dims=["num_el_in_blk1", "num_nod_per_el1"], attrs=dict(elem_type="SHELL4"))
    ds["coor_names"] = xr.DataArray(np.array(["x", "y", "z"]), dims=["num_dim"])
    ds.attrs = dict(title="exo", api_version=np.float32(5.0))
    return ds


def scrip_ds(m):
    import xarray as xr

    w = m.width
    lon = m.lon % 360
    clon, clat = np.zeros((m.n_face, w)), np.zeros((m.n_face, w))
    for i, f in enumerate(m.faces):
        ff = list(f) + [f[-1]] * (w - len(f))
        clon[i], clat[i] = lon[ff], m.lat[ff]
    cen = np.array([m.xyz[f].mean(axis=0) for f in m.faces])
    cen /= np.linalg.norm(cen, axis=1, keepdims=True)
    ds = xr.Dataset()
    ds["grid_corner_lon"] = xr.DataArray(clon, dims=["grid_size", "grid_corners"], attrs=dict(units="degrees"))
    ds["grid_corner_lat"] = xr.DataArray(clat, dims=["grid_size", "grid_corners"], attrs=dict(units="degrees"))
    ds["grid_center_lon"] = xr.DataArray(np.degrees(np.arctan2(cen[:, 1], cen[:, 0])) % 360, dims=["grid_size"])
    ds["grid_center_lat"] = xr.DataArray(np.degrees(np.arcsin(cen[:, 2])), dims=["grid_size"])
    ds["grid_area"] = xr.DataArray(np.ones(m.n_face), dims=["grid_size"])
    ds["grid_imask"] = xr.DataArray(np.ones(m.n_face, dtype=np.int32), dims=["grid_size"])
    ds["grid_dims"] = xr.DataArray(np.array([1], dtype=np.int32), dims=["grid_rank"])
    ds.attrs = dict(title="scrip")
    return ds


def esmf_ds(m, idt=np.int32):
    import xarray as xr

    w = m.width
    c = np.full((m.n_face, w), -1, dtype=idt)
    for i, f in enumerate(m.faces):
        c[i, : len(f)] = np.asarray(f) + 1
    ds = xr.Dataset()
    ds["nodeCoords"] = xr.DataArray(np.stack([m.lon % 360, m.lat], axis=1), dims=["nodeCount", "coordDim"], attrs=dict(units="degrees"))
    ds["elementConn"] = xr.DataArray(c, dims=["elementCount", "maxNodePElement"], attrs=dict(long_name="conn", _FillValue=idt(-1)))
    ds["numElementConn"] = xr.DataArray(np.array(m.sizes(), dtype=idt if idt is np.int64 else np.int8), dims=["elementCount"])
    ds.attrs = dict(gridType="unstructured")
    return ds


def internal_ds(m, wrap):
    """a dataset already in uxarray's internal layout (for `from_dataset(ds, source_grid_spec=…)` / `Grid(ds, …)`)"""
    import xarray as xr

    ds = xr.Dataset()
    ds["node_lon"] = xr.DataArray(lon360(m) if wrap else m.lon.copy(), dims=["n_node"], attrs=dict(units="degrees_east"))
    ds["node_lat"] = xr.DataArray(m.lat.copy(), dims=["n_node"], attrs=dict(units="degrees_north"))
    ds["face_node_connectivity"] = xr.DataArray(m.table(), dims=["n_face", "n_max_face_nodes"],
                                                attrs=dict(cf_role="face_node_connectivity", _FillValue=INT_FILL, start_index=0))
    ds.attrs = dict(title="internal layout")
    return ds


# --------------------------------------------------------------------------------------
# constructors
# --------------------------------------------------------------------------------------

# model build kinds: 0 arrays, 1 dataset through a reader, 2 adopted dataset, 3 face vertices
CTOR_SPECS = []
for _dt, _fill, _start in [("int64", INT_FILL, 0), ("int64", INT_FILL, 1), ("int64", -1, 0), ("int64", -1, 1),
                           ("int64", 999999, 1), ("int32", -1, 1), ("int32", -1, 0), ("float64", "nan", 1), ("int64", None, 1)]:
    for _coords in ("ndarray", "list", "float32", "DataArray"):
        for _wrap in (False, True):
            CTOR_SPECS.append(dict(ctor="from_topology", dtype=_dt, fill=_fill, start=_start, coords=_coords, wrap=_wrap))
CTOR_SPECS += [dict(ctor="from_topology", dtype="int64", fill=-1, start=1, coords="ndarray", wrap=False, via="open_grid(dict)"),
               dict(ctor="from_topology", dtype="int64", fill=INT_FILL, start=0, coords="ndarray", wrap=False, extra="edge_node_connectivity", estart=0),
               dict(ctor="from_topology", dtype="int64", fill=-1, start=1, coords="ndarray", wrap=False, extra="edge_node_connectivity", estart=1),
               dict(ctor="from_topology", dtype="int64", fill=INT_FILL, start=0, coords="ndarray", wrap=False, extra="xyz")]
for _cont in ("list", "tuple", "ndarray"):
    for _latlon in (True, False):
        for _single in (False, True):
            CTOR_SPECS.append(dict(ctor="from_face_vertices", container=_cont, latlon=_latlon, single=_single))
CTOR_SPECS.append(dict(ctor="from_face_vertices", container="list", latlon=True, single=False, via="open_grid(list)"))
for _api in ("from_dataset", "open_grid"):
    # dtype × fill × start_index is a PRODUCT for every connectivity variable the dataset carries: variable k of
    # spec i gets combination (i + shift_k) mod 36, so each variable sees all 36 combinations once per API
    for _i, _combo in enumerate(UGRID_COMBOS):
        _conns = {"face_node_connectivity": list(_combo)}
        for _k, _n in enumerate(["edge_node_connectivity", "face_edge_connectivity", "edge_face_connectivity", "node_face_connectivity"]):
            _c = UGRID_COMBOS[(_i + 7 * (_k + 1)) % len(UGRID_COMBOS)]
            # combinations that cannot be written down for this variable: a fill value outside the dtype's range,
            # an integer table that is padded (even on uniform meshes) but has no fill value
            if _c[0] != "float64" and _c[1] is not None and not (np.iinfo(_c[0]).min <= _c[1] <= np.iinfo(_c[0]).max):
                continue
            if _c[1] is None and _n in ("edge_face_connectivity", "node_face_connectivity") and _c[0] != "float64":
                continue
            _conns[_n] = list(_c)
        if _combo[0] != "float64" and _combo[1] is not None and not (np.iinfo(_combo[0]).min <= _combo[1] <= np.iinfo(_combo[0]).max):
            # not encodable for face_node either: keep the spec (the other tables still need their combination)
            _conns["face_node_connectivity"] = ["int64", -1, 1]
            CTOR_SPECS.append(dict(ctor="dataset", dialect="UGRID", api=_api, conns=_conns, wrap=(_i % 3 == 0)))
            continue
        CTOR_SPECS.append(dict(ctor="dataset", dialect="UGRID", api=_api, conns=_conns, wrap=(_i % 3 == 0)))
        CTOR_SPECS.append(dict(ctor="dataset", dialect="UGRID", api=_api, conns={"face_node_connectivity": list(_combo)}, wrap=(_i % 3 == 1)))
    for _d in ("MPAS", "MPAS-dual", "Exodus", "ESMF"):
        for _idt in ("int32", "int64"):
            CTOR_SPECS.append(dict(ctor="dataset", dialect=_d, api=_api, dtype=_idt))
    CTOR_SPECS.append(dict(ctor="dataset", dialect="SCRIP", api=_api))
for _api in ("from_dataset:source_grid_spec", "Grid.__init__"):
    for _wrap in (False, True):
        CTOR_SPECS.append(dict(ctor="adopt", api=_api, wrap=_wrap))


def ctor_name(spec):
    if spec["ctor"] == "dataset":
        return f"{spec['api']}:{spec['dialect']}"
    if spec["ctor"] == "adopt":
        return spec["api"]
    return spec.get("via", spec["ctor"])


def make_inputs(m, spec):
    """returns (named inputs: list of (name, object)), call: () -> Grid"""
    import uxarray as ux
    import xarray as xr

    c = spec["ctor"]
    if c == "from_topology":
        fill, start, dtype = spec["fill"], spec["start"], spec["dtype"]
        mm = m
        if fill is None:
            k = min(m.sizes())
            mm = meshes.AMesh([f[:k] for f in m.faces], m.xyz, False, m.kind + "+uniform")
            t, fv = mm.table(start=start), None
        elif fill == "nan":
            t = mm.table(fill=-7, start=start).astype(float)
            t[t == -7] = np.nan
            fv = np.nan
        else:
            t, fv = mm.table(fill=fill, dtype=np.dtype(dtype), start=start), fill
        lon = lon360(mm) if spec["wrap"] else mm.lon.copy()
        lat = mm.lat.copy()
        if spec["coords"] == "list":
            lon, lat = lon.tolist(), lat.tolist()
        elif spec["coords"] == "float32":
            lon, lat = lon.astype(np.float32), lat.astype(np.float32)
        elif spec["coords"] == "DataArray":
            lon = xr.DataArray(lon, dims=["n_node"], attrs=dict(units="degrees_east", note="caller's"))
            lat = xr.DataArray(lat, dims=["n_node"], attrs=dict(units="degrees_north"))
        named = [("node_lon", lon), ("node_lat", lat), ("face_node_connectivity", t)]
        kw = {}
        if spec.get("extra") == "edge_node_connectivity":
            g0 = meshes.to_grid(mm, ux)
            e = np.array(g0.edge_node_connectivity.values, dtype=np.int64) + spec["estart"]
            named.append(("edge_node_connectivity", e))
            kw["edge_node_connectivity"] = e
            if spec["estart"]:
                # one start index for every table of the call
                pass
        if spec.get("extra") == "xyz":
            for i, n in enumerate(("node_x", "node_y", "node_z")):
                a = mm.xyz[:, i] * 2.0
                named.append((n, a))
                kw[n] = a
        if spec.get("via") == "open_grid(dict)":
            d = dict(node_lon=lon, node_lat=lat, face_node_connectivity=t, fill_value=fv, start_index=start)
            named.append(("dict", d))
            return named, lambda: ux.open_grid(d)
        return named, lambda: ux.Grid.from_topology(node_lon=lon, node_lat=lat, face_node_connectivity=t,
                                                    fill_value=fv, start_index=start, **kw)
    if c == "from_face_vertices":
        k = min(m.sizes())
        faces = [f[:k] for f in m.faces]
        if spec["single"]:
            faces = faces[:1]
        if spec["latlon"]:
            v = np.array([[[m.lon[i], m.lat[i]] for i in f] for f in faces])
        else:
            v = np.array([[m.xyz[i] for i in f] for f in faces])
        if spec["single"]:
            v = v[0]
        if spec["container"] == "list":
            v = v.tolist()
        elif spec["container"] == "tuple":
            v = tuple(tuple(tuple(p) for p in f) for f in v.tolist()) if not spec["single"] else tuple(tuple(p) for p in v.tolist())
        if spec.get("via") == "open_grid(list)":
            return [("face_vertices", v)], lambda: ux.open_grid(v, latlon=True)
        return [("face_vertices", v)], lambda: ux.Grid.from_face_vertices(v, latlon=spec["latlon"])
    if c == "dataset":
        d = spec["dialect"]
        if d == "UGRID":
            ds = ugrid_ds(m, ugrid_conns_of(spec), spec["wrap"])
        elif d in ("MPAS", "MPAS-dual"):
            ds = mpas_ds(m, np.dtype(spec.get("dtype", "int32")).type)
        elif d == "Exodus":
            ds = exodus_ds(m, np.dtype(spec.get("dtype", "int32")).type)
        elif d == "SCRIP":
            k = min(m.sizes())
            ds = scrip_ds(meshes.AMesh([f[:k] for f in m.faces], m.xyz, False, m.kind))
        else:
            ds = esmf_ds(m, np.dtype(spec.get("dtype", "int32")).type)
        dual = d == "MPAS-dual"
        if spec["api"] == "open_grid":
            return [("dataset", ds)], lambda: ux.open_grid(ds, use_dual=dual)
        return [("dataset", ds)], lambda: ux.Grid.from_dataset(ds, use_dual=dual)
    if c == "adopt":
        ds = internal_ds(m, spec["wrap"])
        if spec["api"] == "Grid.__init__":
            return [("dataset", ds)], lambda: ux.Grid(ds, source_grid_spec="UGRID")
        return [("dataset", ds)], lambda: ux.Grid.from_dataset(ds, source_grid_spec="UGRID")
    raise ValueError(c)


def model_build_args(spec):
    """(kind, flags) of the abstract scenario in the Lean model"""
    c = spec["ctor"]
    if c == "from_topology":
        inplace = spec["dtype"] == "int64" and spec["fill"] is not None and (spec["fill"] != INT_FILL or spec["start"] != 0)
        return 0, (1 if inplace else 0) + (2 if spec["wrap"] else 0)
    if c == "from_face_vertices":
        return 3, 0
    if c == "dataset":
        if spec["dialect"] == "UGRID":
            # the as-is code standardised int64 tables in place (non-standard fill, or a start index to subtract)
            inplace = any(d == "int64" and (f != INT_FILL or st != 0) for d, f, st in ugrid_conns_of(spec).values())
            return 1, (1 if inplace else 0) + (2 if spec["wrap"] else 0) + 4
        return 1, 0
    return 2, (2 if spec["wrap"] else 0)


# --------------------------------------------------------------------------------------
# mutators (public API) on a grid; edits on an export
# --------------------------------------------------------------------------------------

DERIVE = ["edge_node_connectivity", "face_edge_connectivity", "node_x", "face_lon", "edge_lon", "n_nodes_per_face",
          "node_face_connectivity", "edge_face_connectivity", "face_face_connectivity", "edge_node_distances",
          "face_x", "edge_x", "hole_edge_indices"]
DERIVE_SLOW = ["face_areas", "edge_face_distances"]
# model Mut kinds: 0 setVar, 1 writeVar, 2 rebind, 3 varAttr, 4 dsAttr, 5 delVar, 6 writeRoot
MUT_MODEL = dict(derive=0, setter=0, face_centers=0, chunk=0, write=1, normalize=2, attr=3, gattr=4)


TREE_KINDS = ["nodes", "face centers", "edge centers"]
# calls that fill (or switch in place) the lazily built helper objects cached on a grid
CACHE_OPS = ([("tree", f"{t}:{k}") for t in ("ball", "kd") for k in TREE_KINDS]
             + [("subset", f"{q}:{k}") for q in ("nn", "circle") for k in TREE_KINDS]
             + [("geo", "gdf"), ("geo", "poly"), ("geo", "line"), ("remap", "")])
CACHE_KEY = dict(ball=5, kd=6, gdf=7, line=2, poly=3)
CACHE_ATTR = dict(ball="_ball_tree", kd="_kd_tree")


def model_kind(g, kind, name):
    """(model mutation kind, model variable / cache key) of a public call, decided BEFORE the call"""
    if kind == "tree":
        t = name.split(":")[0]
        return (7 if vars(g).get(CACHE_ATTR[t]) is None else 8), CACHE_KEY[t]
    if kind in ("subset", "remap"):
        return (7 if vars(g).get("_ball_tree") is None else 8), CACHE_KEY["ball"]
    if kind == "geo":
        return 7, CACHE_KEY[name]
    return MUT_MODEL[kind], var_id(name)


def grid_mutators(g, rng, thorough):
    """the mutators applicable to the grid in its present state, as (kind, name) pairs"""
    present = sorted(g.coordinates | g.connectivity | g.descriptors)
    out = []
    for n in DERIVE + (DERIVE_SLOW if thorough else []):
        if n not in present:
            out.append(("derive", n))
    for n in present:
        out += [("write", n), ("attr", n)]
    for n in ("node_lon", "node_lat", "face_lon", "node_x"):
        if n in present:
            out.append(("setter", n))
    out += [("gattr", ""), ("face_centers", "cartesian average"), ("normalize", "")]
    out += CACHE_OPS
    if thorough:
        out += [("face_centers", "welzl"), ("chunk", "")]
    return out


def apply_grid_mut(g, kind, name, step):
    import xarray as xr

    if kind == "derive":
        getattr(g, name)
    elif kind == "write":
        da = getattr(g, name)
        v = da.variable._data
        if not isinstance(v, np.ndarray) or v.size == 0:
            return False
        flat = v.reshape(-1) if v.flags["C_CONTIGUOUS"] else None
        idx = step % v.size
        if flat is None or not np.shares_memory(flat, v):
            it = np.unravel_index(idx, v.shape)
            if v.dtype.kind == "f":
                v[it] = v[it] + 0.25 if v[it] <= 0 else v[it] - 0.25
            elif v.dtype.kind in "iu":
                v[it] = v[it] + 1 if v[it] != INT_FILL else 0
            else:
                return False
        elif v.dtype.kind == "f":
            # stay inside every coordinate's range (a longitude above 180 would be re-wrapped by the next getter)
            flat[idx] = flat[idx] + 0.25 if flat[idx] <= 0 else flat[idx] - 0.25
        elif v.dtype.kind in "iu":
            flat[idx] = flat[idx] + 1 if flat[idx] != INT_FILL else 0
        else:
            return False
    elif kind == "attr":
        getattr(g, name).attrs["c19_edit"] = int(step)
    elif kind == "gattr":
        g.attrs["c19_edit"] = int(step)
    elif kind == "setter":
        old = getattr(g, name)
        vals = np.asarray(old.values) * 1.0
        vals = np.where(vals <= 0, vals + 0.125, vals - 0.125)  # stays inside the coordinate's range
        new = xr.DataArray(vals, dims=old.dims, attrs=dict(old.attrs))
        setattr(g, name, new)
    elif kind == "face_centers":
        g.construct_face_centers(method=name)
    elif kind == "normalize":
        if "node_x" in g.coordinates:
            r = np.sqrt(np.asarray(g.node_x.values) ** 2 + np.asarray(g.node_y.values) ** 2 + np.asarray(g.node_z.values) ** 2)
            if np.allclose(r, 1.0):
                # make the call do something: scale the stored Cartesian coordinates first (public setters)
                for c in ("node_x", "node_y", "node_z"):
                    old = getattr(g, c)
                    setattr(g, c, xr.DataArray(np.asarray(old.values) * 3.0, dims=old.dims, attrs=dict(old.attrs)))
        g.normalize_cartesian_coordinates()
    elif kind == "chunk":
        g.chunk(n_node=2, n_edge=2, n_face=2)
    elif kind == "tree":
        t, k = name.split(":")
        return (g.get_ball_tree(coordinates=k) if t == "ball" else g.get_kd_tree(coordinates=k)) is not None
    elif kind == "subset":
        q, k = name.split(":")
        pt = (float(g.node_lon.values[step % g.n_node]), float(g.node_lat.values[step % g.n_node]))
        if q == "nn":
            g.subset.nearest_neighbor(pt, k=2, element=k)
        else:
            g.subset.bounding_circle(pt, 60.0, element=k)
    elif kind == "geo":
        dict(gdf=g.to_geodataframe, poly=g.to_polycollection, line=g.to_linecollection)[name]()
    elif kind == "remap":
        import uxarray as ux

        dest = ux.Grid.from_topology(node_lon=np.asarray(g.node_lon.values) * 1.0, node_lat=np.asarray(g.node_lat.values) * 1.0,
                                     face_node_connectivity=np.array(g.face_node_connectivity.values), fill_value=INT_FILL)
        da = ux.UxDataArray(np.arange(g.n_node, dtype=float), dims=["n_node"], uxgrid=g, name="c19_src")
        da.remap.nearest_neighbor(dest, remap_to="nodes")
    else:
        raise ValueError(kind)
    return True


def export_edits(e):
    import xarray as xr

    if isinstance(e, xr.Dataset):
        names = [str(k) for k in e.variables]
        out = [("addvar", ""), ("dsattr", "")]
        for n in names:
            out += [("write", n), ("varattr", n)]
        out += [("delvar", n) for n in names[:2]]
        return out
    if type(e).__name__ == "GeoDataFrame":
        return [("addcolumn", ""), ("droprow", "")]
    return [("linewidth", ""), ("setarray", "")]


EDIT_MODEL = dict(addvar=0, write=1, varattr=3, dsattr=4, delvar=5, addcolumn=6, droprow=6, linewidth=6, setarray=6)


def apply_export_edit(e, kind, name, step):
    import xarray as xr

    if kind == "addvar":
        e["c19_new_%d" % step] = xr.DataArray(np.arange(3.0), dims=["c19_dim"])
    elif kind == "dsattr":
        e.attrs["c19_edit"] = int(step)
    elif kind == "write":
        v = e[name].variable._data
        if not isinstance(v, np.ndarray) or v.size == 0 or v.dtype.kind not in "fiu" or not v.flags.writeable:
            return False
        it = np.unravel_index(step % v.size, v.shape) if v.ndim else ()
        v[it] = v[it] + 1 if (v.dtype.kind == "f" or v[it] != INT_FILL) else 0
    elif kind == "varattr":
        e[name].attrs["c19_edit"] = int(step)
    elif kind == "delvar":
        if name not in e.variables:
            return False
        del e[name]
    elif kind == "addcolumn":
        e["c19_col_%d" % step] = np.arange(len(e), dtype=float)
    elif kind == "droprow":
        if len(e) < 2:
            return False
        e.drop(e.index[0], inplace=True)
    elif kind == "linewidth":
        e.set_linewidth(7.0 + step)
    elif kind == "setarray":
        e.set_array(np.arange(len(e.get_paths()), dtype=float) + step)
    else:
        raise ValueError(kind)
    return True


VAR_IDS = {}


def var_id(name):
    base = {"node_lon": 0, "node_lat": 1, "face_node_connectivity": 2}
    if name in base:
        return base[name]
    if name not in VAR_IDS:
        VAR_IDS[name] = 10 + len(VAR_IDS)
    return VAR_IDS[name]


# --------------------------------------------------------------------------------------
# the three scenario families
# --------------------------------------------------------------------------------------


def model_run(ctx, as_is, kind, flags, copy_api, export_api, prog, pre=()):
    toks = [1 if as_is else 0, kind, flags, copy_api, export_api, len(pre)]
    for s, k, v in pre:
        toks += [s, k, v]
    toks.append(len(prog))
    for s, k, v in prog:
        toks += [s, k, v]
    t = common.Tok(ctx.driver.ask("C19.model", *toks))
    ro = t.ints()
    jc, je, _fe, wf = t.int(), t.int(), t.int(), t.int()
    steps = []
    while not t.done():
        steps.append(t.ints())
    if wf != 1:
        raise RuntimeError("model heap is not well formed")
    return dict(readonly=ro, copy=jc, export=je, steps=steps)


def describe_cell(G, x):
    return G.kind[x] if x is not None and x < len(G.kind) else "?"


def scenario_build(ctx, m, spec, history=None, tag="gen"):
    """construct_readonly: nothing an input reaches is modified by building (and by using) the grid"""
    rng = ctx.rng
    name = ctor_name(spec)
    inp = dict(family="build", mesh=mesh_in(m), spec=spec)
    try:
        named, call = make_inputs(m, spec)
    except Exception as e:
        ctx.hit(f"build:{name}:inputs-unavailable:{type(e).__name__}")
        return
    G = Graph()
    roots = [(n, G.register(o)) for n, o in named]
    before_content = [deep_snap(o) for _, o in named]
    H0 = G.snapshot()
    try:
        g = call()
    except Exception as e:
        ctx.hit(f"build:{name}:rejects:{type(e).__name__}")
        ctx.case(("build", name, str(spec), m.key()), nontrivial=False)
        return
    rg = G.register(g)
    H1 = G.snapshot()
    kind, flags = model_build_args(spec)
    pred = model_run(ctx, False, kind, flags, -1, -1, [])
    pred_asis = model_run(ctx, True, kind, flags, -1, -1, [])
    ctx.case(("build", str(sorted(spec.items(), key=str)), m.key()), nontrivial=True,
             sample=dict(inp, mesh=m.describe()) if m.n_face <= 3 else None)
    ctx.hit(f"build:{name}")
    container = spec.get("coords") or spec.get("container") or "Dataset"
    ctx.hit(f"container:{container}")
    written = []
    for (n, r), b, (_, o) in zip(roots, before_content, named):
        v, x, p = lean_frame(ctx, H0, H1, r)
        content_changed = snap_diff(b, deep_snap(o))
        if v == "changed" or content_changed:
            written.append(dict(input=n, cell=describe_cell(G, x), path=path_str(p) if p is not None else None,
                                content_diff=content_changed))
    expected_model = any(c == 1 for c in pred["readonly"])
    if written:
        what_in = "input-dataset-written" if spec["ctor"] in ("dataset", "adopt") else "input-array-written"
        if spec["ctor"] == "adopt":
            sig = f"C19/build/{name}/input-dataset-adopted"
        else:
            sig = f"C19/build/{name}/{what_in}"
        ctx.fail(sig, f"{name} modifies what it is built from: " + "; ".join(
            f"{w['input']}{w['path'] or ''} ({w['cell']}) {w['content_diff']}" for w in written),
            inp, dict(written=written), dict(repaired_model=pred["readonly"], as_is_model=pred_asis["readonly"]),
            ["construct_readonly"])
        return
    if expected_model:
        ctx.notes.append(f"model predicts an input write for {name} {spec} but the code no longer does it")
    if spec["ctor"] == "dataset" and spec["dialect"] == "UGRID":
        seen = ctx.extra.setdefault("ugrid_combinations_built", {})
        for var, (d, f, st) in ugrid_conns_of(spec).items():
            ctx.hit(f"ugrid:dtype={d}")
            ctx.hit(f"ugrid:fill={'INT_FILL' if f == INT_FILL else f}")
            ctx.hit(f"ugrid:start={st}")
            seen.setdefault(var, [])
            if [d, f, st] not in seen[var]:
                seen[var].append([d, f, st])
    # a second grid from the same source must report what the first one reports
    obs1 = pub_obs(g)
    try:
        g2 = call()
    except Exception as e:
        g2 = None
        ctx.fail(f"C19/build/{name}/second-build-raises", f"{name}: building a second grid from the same source raises {type(e).__name__}: {e}",
                 inp, dict(error=str(e)), None, ["construct_readonly"])
    if g2 is not None:
        H1b = G.snapshot()
        second_written = []
        for (n, r), b, (_, o) in zip(roots, before_content, named):
            v, x, p = lean_frame(ctx, H1, H1b, r)
            cd = snap_diff(b, deep_snap(o))
            if v == "changed" or cd:
                second_written.append(dict(input=n, cell=describe_cell(G, x), content_diff=cd))
        od = obs_diff(obs1, pub_obs(g2))
        if second_written or od:
            sig = (f"C19/build/{name}/input-dataset-adopted" if spec["ctor"] == "adopt" else f"C19/build/{name}/second-grid-differs")
            ctx.fail(sig, f"{name}: a second grid built from the same source differs from the first in {od}; inputs written by the second build: {second_written}",
                     inp, dict(observation_differs=od, written=second_written), None, ["construct_readonly"])
            return
        ctx.hit("second-build-agrees")
        H1 = H1b
    # the caller goes on editing HIS dataset (new variable, attribute, deletion): the grid reports what it reported
    import xarray as xr

    for n, o in named:
        if isinstance(o, xr.Dataset) and history is None:
            before_edit = pub_obs(g)
            try:
                o.attrs["c19_caller_edit"] = 1
                o["c19_caller_var"] = xr.DataArray(np.arange(2.0), dims=["c19_dim"])
                first = [k for k in o.data_vars if k != "c19_caller_var"][0]
                o[first].attrs["c19_caller_edit"] = 1
                del o[first]
            except Exception as e:
                ctx.hit(f"caller-edit-raises:{type(e).__name__}")
            od = obs_diff(before_edit, pub_obs(g))
            if od:
                sig = f"C19/build/{name}/input-dataset-adopted" if spec["ctor"] == "adopt" else f"C19/build/{name}/grid-follows-input-edit"
                ctx.fail(sig, f"{name}: after the caller adds / deletes variables and attributes in the dataset the grid was built from, the grid reports something else for {od}",
                         inp, dict(observation_differs=od), dict(repaired_model=pred["readonly"]), ["construct_readonly"])
                return
            ctx.hit("caller-edit-of-input-not-seen-by-grid")
            H1 = G.snapshot()
    # later use of the grid (lazy derivation, setters, normalisation) must not reach the inputs either
    H = H1
    obs_inputs = [deep_snap(o) for _, o in named]
    hist = []
    for step in range(len(history) if history is not None else ctx.n(3, 6)):
        if history is not None:
            k, nm = history[step]
        elif step == 0 and "node_x" in g.coordinates:
            # Cartesian coordinates that came straight from the input (zero-copy): normalising must not write into them
            k, nm = "normalize", ""
        else:
            # operations the LIBRARY performs on the grid's own state; a caller writing values in place
            # through a zero-copy view of his own input array is not the grid modifying its input
            k, nm = rng.choice([x for x in grid_mutators(g, rng, ctx.thorough) if x[0] not in ("write", "attr", "gattr")])
        try:
            if not apply_grid_mut(g, k, nm, step):
                continue
        except Exception as e:
            ctx.hit(f"mutator-raises:{k}:{type(e).__name__}")
            H = G.snapshot()
            obs_inputs = [deep_snap(o) for _, o in named]
            continue
        hist.append([k, nm])
        ctx.hit(f"use-after-build:{k}")
        H2 = G.snapshot()
        for (n, r), b, (_, o) in zip(roots, obs_inputs, named):
            v, x, p = lean_frame(ctx, H, H2, r)
            cd = snap_diff(b, deep_snap(o))
            if v == "changed" or cd:
                sig = f"C19/build/{name}/input-dataset-adopted" if spec["ctor"] == "adopt" else f"C19/build/{name}/input-modified-by-grid-use"
                ctx.fail(sig, f"after {name}, {k}({nm}) on the grid modifies the input {n}{path_str(p) if p is not None else ''} "
                         f"({describe_cell(G, x)}) {cd}", dict(inp, history=hist), dict(step=[k, nm], input=n, content_diff=cd),
                         dict(repaired_model=pred["readonly"]), ["input_untouched_by_grid_use"])
                return
        H = H2


def build_base_grid(m, rng, source):
    """a grid with some state already materialised"""
    import uxarray as ux

    if source == "dataset":
        g = ux.open_grid(ugrid_ds(m, {"face_node_connectivity": ("int32", -1, 1)}, False))
    elif source == "mpas":
        g = ux.open_grid(mpas_ds(m))
    else:
        g = meshes.to_grid(m, ux)
    return g


def warm(g, rng, names):
    """materialise state before the copy / export: a name derives a variable, a [kind, name] pair fills a cache"""
    done, pre = [], []
    for i, n in enumerate(names):
        try:
            if isinstance(n, str):
                mk = (0, var_id(n))
                getattr(g, n)
            else:
                mk = model_kind(g, n[0], n[1])
                apply_grid_mut(g, n[0], n[1], i)
            done.append(n)
            pre.append((0,) + tuple(mk))
        except Exception:
            pass
    return done, pre


def identity_audit(a, b, path="", depth=0):
    """attributes of two grids that ARE the same mutable object (dicts are searched recursively)"""
    out = []
    da, db = (a if isinstance(a, dict) else vars(a)), (b if isinstance(b, dict) else vars(b))
    for k in da:
        if k not in db:
            continue
        x, y = da[k], db[k]
        if _is_imm(x):
            continue
        if x is y:
            out.append(f"{path}/{k}:{type(x).__name__}")
        elif isinstance(x, dict) and isinstance(y, dict) and depth < 4:
            out += identity_audit(x, y, f"{path}/{k}", depth + 1)
    return out


COPY_APIS = ["Grid.copy", "UxDataArray.copy(deep=True)", "copy.deepcopy"]


def make_copy(g, api, m):
    import uxarray as ux

    if api == "Grid.copy":
        return g.copy(), None
    if api == "UxDataArray.copy(deep=True)":
        da = ux.UxDataArray(np.arange(m.n_face, dtype=float), dims=["n_face"], uxgrid=g, name="v")
        c = da.copy(deep=True)
        return c.uxgrid, (da, c)
    return pycopy.deepcopy(g), None


def scenario_copy(ctx, m, api, source, warm_names, history=None, tag="gen"):
    """copy_disjoint + copy_independent on an interleaved history of public mutators"""
    rng = ctx.rng
    inp = dict(family="copy", mesh=mesh_in(m), api=api, source=source, warm=list(warm_names))
    g = build_base_grid(m, rng, source)
    done, pre = warm(g, rng, warm_names)
    for n in done:
        if not isinstance(n, str):
            ctx.hit(f"cache-before-copy:{n[0]}")
    try:
        c, keep = make_copy(g, api, m)
    except Exception as e:
        ctx.hit(f"copy:{api}:raises:{type(e).__name__}")
        return
    G = Graph()
    rg, rc = G.register(g), G.register(c)
    H = G.snapshot()
    v, x, pa, pb = lean_judge(ctx, H, rg, rc)
    api_code = COPY_APIS.index(api)
    ctx.hit(f"copy:{api}")
    ctx.hit(f"copy-source:{source}")
    # identity audit: no mutable attribute of the copy IS the original's object
    same = identity_audit(g, c)
    if same and v == "sep":
        ctx.mismatch("C19/graph-misses-identical-attribute", dict(inp, history=[]), dict(identical=same), dict(judge="sep"))
    ctx.hit("identity-audit:clean" if not same else "identity-audit:shared")
    # the copy reports what the original reports
    og, oc = pub_obs(g), pub_obs(c)
    shared_kind = None
    if v == "shared":
        shared_kind = describe_cell(G, x)
        sig = f"C19/copy/{api}/shared-{shared_kind}"
        ctx.fail(sig, f"{api}: the copy and the original share the {shared_kind} at {path_str(pa)} (original) = {path_str(pb)} (copy)",
                 dict(inp, history=[]), dict(shared=shared_kind, path_original=path_str(pa), path_copy=path_str(pb), identical_attributes=same),
                 dict(repaired_model=["sep", "shared", "unknown"][model_run(ctx, False, 0, 0, api_code, -1, [], pre)["copy"]],
                      as_is_model=["sep", "shared", "unknown"][model_run(ctx, True, 0, 0, api_code, -1, [], pre)["copy"]]),
                 ["copy_disjoint"])
    if obs_diff(og, oc):
        ctx.fail(f"C19/copy/{api}/copy-differs", f"{api}: the copy reports different values for {obs_diff(og, oc)}",
                 dict(inp, history=[]), dict(differs=obs_diff(og, oc)), None, ["copy_equal"])
    # interleaved history
    steps = history if history is not None else None
    n_steps = len(steps) if steps is not None else ctx.n(8, 16)
    hist, prog = [], []
    sides = [g, c]
    roots = [rg, rc]
    for step in range(n_steps):
        if steps is not None:
            side, k, nm = steps[step]
        else:
            side = rng.randrange(2)
            k, nm = rng.choice(grid_mutators(sides[side], rng, ctx.thorough))
        other = 1 - side
        o_before = pub_obs(sides[other])
        H = G.snapshot()  # after the observation: whatever a getter does to its own grid is not this step's doing
        mk = model_kind(sides[side], k, nm)
        try:
            if not apply_grid_mut(sides[side], k, nm, step):
                continue
        except Exception as e:
            ctx.hit(f"mutator-raises:{k}:{type(e).__name__}")
            H = G.snapshot()
            continue
        hist.append([side, k, nm])
        prog.append((side,) + tuple(mk))
        ctx.hit(f"mut:{k}")
        H2 = G.snapshot()
        fv, fx, fp = lean_frame(ctx, H, H2, roots[other])
        od = obs_diff(o_before, pub_obs(sides[other]))
        own_changed = lean_frame(ctx, H, H2, roots[side])[0] == "changed"
        ctx.hit("step-effective" if own_changed else "step-noop")
        ctx.case(("copy-step", api, source, str(warm_names), m.key(), tuple(map(tuple, hist))), nontrivial=own_changed)
        if fv == "changed" or od:
            who = ["original", "copy"]
            cell = describe_cell(G, fx)
            sig = (f"C19/copy/{api}/shared-{shared_kind}" if shared_kind else f"C19/copy/{api}/not-independent/{k}")
            pm = model_run(ctx, False, 0, 0, api_code, -1, prog, pre)
            pa_ = model_run(ctx, True, 0, 0, api_code, -1, prog, pre)
            ctx.fail(sig, f"{api}: {k}({nm}) on the {who[side]} changes the {who[other]}: "
                     f"{('cell ' + cell + ' at ' + path_str(fp)) if fv == 'changed' else ''} public observation differs for {od}",
                     dict(inp, history=hist), dict(step=[side, k, nm], changed_cell=cell, observation_differs=od),
                     dict(repaired_model=pm["steps"][-1] if pm["steps"] else None, as_is_model=pa_["steps"][-1] if pa_["steps"] else None),
                     ["copy_independent"])
            return
        H = H2
    # the same abstract history in the Lean model: the code may alias no more than the model does
    pm = model_run(ctx, False, 0, 0, api_code, -1, prog, pre)
    model_other_changed = [i for i, (st, pr) in enumerate(zip(pm["steps"], prog)) if st[1 - pr[0]] == 1]
    if pm["copy"] == 0 and not model_other_changed:
        ctx.hit("model-agrees:copy-independent")
    else:
        ctx.notes.append(f"model predicts aliasing for {api} (copy verdict {pm['copy']}, steps {model_other_changed}) that the code does not show")
    # separation must survive the history as well (theorem copy_independent_interleaved)
    if v == "sep":
        v2, x2, pa2, pb2 = lean_judge(ctx, H, rg, rc)
        if v2 != "sep":
            ctx.fail(f"C19/copy/{api}/aliased-by-history", f"{api}: after the history the two grids share a {describe_cell(G, x2)}",
                     dict(inp, history=hist), dict(path_original=path_str(pa2), path_copy=path_str(pb2)), None, ["copy_independent"])


def tree_answers(g, pts, order):
    """what the grid's nearest-neighbour trees answer, kind by kind (the first entry without a switch of kind)"""
    out = []
    for t, k in order:
        try:
            tree = g.get_ball_tree(coordinates=k) if t == "ball" else g.get_kd_tree(coordinates=k)
            n = {"nodes": g.n_node, "face centers": g.n_face, "edge centers": g.n_edge}[k]
            kk = min(3, n)
            res = []
            for pt in pts:
                q = np.array([pt]) if t == "ball" else np.array([meshes._ll(*pt)])
                d, ind = tree.query(q, k=kk)
                res.append((np.round(np.asarray(d, dtype=float), 9).ravel().tolist(), np.asarray(ind).ravel().tolist()))
            out.append((t, k, res))
        except Exception as e:
            out.append((t, k, "raises " + type(e).__name__))
    return out


def scenario_copy_trees(ctx, m, api, source, direction, warm_ops=None, muts=None, tag="gen"):
    """caches built BEFORE the copy; one side is then mutated through public setters and tree switches; the OTHER
    side's trees (and tree objects obtained earlier) must answer like those of a twin grid built from the same input"""
    rng = ctx.rng
    if warm_ops is None:
        warm_ops = [list(x) for x in rng.sample([c for c in CACHE_OPS if c[0] != "geo"], rng.randint(1, 3))]
        if rng.random() < 0.4:
            warm_ops.append(list(rng.choice([c for c in CACHE_OPS if c[0] == "geo"])))
    inp = dict(family="copy-trees", mesh=mesh_in(m), api=api, source=source, direction=direction, warm=warm_ops)
    g, twin = build_base_grid(m, rng, source), build_base_grid(m, rng, source)
    done, pre = warm(g, rng, warm_ops)
    warm(twin, rng, done)
    held = {t: vars(g).get(a) for t, a in CACHE_ATTR.items()}  # tree objects a caller obtained from the original
    held_kind = {t: (o._coordinates if o is not None else None) for t, o in held.items()}
    try:
        c, keep = make_copy(g, api, m)
    except Exception as e:
        ctx.hit(f"copy:{api}:raises:{type(e).__name__}")
        return
    G = Graph()
    rg, rc = G.register(g), G.register(c)
    H = G.snapshot()
    v, x, pa, pb = lean_judge(ctx, H, rg, rc)
    same = identity_audit(g, c)
    api_code = COPY_APIS.index(api)
    ctx.hit(f"copy-trees:{api}:{direction}")
    for n in done:
        ctx.hit(f"cache-before-copy:{n[0]}")
    if same and v == "sep":
        ctx.mismatch("C19/graph-misses-identical-attribute", dict(inp, muts=[]), dict(identical=same), dict(judge="sep"))
    shared_kind = describe_cell(G, x) if v == "shared" else None
    if v == "shared":
        ctx.fail(f"C19/copy/{api}/shared-{shared_kind}",
                 f"{api}: the copy and the original share the {shared_kind} at {path_str(pa)} (original) = {path_str(pb)} (copy); identical attributes {same}",
                 dict(inp, muts=[]), dict(shared=shared_kind, path_original=path_str(pa), path_copy=path_str(pb), identical_attributes=same),
                 dict(repaired_model=["sep", "shared", "unknown"][model_run(ctx, False, 0, 0, api_code, -1, [], pre)["copy"]]),
                 ["copy_disjoint"])
    sides = dict(original=g, copy=c)
    mutated, untouched = (("original", "copy") if direction == "original->copy" else ("copy", "original"))
    M, U = sides[mutated], sides[untouched]
    if muts is None:
        menu = [("setter", "node_lon"), ("setter", "node_lat"), ("setter", "face_lon"), ("face_centers", "cartesian average"),
                ("derive", "face_lon"), ("derive", "edge_lon"), ("setter", "node_x")] + [c_ for c_ in CACHE_OPS if c_[0] == "tree"]
        muts = [list(rng.choice(menu)) for _ in range(ctx.n(4, 8))]
    applied = []
    o_before = pub_obs(U)
    H = G.snapshot()
    for step, (k, nm) in enumerate(muts):
        try:
            if k == "setter" and nm not in (M.coordinates | M.connectivity):
                getattr(M, nm)
            if apply_grid_mut(M, k, nm, step):
                applied.append([k, nm])
                ctx.hit(f"mut:{k}")
        except Exception as e:
            ctx.hit(f"mutator-raises:{k}:{type(e).__name__}")
    H2 = G.snapshot()
    ctx.case(("copy-trees", api, source, direction, str(done), m.key(), str(applied)), nontrivial=bool(applied) and bool(done))
    fv, fx, fp = lean_frame(ctx, H, H2, G.addr[id(U)])
    od = obs_diff(o_before, pub_obs(U))
    pts = [(float(m.lon[i % m.n_node]) * 0.9 + 1.0, float(m.lat[i % m.n_node]) * 0.9) for i in (0, 2, 3)]
    # the untouched side first WITHOUT a switch (the kind its tree — or the twin's — last answered for), then every kind
    order = [(t, held_kind[t]) for t in ("ball", "kd") if held_kind[t]] + [(t, k) for t in ("ball", "kd") for k in TREE_KINDS]
    got, want = tree_answers(U, pts, order), tree_answers(twin, pts, order)
    held_switched = [t for t, o in held.items() if untouched == "original" and o is not None and o._coordinates != held_kind[t]
                     and (t, o._coordinates) not in order[: order.index((t, held_kind[t])) + 1]]
    bad = []
    if fv == "changed":
        bad.append(f"cell {describe_cell(G, fx)} at {path_str(fp)} of the {untouched} changed")
    if od:
        bad.append(f"the {untouched}'s public observation differs for {od}")
    diff = [(t, k) for (t, k, a), (_, _, b) in zip(got, want) if a != b]
    if diff:
        bad.append(f"the {untouched}'s trees answer differently from a twin grid built from the same input for {diff}")
    if bad:
        sig = f"C19/copy/{api}/shared-{shared_kind}" if shared_kind else f"C19/copy/{api}/caches-not-independent"
        ctx.fail(sig, f"{api}: after {applied} on the {mutated}: " + "; ".join(bad), dict(inp, muts=applied),
                 dict(differs=diff, frame=fv, observation_differs=od), dict(repaired_model="independent (grid_copy_independent_caches)"),
                 ["copy_independent"])
    else:
        ctx.hit("trees-agree-with-twin")


EXPORT_APIS = {
    "to_xarray:ugrid": (0, lambda g: g.to_xarray("ugrid")),
    "encode_as:UGRID": (0, lambda g: g.encode_as("UGRID")),
    "to_xarray:exodus": (1, lambda g: g.to_xarray("exodus")),
    "encode_as:Exodus": (1, lambda g: g.encode_as("Exodus")),
    "to_xarray:scrip": (2, lambda g: g.to_xarray("scrip")),
    "encode_as:SCRIP": (2, lambda g: g.encode_as("SCRIP")),
    "to_geodataframe": (3, lambda g: g.to_geodataframe()),
    "to_geodataframe:cache=False": (4, lambda g: g.to_geodataframe(cache=False)),
    "to_polycollection": (5, lambda g: g.to_polycollection()),
    "to_linecollection": (6, lambda g: g.to_linecollection()),
}
CACHED = {"to_geodataframe", "to_linecollection"}


def scenario_export(ctx, m, api, source, second_call, uxda_flow=False, edits=None, tag="gen"):
    """export_disjoint + export_independent: caller edits of an export never reach the grid"""
    import uxarray as ux

    rng = ctx.rng
    inp = dict(family="export", mesh=mesh_in(m), api=api, source=source, second_call=second_call, uxda_flow=uxda_flow)
    code, call = EXPORT_APIS[api]
    if code == 2:  # SCRIP needs faces of one size (mixed sizes: C07's finding)
        k = min(m.sizes())
        m = meshes.AMesh([f[:k] for f in m.faces], m.xyz, False, m.kind + "+uniform")
        inp["mesh"] = mesh_in(m)
    g = build_base_grid(m, rng, source)
    try:
        if second_call:
            call(g)
        e = call(g)
    except Exception as ex:
        ctx.hit(f"export:{api}:raises:{type(ex).__name__}")
        return
    G = Graph()
    rg, re_ = G.register(g), G.register(e)
    H = G.snapshot()
    v, x, pa, pb = lean_judge(ctx, H, rg, re_)
    ctx.hit(f"export:{api}" + (":second-call" if second_call else ""))
    first = deep_snap(e)
    kind_flags = (1, 4) if source == "dataset" else (0, 0)
    pm = model_run(ctx, False, kind_flags[0], kind_flags[1], -1, code, [])
    pa_m = model_run(ctx, True, kind_flags[0], kind_flags[1], -1, code, [])
    shared_kind = None
    if v == "shared":
        shared_kind = describe_cell(G, x)
        if api in CACHED:
            sig = f"C19/export/{api}/cached-object-returned"
        elif shared_kind == "dataset":
            sig = f"C19/export/{api}/internal-dataset-returned"
        else:
            sig = f"C19/export/{api}/shares-{shared_kind}"
        ctx.fail(sig, f"{api}: the returned object and the grid share the {shared_kind} at {path_str(pa)} (grid) = {path_str(pb)} (export)",
                 dict(inp, edits=[]), dict(shared=shared_kind, path_grid=path_str(pa), path_export=path_str(pb)),
                 dict(repaired_model=["sep", "shared", "unknown"][pm["export"]], as_is_model=["sep", "shared", "unknown"][pa_m["export"]]),
                 ["export_disjoint"])
    elif pm["export"] == 1:
        ctx.notes.append(f"model (known finding) predicts sharing for {api} but the code returns a separated object")
    hist = []
    plan = edits
    n_steps = len(plan) if plan is not None else ctx.n(4, 8)
    if uxda_flow:
        n_steps = 1
    for step in range(n_steps):
        o_before = pub_obs(g)
        e_before = deep_snap(e)
        H = G.snapshot()
        try:
            if uxda_flow:
                # the library itself edits the object it handed out earlier
                da = ux.UxDataArray(np.arange(m.n_face, dtype=float), dims=["n_face"], uxgrid=g, name="c19_data")
                da.to_geodataframe()
                k, nm, side = "UxDataArray.to_geodataframe", "", "grid"
            else:
                side = "export"
                k, nm = plan[step] if plan is not None else rng.choice(export_edits(e))
                if not apply_export_edit(e, k, nm, step):
                    continue
        except Exception as ex:
            ctx.hit(f"edit-raises:{type(ex).__name__}")
            H = G.snapshot()
            continue
        hist.append([k, nm])
        ctx.hit(f"edit:{k}")
        H2 = G.snapshot()
        ctx.case(("export-step", api, source, second_call, uxda_flow, m.key(), tuple(map(tuple, hist))), nontrivial=True)
        bad = None
        if side == "export":
            fv, fx, fp = lean_frame(ctx, H, H2, rg)
            od = obs_diff(o_before, pub_obs(g))
            if fv == "changed" or od:
                bad = f"editing the export ({k} {nm}) changes the grid: " + (f"cell {describe_cell(G, fx)} at {path_str(fp)} " if fv == "changed" else "") + f"observation differs for {od}"
            else:
                # what the grid subsequently reports through the same exporter
                try:
                    again = deep_snap(call(g))
                except Exception:
                    again = first
                if api in CACHED or code == 0:
                    d = snap_diff(first, again)
                    if d and not (code == 0 and all("grid_topology" in p for p in d)):
                        bad = f"after editing the export ({k} {nm}) a new {api} call reports something else: {d[:4]}"
        else:
            ed = snap_diff(e_before, deep_snap(e))
            if ed:
                bad = f"{k} on the grid's data modifies the object an earlier {api} call returned: {ed[:4]}"
        if bad:
            if api in CACHED:
                sig = f"C19/export/{api}/cached-object-returned"
            elif shared_kind == "dataset":
                sig = f"C19/export/{api}/internal-dataset-returned"
            elif shared_kind:
                sig = f"C19/export/{api}/shares-{shared_kind}"
            else:
                sig = f"C19/export/{api}/not-independent/{k}"
            ctx.fail(sig, f"{api}: " + bad, dict(inp, edits=hist), dict(step=[k, nm]),
                     dict(repaired_model=["sep", "shared", "unknown"][pm["export"]], as_is_model=["sep", "shared", "unknown"][pa_m["export"]]),
                     ["export_independent"])
            return
        H = G.snapshot()  # (the re-export above may have touched the grid's own caches)


# --------------------------------------------------------------------------------------
# run / replay
# --------------------------------------------------------------------------------------


def run(ctx):
    ctx.rule = ("small meshes (prisms, split lattices, fans, cube, hulls, duals; random renumbering) × "
                "(a) every constructor × input container kind × dtype/fill/start_index/longitude-range variant, inputs compared "
                "before/after construction and after random grid use; (b) copies (Grid.copy, UxDataArray.copy(deep=True), copy.deepcopy) "
                "of grids in random materialisation states × random interleaved histories of public mutators on either side; "
                "(c) every exporter (first/second call) × random caller edits.  distinct = distinct (scenario, mesh, history prefix); "
                "non-trivial = the step really changed the acting side (Lean frame verdict on its own root)")
    ctx.assumptions = [
        "the extracted object graph (Grid.__dict__, Dataset variables/attrs, Variable data/attrs, nested lists/dicts, opaque exported objects; "
        "buffers identified by np.shares_memory) contains every cell through which the two sides can influence each other; module-level state is C08's subject",
        "CPython/NumPy/xarray aliasing semantics (zero-copy wrapping, Dataset.copy(deep=True), drop_vars) are tied to the model only by this differential run",
    ]
    import time

    rng = ctx.rng
    t0 = time.time()
    timing = ctx.extra.setdefault("family_wall_s", {})
    # minimised past failures (and past false alarms) first
    import json

    for f in sorted((common.CORPUS / "C19").glob("*.json")):
        replay(ctx, json.loads(f.read_text()))
        ctx.hit("corpus")
    timing["corpus"] = round(time.time() - t0, 1)
    t0 = time.time()
    ms = small_meshes(rng, ctx.n(6, 14))
    # (a) constructors: every variant at least once, on rotating meshes
    specs = list(CTOR_SPECS)
    rng.shuffle(specs)
    reps = ctx.n(1, 3)
    for rep in range(reps):
        for i, spec in enumerate(specs):
            scenario_build(ctx, ms[(i + rep) % len(ms)], spec)
    timing["build"] = round(time.time() - t0, 1)
    t0 = time.time()
    # (b) copies
    sources = ["topology", "dataset", "mpas"]
    for rep in range(ctx.n(20, 120)):
        for api in COPY_APIS:
            m = rng.choice(ms)
            k = rng.randrange(0, 5)
            warm_names = rng.sample(DERIVE[:8], k)
            # helper objects cached on the grid (trees, GeoDataFrame / collections) built before the copy
            warm_names += [list(x) for x in rng.sample(CACHE_OPS, rng.choice([0, 1, 2, 3]))]
            rng.shuffle(warm_names)
            scenario_copy(ctx, m, api, rng.choice(sources), warm_names)
    for rep in range(ctx.n(4, 20)):
        for api in COPY_APIS:
            for direction in ("original->copy", "copy->original"):
                scenario_copy_trees(ctx, rng.choice(ms), api, rng.choice(sources), direction)
    timing["copy"] = round(time.time() - t0, 1)
    t0 = time.time()
    # (c) exports
    for rep in range(ctx.n(2, 6)):
        for api, (code, _) in EXPORT_APIS.items():
            m = rng.choice(ms)
            for second in (False, True):
                # `grid_topology` is already stored in a grid read from a UGRID dataset: another code path
                for source in (["topology", "dataset"] if code == 0 else [rng.choice(["topology", "dataset"])]):
                    scenario_export(ctx, m, api, source, second)
        scenario_export(ctx, rng.choice(ms), "to_geodataframe", "topology", False, uxda_flow=True)
    timing["export"] = round(time.time() - t0, 1)


def replay(ctx, rp):
    inp = rp["input"]
    m = mesh_out(inp["mesh"])
    fam = inp["family"]
    if fam == "build":
        scenario_build(ctx, m, inp["spec"], history=[tuple(h) for h in inp["history"]] if "history" in inp else None, tag="replay")
    elif fam == "copy-trees":
        scenario_copy_trees(ctx, m, inp["api"], inp["source"], inp["direction"], warm_ops=[list(x) for x in inp["warm"]],
                            muts=[list(x) for x in inp.get("muts", [])], tag="replay")
    elif fam == "copy":
        hist = [tuple(h) for h in inp.get("history", [])]
        scenario_copy(ctx, m, inp["api"], inp["source"], inp.get("warm", []), history=hist, tag="replay")
    else:
        edits = [tuple(h) for h in inp.get("edits", [])]
        scenario_export(ctx, m, inp["api"], inp["source"], inp.get("second_call", False),
                        uxda_flow=inp.get("uxda_flow", False), edits=edits if not inp.get("uxda_flow") else None, tag="replay")
