"""C15 — exported polygons and lines correspond one-to-one with faces.

Lean side (Props/C15.lean, model Model/Polys.lean with repair switches `Polys.Repairs`): for ALL grids / data /
policies — `antimeridian_iff` (the test on the padded closed shell = "some boundary segment spans >= 180 deg"),
`exclude_map`, `nan_filter_compose`, `split_map`, `ignore_map`, `ignore_map_projection`: the NumPy index gymnastics of
the exporters (np.delete by index list, np.where(mask)[0] on the reduced array, fancy indexing,
corrected_to_original_faces) equal the plain "faces that do not cross / are not NaN, in order, each with its own value";
for ALL histories of conversions, at full strength for the code with the proposed patches — `export_history_free`,
`returned_object_stable`, `returned_geometry_stable`, `export_meets_spec_after_any_history`; and proved
counterexamples (`asis_*`) for the code without them.

Tie (differential, labelled as such).  Every conversion is made on the REAL code through the public API
(Grid.to_geodataframe / to_polycollection / to_linecollection / antimeridian_face_indices,
UxDataArray.to_geodataframe / to_polycollection).  The returned object is reduced to an observation
`(raises?, polygon k -> face, coordinate system, data value on polygon k)` by matching vertices against the
mesh's own corner coordinates (float32 tolerance) — the only float step — and the verdict on that observation
is the Lean predicate `Polys.Spec` evaluated by the driver.  The same history is run through the Lean state
machine and compared step by step; every step is also compared with the same conversion on a brand-new grid
(history independence on the real code); every returned object is snapshotted when handed out and
re-inspected at the end (returned objects not altered).  `split` pieces are judged by a hard oracle on every
exporter (no ring keeps a segment spanning >= 180 deg, the pieces' spherical areas add up to the face's).
"""

from __future__ import annotations

import math

import numpy as np

from . import common, meshes
from .common import INT_FILL, enc_float, enc_ints

PE = ["exclude", "split", "ignore"]
ENG = ["spatialpandas", "geopandas"]
KIND = ["grid.to_geodataframe", "uxda.to_geodataframe", "grid.to_polycollection", "uxda.to_polycollection",
        "grid.to_linecollection", "grid.antimeridian_face_indices"]
GETTER = 5  # a READ of the lazy property Grid.antimeridian_face_indices, at some point of a history
SPEC_KIND = [0, 0, 1, 1, 2, 3]
# projections whose seam (central_longitude + 180) lies elsewhere than the antimeridian: lon_0 = 100, 180, -120, 90
# (Robinson / Mollweide; PlateCarree(central_longitude) raises KeyError in uxarray's _correct_central_longitude here)
NPROJ = 7
PROJ_NAME = ["None", "Robinson()", "Orthographic()", "Robinson(central_longitude=100)",
             "Mollweide(central_longitude=180)", "Robinson(central_longitude=-120)", "Mollweide(central_longitude=90)"]
CENTRAL = [0.0, 0.0, 0.0, 100.0, 180.0, -120.0, 90.0]

_proj_cache = {}


def proj_obj(p):
    import cartopy.crs as ccrs

    if p == 0:
        return None
    if p not in _proj_cache:
        _proj_cache[p] = {1: lambda: ccrs.Robinson(), 2: lambda: ccrs.Orthographic(),
                          3: lambda: ccrs.Robinson(central_longitude=100.0),
                          4: lambda: ccrs.Mollweide(central_longitude=180.0),
                          5: lambda: ccrs.Robinson(central_longitude=-120.0),
                          6: lambda: ccrs.Mollweide(central_longitude=90.0)}[p]()
    return _proj_cache[p]


def wrap(lon):
    return (np.asarray(lon, dtype=float) + 180.0) % 360.0 - 180.0


# --------------------------------------------------------------------------------------
# the mesh as the source of truth, and what a projection does to it (oracle, parameters)
# --------------------------------------------------------------------------------------


def _planar_valid(lon, lat):
    """is the ring, drawn with STRAIGHT sides in the lon/lat plane, a valid polygon?  (a wide face that is a
    perfectly good simple polygon on the sphere need not be)"""
    from shapely import Polygon

    try:
        return bool(Polygon(np.stack([np.asarray(lon, dtype=float), np.asarray(lat, dtype=float)], axis=1)).is_valid)
    except Exception:  # noqa: BLE001
        return False


class Truth:
    """corner coordinates of every face in every coordinate system the exporters can use, the
    crossing / NaN flags and the piece counts (PARAMETERS of the Lean model)"""

    def __init__(self, faces, lon, lat):
        import cartopy.crs as ccrs

        self.faces = [list(f) for f in faces]
        self.lon = np.asarray(lon, dtype=float)
        self.lat = np.asarray(lat, dtype=float)
        self.n = len(self.faces)
        self.w = max(len(f) for f in self.faces)
        self.raw, self.prj, self.am, self.nan, self.pieces, self.usable = [], [], [], [], [], []
        self.pole = []
        self.cw = []
        self.lonlat_bad = []
        pc = ccrs.PlateCarree()
        for p in range(NPROJ):
            cl = CENTRAL[p]
            slon = wrap(self.lon - cl) if cl else self.lon.copy()
            # a node sitting on the shifted antimeridian makes the wrap direction a coin toss
            self.usable.append(bool(cl == 0 or np.all(np.abs(np.abs(self.lon - cl - 360 * np.round((self.lon - cl) / 360)) - 180) > 1e-6)))
            self.raw.append(np.stack([slon, self.lat], axis=1))
            if p:
                xy = proj_obj(p).transform_points(pc, self.lon, self.lat)[:, :2]
                xy = np.where(np.isfinite(xy), xy, np.nan)
            else:
                xy = None
            self.prj.append(xy)
            l32 = slon.astype(np.float32).astype(float)
            am, pole = [], []
            for f in self.faces:
                d = [abs(l32[f[(j + 1) % len(f)]] - l32[f[j]]) for j in range(len(f))]
                am.append(any(x >= 180 for x in d))
                # winding in longitude: a face around a pole turns by +-360
                tot = sum(((slon[f[(j + 1) % len(f)]] - slon[f[j]] + 180) % 360) - 180 for j in range(len(f)))
                # faces whose 'split' pieces are identified but not judged by the planar oracle: around a pole, with
                # a corner at a pole, or with a corner on the antimeridian itself
                pole.append(bool(abs(tot) > 1.0 or np.any(np.abs(self.lat[f]) > 90.0 - 1e-6)
                                 or np.any(np.abs(np.abs(slon[f]) - 180.0) < 1e-6)))
            self.am.append(am)
            self.pole.append(pole)
            cw, bad = [], []
            for i, f in enumerate(self.faces):
                # clockwise / self-intersecting in the lon/lat plane (longitudes continued along the ring)
                l = [float(slon[f[0]])]
                for j in range(1, len(f)):
                    l.append(l[-1] + ((slon[f[j]] - slon[f[j - 1]] + 180.0) % 360.0 - 180.0))
                y = self.lat[f]
                a2 = sum(l[j] * y[(j + 1) % len(f)] - l[(j + 1) % len(f)] * y[j] for j in range(len(f)))
                cw.append(bool(a2 < 0 and not pole[i]))
                bad.append(bool(not pole[i] and not _planar_valid(l, y)))
            self.cw.append(cw)
            self.lonlat_bad.append(bad)
            self.nan.append([bool(p and np.isnan(xy[f]).any()) for f in self.faces])
            self.pieces.append(None)
        self.rings = {}
        for i, f in enumerate(self.faces):
            self.rings[canon_ring(f)] = i

    def faces_simple(self):
        """every face is a simple (non self-intersecting) polygon ON THE SPHERE: gnomonic projection about the
        face's centre (great circles become straight lines), then planar validity.  A face reaching further than
        ~84 deg from its centre cannot be projected and is taken as simple."""
        from shapely import Polygon

        lo, la = np.radians(self.lon), np.radians(self.lat)
        v = np.stack([np.cos(la) * np.cos(lo), np.cos(la) * np.sin(lo), np.sin(la)], axis=1)
        for f in self.faces:
            c = v[f].sum(axis=0)
            nc = np.linalg.norm(c)
            if nc < 1e-9:
                continue
            c /= nc
            d = v[f] @ c
            if d.min() <= 0.1:
                continue
            a = np.cross(c, [0.0, 0.0, 1.0] if abs(c[2]) < 0.9 else [1.0, 0.0, 0.0])
            a /= np.linalg.norm(a)
            b = np.cross(c, a)
            if not Polygon(np.stack([(v[f] @ a) / d, (v[f] @ b) / d], axis=1)).is_valid:
                return False
        return True

    def split_defined(self, p):
        """no boundary segment of exactly 180 deg (there is no shorter way round; 'split' is undefined and
        antimeridian.fix_polygon returns the whole globe)"""
        l = self.raw[p][:, 0]
        return not any(abs(abs(l[f[(j + 1) % len(f)]] - l[f[j]]) - 180.0) < 1e-9 for f in self.faces for j in range(len(f)))

    def margin_ok(self, p):
        """no boundary segment within 1e-3 deg of the 180 threshold (float32 rounding may flip it)"""
        l = self.raw[p][:, 0]
        for f in self.faces:
            for j in range(len(f)):
                d = abs(l[f[(j + 1) % len(f)]] - l[f[j]])
                if d != 180.0 and abs(d - 180.0) < 1e-3:
                    return False
        return True

    def piece_counts(self, p):
        """how many polygons antimeridian.fix_polygon makes of each face (parameter)"""
        if self.pieces[p] is None:
            import antimeridian
            from shapely import Polygon

            out = []
            r32 = self.raw[p].astype(np.float32)
            for i, f in enumerate(self.faces):
                k = 1
                if self.am[p][i]:
                    try:
                        g = antimeridian.fix_polygon(Polygon(r32[f + [f[0]]]), fix_winding=False)
                        k = len(g.geoms) if g.geom_type == "MultiPolygon" else 1
                    except Exception:
                        k = 1
                out.append(max(1, k))
            self.pieces[p] = out
        return self.pieces[p]

    def enc_g(self):
        toks = [str(self.n)]
        for tab in (self.am, self.nan):
            toks.append(str(NPROJ))
            for p in range(NPROJ):
                toks.append(enc_ints([1 if x else 0 for x in tab[p]]))
        toks.append(str(NPROJ))
        for p in range(NPROJ):
            toks.append(enc_ints(self.piece_counts(p)))
        return " ".join(toks)

    def describe(self):
        from collections import Counter

        return dict(n_face=self.n, n_node=len(self.lon), sizes=dict(Counter(len(f) for f in self.faces)),
                    crossing=[int(sum(a)) for a in self.am], nan=[int(sum(a)) for a in self.nan],
                    clockwise=[int(sum(a)) for a in self.cw],
                    lonlat_self_intersecting=[int(sum(a)) for a in self.lonlat_bad])


def sph_area(ring):
    """area on the unit sphere of a polygon with great-circle sides, from (lon, lat) in degrees: signed solid
    angles of the triangle fan (Van Oosterom - Strackee)"""
    ring = np.asarray(ring, dtype=float)
    if len(ring) > 1 and np.allclose(ring[0], ring[-1]):
        ring = ring[:-1]
    lo, la = np.radians(ring[:, 0]), np.radians(ring[:, 1])
    v = np.stack([np.cos(la) * np.cos(lo), np.cos(la) * np.sin(lo), np.sin(la)], axis=1)
    tot = 0.0
    for j in range(1, len(v) - 1):
        a, b, c = v[0], v[j], v[j + 1]
        num = float(np.dot(a, np.cross(b, c)))
        den = 1.0 + float(a @ b) + float(b @ c) + float(c @ a)
        tot += 2.0 * math.atan2(num, den)
    return abs(tot)


def canon_ring(f):
    f = list(f)
    k = f.index(min(f))
    return tuple(f[k:] + f[:k])


# --------------------------------------------------------------------------------------
# observation: returned object -> (rows, tag, data)
# --------------------------------------------------------------------------------------


def _nearest(xy, nodes, tol, periodic):
    """node index of every vertex (-1 if none within tol)"""
    xy = np.asarray(xy, dtype=float)
    if xy.size == 0:
        return np.zeros(0, dtype=int)
    d0 = xy[:, None, 0] - nodes[None, :, 0]
    if periodic:
        d0 = (d0 + 180.0) % 360.0 - 180.0
    d1 = xy[:, None, 1] - nodes[None, :, 1]
    d = np.maximum(np.abs(d0), np.abs(d1))
    d = np.where(np.isnan(d), np.inf, d)
    j = np.argmin(d, axis=1)
    ok = d[np.arange(len(xy)), j] <= tol
    return np.where(ok, j, -1)


def _ring_nodes(ids):
    """drop padding (consecutive repeats) and the closing vertex"""
    out = []
    for v in ids:
        if not out or out[-1] != v:
            out.append(int(v))
    while len(out) > 1 and out[-1] == out[0]:
        out.pop()
    return out


class Observer:
    def __init__(self, truth: Truth):
        self.t = truth
        self._unw = {}
        self._pieces = {}

    def ident_system(self, parts_per_row, p, system):
        """face of every row when all vertices are read in `system` ('raw' of projection p / 'prj')"""
        t = self.t
        if system == "raw":
            nodes, tol, periodic = t.raw[p], 1e-4, True
        else:
            nodes = t.prj[p]
            if nodes is None:
                return None
            tol, periodic = max(8.0, 1e-6 * float(np.nanmax(np.abs(nodes)))), False
        rows, rev = [], 0
        for parts in parts_per_row:
            faces = set()
            for ring in parts:
                ids = _nearest(ring, nodes, tol, periodic)
                if (ids < 0).any():
                    faces.add(-1)
                    continue
                rn = _ring_nodes(ids)
                if len(rn) < 3:
                    faces.add(-1)
                    continue
                f = t.rings.get(canon_ring(rn))
                if f is None:
                    f = t.rings.get(canon_ring(rn[::-1]))
                    if f is not None:
                        rev += 1
                faces.add(-1 if f is None else f)
            rows.append(faces.pop() if len(faces) == 1 else -1)
        return rows, rev

    def unwrapped(self, p, i):
        """the face as ONE planar polygon: longitudes continued along the ring, every boundary segment taken
        the short way (that is what "crossing" means); None for a face around a pole"""
        from shapely import Polygon

        key = (p, i)
        if key not in self._unw:
            t = self.t
            f = t.faces[i]
            raw = t.raw[p]
            if t.pole[p][i]:
                self._unw[key] = None
            else:
                l = [float(raw[f[0], 0])]
                for j in range(1, len(f)):
                    l.append(l[-1] + ((raw[f[j], 0] - raw[f[j - 1], 0] + 180.0) % 360.0 - 180.0))
                self._unw[key] = Polygon(np.stack([np.array(l), raw[f, 1]], axis=1))
        return self._unw[key]

    @staticmethod
    def _pkey(ring):
        return frozenset((round(float(x), 3) + 0.0, round(float(y), 3) + 0.0) for x, y in np.asarray(ring)[:, :2])

    def piece_index(self, p):
        """the pieces antimeridian.fix_polygon makes of every crossing face's stored (float32, padded, closed) shell
        — the PARAMETER `splitPieces` of the Lean model — keyed by their vertex sets"""
        if p not in self._pieces:
            import antimeridian
            from shapely import Polygon

            t = self.t
            idx = {}
            r32 = t.raw[p].astype(np.float32)
            for i, f in enumerate(t.faces):
                if not t.am[p][i]:
                    continue
                shell = r32[f + [f[0]] * (t.w + 1 - len(f))]
                for kw in (dict(fix_winding=False), dict()):
                    try:
                        g = antimeridian.fix_polygon(Polygon(shell), **kw)
                    except Exception:  # noqa: BLE001
                        continue
                    for q in (g.geoms if g.geom_type == "MultiPolygon" else [g]):
                        idx.setdefault(self._pkey(q.exterior.coords), set()).add(i)
            self._pieces[p] = idx
        return self._pieces[p]

    def ident_pieces(self, parts_per_row, p, rows):
        """'split': rows that are not a whole face may be pieces of a crossing face.  WHICH face a piece was cut
        from is decided by comparing it with what antimeridian.fix_polygon (parameter) makes of each crossing
        face's shell.  Oracle clauses on the pieces themselves (faces not around a pole and without a corner on the
        antimeridian): no piece edge spans >= 180 deg; the pieces of a face tile it (areas ON THE SPHERE add up to
        the face's, 1e-3 relative: the cut runs along the great circles)."""
        from shapely import Polygon

        t = self.t
        index = self.piece_index(p)
        info = dict(pieces=0, spans=0, badarea=0, pole=0)
        per_face_area = {}
        for r, parts in enumerate(parts_per_row):
            if rows[r] >= 0:
                continue
            owner = set()
            for ring in parts:
                ring = np.asarray(ring, dtype=float)
                info["pieces"] += 1
                if len(ring) < 4 or np.isnan(ring).any():
                    owner.add(-1)
                    continue
                hit = index.get(self._pkey(ring), set())
                got = next(iter(hit)) if len(hit) == 1 else None
                if got is not None:
                    if t.pole[p][got]:
                        info["pole"] += 1
                    else:
                        dl = np.abs(np.diff(ring[:, 0]))
                        polar = np.abs(np.abs(ring[:, 1]) - 90.0) < 1e-4
                        if any(dl[j] >= 180.0 and not (polar[j] or polar[j + 1]) for j in range(len(dl))):
                            info["spans"] += 1
                        per_face_area[got] = per_face_area.get(got, 0.0) + sph_area(ring)
                owner.add(-1 if got is None else got)
            rows[r] = owner.pop() if len(owner) == 1 else -1
        info["areas"] = len(per_face_area)
        for i, a in per_face_area.items():
            fa = sph_area(t.raw[p][t.faces[i]])
            # a ring bounds two regions of the sphere; the fan formula may return either one's area for a face
            # wider than a hemisphere, so areas are compared modulo the complement
            if min(abs(a - fa), abs(a - (4.0 * math.pi - fa))) > 1e-3 * fa + 1e-9:
                info["badarea"] += 1
        return rows, info

    def observe(self, parts_per_row, p, pe, data):
        """(rows, tag, data, notes)"""
        best = None
        for system, tag in (("raw", 0), ("prj", p)):
            if system == "prj" and p == 0:
                continue
            r = self.ident_system(parts_per_row, p, system)
            if r is None:
                continue
            rows, rev = r
            info = None
            if pe == "split" and system == "raw":
                if any(x < 0 for x in rows):
                    rows, info = self.ident_pieces(parts_per_row, p, list(rows))
                info = info or dict(pieces=0, spans=0, badarea=0, pole=0)
                # hard clause for EVERY ring a 'split' export contains — whole faces as well as pieces, frames,
                # polygon and line collections alike: no boundary segment spans >= 180 deg of longitude (a
                # crossing face handed back uncut has one).  A corner at a pole has no longitude of its own.
                info["uncut"] = 0
                for parts in parts_per_row:
                    for ring in parts:
                        ring = np.asarray(ring, dtype=float)
                        if len(ring) < 2 or np.isnan(ring).any():
                            continue
                        dl = np.abs(np.diff(ring[:, 0]))
                        polar = np.abs(np.abs(ring[:, 1]) - 90.0) < 1e-4
                        if any(dl[j] >= 180.0 and not (polar[j] or polar[j + 1]) for j in range(len(dl))):
                            info["uncut"] += 1
                info["rings"] = sum(len(parts) for parts in parts_per_row)
            good = sum(1 for x in rows if x >= 0)
            cand = (good, rows, tag, rev, info)
            if best is None or good > best[0]:
                best = cand
            if good == len(rows):
                break
        if best is None:
            best = (0, [-1] * len(parts_per_row), -1, 0, None)
        good, rows, tag, rev, info = best
        if len(rows) and good == 0:
            tag = -1
        if not rows:
            tag = 0 if (p == 0 or pe == "split") else p  # no polygon at all: vacuously in the expected system
        return rows, tag, data, dict(reversed=rev, pieces=info)


def parts_of_geom(g):
    """list of exterior rings (k x 2 arrays) of a shapely / spatialpandas geometry"""
    if hasattr(g, "to_shapely"):
        try:
            g = g.to_shapely()
        except Exception:  # noqa: BLE001 - e.g. a ring of NaN: a polygon that is no face
            return [np.full((4, 2), np.nan)]
    if g is None or g.is_empty:
        return []
    if g.geom_type == "Polygon":
        return [np.asarray(g.exterior.coords, dtype=float)[:, :2]]
    if g.geom_type == "MultiPolygon":
        return [np.asarray(q.exterior.coords, dtype=float)[:, :2] for q in g.geoms]
    return [np.zeros((0, 2))]


def extract(obj, kind, var):
    """returned object -> (parts per row, data or None)"""
    if kind in (0, 1):
        geo = obj["geometry"].values
        parts = [parts_of_geom(g) for g in geo]
        data = None
        if kind == 1:
            data = np.asarray(obj[var].values, dtype=float)
        return parts, data
    if kind in (2, 3):
        parts = [[np.asarray(pth.vertices, dtype=float)[:, :2]] for pth in obj.get_paths()]
        arr = obj.get_array()
        data = None if (kind == 2 or arr is None) else np.asarray(arr, dtype=float)
        return parts, data
    return [[np.asarray(s, dtype=float)[:, :2]] for s in obj.get_segments()], None


def snapshot(obj, kind):
    """everything a caller can see of a returned object, hashable"""
    if kind in (0, 1):
        geo = tuple(tuple(r.tobytes() for r in parts_of_geom(g)) for g in obj["geometry"].values)
        cols = tuple((str(c), np.asarray(obj[c].values, dtype=float).tobytes()) for c in obj.columns if c != "geometry")
        return ("frame", geo, cols)
    if kind in (2, 3):
        arr = obj.get_array()
        return ("poly", tuple(np.asarray(p.vertices, dtype=float).tobytes() for p in obj.get_paths()),
                None if arr is None else np.asarray(arr, dtype=float).tobytes())
    return ("line", tuple(np.asarray(s, dtype=float).tobytes() for s in obj.get_segments()), None)


# --------------------------------------------------------------------------------------
# operations
# --------------------------------------------------------------------------------------


def mk_op(kind, pe, proj, eng=0, cache=True, override=False, var=0):
    return dict(kind=int(kind), pe=int(pe), proj=int(proj), eng=int(eng), cache=bool(cache), override=bool(override),
                var=int(var))


def op_values(t: Truth, op):
    """face-centred data of variable `var`: distinct per face and per variable, exact in binary"""
    if op["kind"] not in (1, 3):
        return []
    return [4000.0 * (op["var"] + 1) + i + 0.25 for i in range(t.n)]


def enc_val(x):
    return int(round(float(x) * 4))


def enc_op(t, op):
    vals = [enc_val(v) for v in op_values(t, op)]
    return " ".join(str(x) for x in [op["kind"], op["pe"], op["proj"], op["eng"], int(op["cache"]), int(op["override"]),
                                     op["var"]]) + " " + enc_ints(vals)


def op_str(op):
    if op["kind"] == GETTER:
        return "read grid.antimeridian_face_indices"
    s = f"{KIND[op['kind']]}(periodic_elements='{PE[op['pe']]}', projection={PROJ_NAME[op['proj']]}"
    if op["kind"] in (0, 1):
        s += f", engine='{ENG[op['eng']]}'"
    s += f", cache={op['cache']}, override={op['override']})"
    if op["kind"] in (1, 3):
        s += f" [variable v{op['var']}]"
    return s


class World:
    """one grid of the real code + the objects it has handed out"""

    def __init__(self, ux, truth: Truth):
        self.ux, self.t = ux, truth
        tab = np.full((truth.n, truth.w), INT_FILL, dtype=np.int64)
        for i, f in enumerate(truth.faces):
            tab[i, : len(f)] = f
        self.grid = ux.Grid.from_topology(node_lon=truth.lon.copy(), node_lat=truth.lat.copy(),
                                          face_node_connectivity=tab, fill_value=INT_FILL)
        self.handed = []  # (step, object, kind, snapshot at return)

    def call(self, op):
        ux, g, t = self.ux, self.grid, self.t
        if op["kind"] == GETTER:
            return np.array(g.antimeridian_face_indices)
        kw = dict(periodic_elements=PE[op["pe"]], projection=proj_obj(op["proj"]), cache=op["cache"],
                  override=op["override"])
        k = op["kind"]
        if k in (0, 1):
            kw["engine"] = ENG[op["eng"]]
        if k in (1, 3):
            name = f"v{op['var']}"
            da = ux.UxDataArray(np.array(op_values(t, op), dtype=float), dims=["n_face"], uxgrid=g, name=name)
        if k == 0:
            return g.to_geodataframe(**kw)
        if k == 1:
            return da.to_geodataframe(**kw)
        if k == 2:
            return g.to_polycollection(**kw)
        if k == 3:
            return da.to_polycollection(**kw)
        return g.to_linecollection(**kw)


def run_history(ux, t: Truth, ops):
    """real code: one new grid, the conversions in order.  Per step: observation dict"""
    w = World(ux, t)
    obs = Observer(t)
    out = []
    for s, op in enumerate(ops):
        try:
            obj = w.call(op)
        except Exception as e:  # noqa: BLE001 - every exception is an observation
            out.append(dict(err=True, exc=type(e).__name__, msg=str(e)[:160], rows=[], tag=0, data=None, verts=None))
            continue
        if op["kind"] == GETTER:
            out.append(dict(err=False, exc=None, rows=sorted(int(i) for i in np.asarray(obj).ravel()), tag=0, data=None,
                            notes=None, verts=None, rettype="ndarray"))
            continue
        try:
            parts, data = extract(obj, op["kind"], f"v{op['var']}")
            rows, tag, data, notes = obs.observe(parts, op["proj"], PE[op["pe"]], data)
        except Exception as e:  # noqa: BLE001 - the returned object cannot even be read
            out.append(dict(err=True, exc="unreadable:" + type(e).__name__, msg=str(e)[:160], rows=[], tag=0, data=None,
                            verts=None))
            continue
        snap = snapshot(obj, op["kind"])
        w.handed.append((s, obj, op["kind"], snap))
        out.append(dict(err=False, exc=None, rows=[int(r) for r in rows], tag=int(tag),
                        data=None if data is None else [float(x) for x in data], notes=notes,
                        verts=hash(snap[1]), obj=id(obj), rettype=type(obj).__module__.split(".")[0]))
    altered = []
    for s, obj, kind, snap in w.handed:
        try:
            now = snapshot(obj, kind)
        except Exception:  # noqa: BLE001
            now = ("unreadable",)
        if now != snap:
            what = "geometry" if now[1:2] != snap[1:2] else ("columns" if snap[0] == "frame" else "array")
            if what == "geometry" and snap[0] == "frame" and len(snap[1]) == 0:
                what = "geometry:empty-frame-enlarged"
            altered.append(dict(step=s, type={"frame": "GeoDataFrame", "poly": "PolyCollection", "line": "LineCollection"}[snap[0]],
                                what=what))
    return out, altered


# --------------------------------------------------------------------------------------
# Lean side
# --------------------------------------------------------------------------------------


def enc_case(t: Truth, op):
    p = op["proj"]
    vals = [enc_val(v) for v in op_values(t, op)]
    return " ".join([str(SPEC_KIND[op["kind"]]), str(op["pe"]), str(p), str(t.n),
                     enc_ints([1 if x else 0 for x in t.am[p]]), enc_ints([1 if x else 0 for x in t.nan[p]]),
                     enc_ints(vals)])


def enc_obs(o):
    d = o["data"]
    # a value that is not one of the 1/4-grid values cannot be any face's value: send it as -1
    dd = [] if d is None else [(enc_val(x) if (x == x and abs(x * 4 - round(x * 4)) < 1e-9) else -1) for x in d]
    return " ".join([str(int(o["err"])), str(o["tag"]), enc_ints(o["rows"]), str(0 if d is None else 1), enc_ints(dd)])


def lean_am(ctx, t):
    """the Lean predicate on the grid's OWN shells (float32 longitudes, no projection): flags of the padded closed
    shell and of the cyclic boundary segments (antimeridian_iff says they agree)"""
    if getattr(t, "_lean_am", None) is None:
        l32 = t.lon.astype(np.float32).astype(float)
        toks = [str(t.w), str(t.n)] + [str(len(f)) + " " + " ".join(enc_float(l32[v]) for v in f) for f in t.faces]
        ans = common.Tok(ctx.driver.ask("C15.am", " ".join(toks)))
        t._lean_am = (ans.ints(), ans.ints())
    return t._lean_am


def lean_spec(ctx, t, op, o):
    if op["kind"] == GETTER:
        if o["err"]:
            return ["raises"]
        want = [i for i, b in enumerate(lean_am(ctx, t)[1]) if b]
        return [] if o["rows"] == want else ["antimeridian_iff"]
    v = ctx.driver.ask("C15.spec", enc_case(t, op), enc_obs(o))
    if v.startswith("ok"):
        return []
    return v.split(" ", 1)[1].split(",")


# repair switches of the Lean model (Polys.Repairs: ignoreProj sideRestore copyFrame).  Default = Polys.Repairs.current, the
# code as it stands in /repo: ignoreProj and sideRestore are committed, the frame copy (fixes/C15-dataarray-gdf-copy.patch)
# was not applied, so the model writes data columns into the cached frame like the code does.  VERIF_C15_REPAIRS=111 runs
# the model of a tree that carries that patch too (development aid only: the verdict never comes from the model run).
import os as _os

REPAIRS = [int(c) for c in _os.environ.get("VERIF_C15_REPAIRS", "110")]


def lean_hist(ctx, t, ops_all):
    """the Lean state machine on the conversions of the history; a getter read is no operation of the machine
    (`amGetter` reads no cache cell): its model value is the Lean predicate on the grid's own shells"""
    ops = [o for o in ops_all if o["kind"] != GETTER]
    steps, heap = _lean_hist(ctx, t, ops) if ops else ([], [])
    it = iter(steps)
    want = [i for i, b in enumerate(lean_am(ctx, t)[1]) if b]
    full = [dict(err=False, tag=0, rows=want, data=None, frame=-1) if o["kind"] == GETTER else next(it) for o in ops_all]
    return full, heap


def _lean_hist(ctx, t, ops):
    tok = common.Tok(ctx.driver.ask("C15.hist", " ".join(str(b) for b in REPAIRS), t.enc_g(), str(len(ops)),
                                    " ".join(enc_op(t, op) for op in ops)))
    n = tok.int()
    steps = []
    for _ in range(n):
        err, tag, rows, has, data, fid = tok.int(), tok.int(), tok.ints(), tok.int(), tok.ints(), tok.int()
        steps.append(dict(err=bool(err), tag=tag, rows=rows, data=data if has else None, frame=fid))
    nh = tok.int()
    heap = []
    for _ in range(nh):
        rows, nc = tok.ints(), tok.int()
        cols = {}
        for _ in range(nc):
            v = tok.int()
            cols[v] = tok.ints()
        heap.append(dict(rows=rows, cols=cols))
    return steps, heap


def dedup(l):
    out = []
    for x in l:
        if not out or out[-1] != x:
            out.append(x)
    return out


# --------------------------------------------------------------------------------------
# judging one history
# --------------------------------------------------------------------------------------


PRIORITY = ["raises", "polygon_repeated", "polygon_face_map", "vertices", "data_follow", "split_pieces",
            "differs_from_fresh"]


def clause_sig(o, clauses):
    """primary failing clause (the full list goes into the replay file); an exception is named by its type
    and the letters of its message (numbers vary with the mesh)"""
    import re

    if o["err"]:
        return "raises:" + str(o["exc"]) + ":" + re.sub(r"[^A-Za-z]+", "-", str(o.get("msg") or ""))[:48].strip("-")
    good = [r for r in o.get("rows") or [] if r >= 0]
    for c in PRIORITY:
        if c == "polygon_repeated" and len(set(good)) == len(good):
            continue  # only the "no such face" marker repeats
        if c in clauses:
            return c
    return "+".join(clauses)


def judge_history(ctx, ux, t: Truth, ops, tag, fresh_memo, record=True):
    """run `ops` on a new grid of the real code; Lean judges every step; returns list of failure dicts"""
    inp = dict(mesh=dict(faces=t.faces, lon=[enc_float(x) for x in t.lon], lat=[enc_float(x) for x in t.lat]),
               describe=t.describe(), ops=ops, ops_text=[op_str(o) for o in ops], tag=tag)
    outs, altered = run_history(ux, t, ops)
    fails = []
    verdicts = []
    for s, (op, o) in enumerate(zip(ops, outs)):
        cl = lean_spec(ctx, t, op, o)
        verdicts.append(cl)
        # float-level oracle of the 'split' pieces (not a Lean clause)
        pinfo = (o.get("notes") or {}).get("pieces") if not o["err"] else None
        if pinfo and (pinfo["spans"] or pinfo["badarea"] or pinfo.get("uncut")) and not cl:
            cl = ["split_pieces"]
            verdicts[-1] = cl
        if cl:
            fails.append(dict(step=s, op=op, clauses=cl, obs=o))
    # ---- correspondence with the Lean state machine, only where the implementation meets the spec
    model = None
    if record:
        try:
            model, heap = lean_hist(ctx, t, ops)
        except Exception as e:  # noqa: BLE001
            model, heap = None, None
            ctx.mismatch("C15/model-run", inp, None, str(e))
    if model is not None:
        for s, (op, o, mo) in enumerate(zip(ops, outs, model)):
            if verdicts[s]:
                continue
            unsupported = PE[op["pe"]] == "split" and op["proj"] != 0 and op["kind"] < 4
            if unsupported:
                ctx.hit("split+projection:" + ("raises" if o["err"] else "returns"))
                continue
            same = (o["err"] == mo["err"])
            if same and not o["err"]:
                r_i, r_m = o["rows"], mo["rows"]
                if PE[op["pe"]] == "split":
                    r_i, r_m = dedup(r_i), dedup(r_m)
                d_i = None if o["data"] is None else [enc_val(x) for x in o["data"]]
                d_m = mo["data"]
                if PE[op["pe"]] == "split" and d_i is not None:
                    d_i, d_m = dedup(d_i), dedup(d_m)
                same = (r_i == r_m and (o["tag"] == mo["tag"] or not r_i) and d_i == d_m)
            if not same:
                ctx.mismatch("C15/model-step", dict(inp, step=s), {k: o[k] for k in ("err", "rows", "tag", "data")}, mo)
                break
    # ---- history independence on the real code: every step vs the same conversion on a new grid
    for s, (op, o) in enumerate(zip(ops, outs)):
        if len(ops) == 1:
            break
        key = tuple(sorted((k, v) for k, v in op.items() if k not in ("cache", "override")))
        if key not in fresh_memo:
            f_out, _ = run_history(ux, t, [dict(op, cache=True, override=False)])
            fresh_memo[key] = f_out[0]
        fo = fresh_memo[key]
        same = (o["err"] == fo["err"]) and (o["err"] or (o["rows"] == fo["rows"] and o["tag"] == fo["tag"]
                                                          and o["data"] == fo["data"] and o["verts"] == fo["verts"]
                                                          and o.get("rettype") == fo.get("rettype")))
        if not same and not verdicts[s]:
            # differs from the fresh conversion although the Lean spec accepts it: report as history dependence
            fails.append(dict(step=s, op=op, clauses=["differs_from_fresh"], obs=o))
            verdicts[s] = ["differs_from_fresh"]
        for f in fails:
            if f["step"] == s:
                fcl = lean_spec(ctx, t, op, fo)
                pinfo = (fo.get("notes") or {}).get("pieces") if not fo["err"] else None
                if pinfo and (pinfo["spans"] or pinfo["badarea"] or pinfo.get("uncut")) and not fcl:
                    fcl = ["split_pieces"]
                f["fresh_fails"], f["fresh_clauses"], f["fresh_obs"], f["fresh_same"] = bool(fcl), fcl, fo, same
    return fails, outs, altered, verdicts


def kind_name(op):
    return KIND[op["kind"]]


def signature_fresh(t, op, o, clauses):
    if op["kind"] == GETTER:
        return "C15/antimeridian_face_indices/" + ("raises:" + str(o["exc"]) if o["err"] else "differs")
    s = f"C15/fresh/{kind_name(op)}/pe={PE[op['pe']]}/proj={'none' if op['proj'] == 0 else 'set'}"
    if op["kind"] in (0, 1):
        s += f"/engine={ENG[op['eng']]}"
    s += "/" + clause_sig(o, clauses)
    if PE[op["pe"]] == "split" and op["kind"] in (2, 3):
        # the known PolyCollection 'split' finding (EVERY face goes through antimeridian.fix_polygon(fix_winding=False))
        # needs a face that is irregular in the lon/lat plane: self-intersecting there -> fix_polygon raises;
        # clockwise there -> the face comes back as the whole globe
        if o["err"] and "Fixed-polygon-is-invalid" in s:
            s += "/grid:lonlat-self-intersecting-face=" + ("yes" if any(t.lonlat_bad[op["proj"]]) else "no")
        else:
            s += "/grid:clockwise=" + ("yes" if any(t.cw[op["proj"]]) else "no")
    if PE[op["pe"]] == "ignore" and op["proj"] != 0:
        # what the known 'ignore'+projection findings depend on
        p = op["proj"]
        s += "/grid:lossy=" + ("yes" if (any(t.am[p]) or any(t.nan[p])) else "no")
    return s


def shrink_history(ctx, ux, t, ops, step, clauses, memo):
    """drop earlier conversions while the same step still fails the same way"""
    ops = ops[: step + 1]
    i = 0
    while i < len(ops) - 1:
        trial = ops[:i] + ops[i + 1:]
        fails, _, _, _ = judge_history(ctx, ux, t, trial, "shrink", memo, record=False)
        if any(f["step"] == len(trial) - 1 and f["clauses"] == clauses for f in fails):
            ops = trial
        else:
            i += 1
    return ops


def report(ctx, ux, t: Truth, ops, tag, fresh_memo):
    """judge one history and turn failures into findings"""
    fails, outs, altered, verdicts = judge_history(ctx, ux, t, ops, tag, fresh_memo)
    key = (tag, t.faces, [round(float(x), 6) for x in t.lon], ops)
    nontriv = t.n > 1 and any(t.am[0]) or len(ops) > 1
    ctx.case(key, nontrivial=nontriv,
             sample=dict(mesh=t.describe(), ops=[op_str(o) for o in ops],
                         observed=[{k: o.get(k) for k in ("err", "exc", "rows", "tag", "data")} for o in outs])
             if t.n <= 4 and len(ops) <= 3 else None)
    for si, (op, o) in enumerate(zip(ops, outs)):
        if op["kind"] == GETTER:
            before = [q for q in ops[:si] if q["kind"] != GETTER]
            ctx.hit("antimeridian_face_indices read " + ("before any conversion" if not before else
                    ("after a conversion with lon_0 != 0" if any(CENTRAL[q["proj"]] != 0 for q in before)
                     else "after conversions with lon_0 = 0")))
            continue
        ctx.hit(f"{KIND[op['kind']]}/{PE[op['pe']]}/{PROJ_NAME[op['proj']]}")
        if op["kind"] in (0, 1):
            ctx.hit("engine=" + ENG[op["eng"]])
            if not o["err"] and o.get("rettype") and o["rettype"] != ENG[op["eng"]]:
                ctx.hit("note:engine-not-honoured(returned " + o["rettype"] + ")")
        if not o["err"]:
            if (o.get("notes") or {}).get("reversed"):
                ctx.hit("note:ring-reversed", o["notes"]["reversed"])
            pi = (o.get("notes") or {}).get("pieces")
            if pi:
                ctx.hit("split-pieces-judged", pi["pieces"])
                ctx.hit("split-faces-judged-for-area-on-the-sphere", pi.get("areas", 0))
                ctx.hit("split-rings-judged-for-180deg-span", pi.get("rings", 0))
                ctx.hit("split-pole-face-pieces(not judged for area)", pi["pole"])
        else:
            ctx.hit("raises:" + str(o["exc"]))
    ctx.hit(f"history-length={min(len(ops), 7)}")
    ctx.hit("faces<=4" if t.n <= 4 else ("faces<=30" if t.n <= 30 else "faces>30"))
    mesh = dict(faces=t.faces, lon=[enc_float(x) for x in t.lon], lat=[enc_float(x) for x in t.lat])
    for f in fails:
        op, o, s = f["op"], f["obs"], f["step"]
        if len(ops) > 1 and f.get("fresh_fails", False):
            # the conversion fails on a new grid as well: report THAT (single-conversion signature)
            fo = f["fresh_obs"]
            fcl = f["fresh_clauses"]
            ctx.fail(signature_fresh(t, op, fo, fcl), f"{op_str(op)} on a new grid: "
                     + ("raises " + str(fo["exc"]) + ": " + str(fo.get("msg")) if fo["err"] else "fails " + ",".join(fcl)),
                     dict(mesh=mesh, describe=t.describe(), ops=[dict(op, cache=True, override=False)], ops_text=[op_str(op)]),
                     {k: fo.get(k) for k in ("err", "exc", "msg", "rows", "tag", "data")}, None, fcl)
            if f.get("fresh_same", False):
                continue
        if len(ops) == 1:
            sig = signature_fresh(t, op, o, f["clauses"])
            what = (f"{op_str(op)} on a new grid: " + ("raises " + str(o["exc"]) + ": " + str(o.get("msg"))
                                                         if o["err"] else "fails " + ",".join(f["clauses"])))
            ctx.fail(sig, what, dict(mesh=mesh, describe=t.describe(), ops=[op], ops_text=[op_str(op)]),
                     {k: o.get(k) for k in ("err", "exc", "msg", "rows", "tag", "data")}, None, f["clauses"])
        else:
            small = shrink_history(ctx, ux, t, ops, s, f["clauses"], fresh_memo)
            no_uncached = [q for q in small[:-1] if q["cache"]] + [small[-1]]
            cause = "after-cached-conversions"
            if len(no_uncached) < len(small):
                f2, _, _, _ = judge_history(ctx, ux, t, no_uncached, "cause", fresh_memo, record=False)
                # root cause, not symptom: THE SAME failure (same clauses at the same conversion) must disappear once
                # the un-cached conversions are taken out of the history; the conversion may well fail in another,
                # history-independent way that is reported under its own single-conversion signature
                if not any(x["step"] == len(no_uncached) - 1 and x["clauses"] == f["clauses"] for x in f2):
                    cause = "after-uncached-conversion"
            sig = f"C15/history/{kind_name(op)}/{clause_sig(o, f['clauses'])}/{cause}"
            what = (f"{op_str(op)} after {len(small) - 1} earlier conversion(s) "
                    + ("raises " + str(o["exc"]) if o["err"] else "fails " + ",".join(f["clauses"]))
                    + " although the same conversion on a new grid does not")
            ctx.fail(sig, what, dict(mesh=mesh, describe=t.describe(), ops=small, ops_text=[op_str(q) for q in small]),
                     {k: o.get(k) for k in ("err", "exc", "msg", "rows", "tag", "data")}, None, f["clauses"])
    for a in altered:
        # which later conversion did it: shrink to the shortest prefix/suffix pair
        s0 = a["step"]
        culprit = None
        for e in range(s0 + 1, len(ops)):
            _, alt = run_history(ux, t, ops[: e + 1])
            if any(x["step"] == s0 for x in alt):
                culprit = e
                break
        small = ops[: (culprit if culprit is not None else len(ops) - 1) + 1]
        # drop conversions other than the altered one and the culprit while it still happens
        i = 0
        while i < len(small) - 1:
            if i == s0:
                i += 1
                continue
            trial = small[:i] + small[i + 1:]
            ns0 = s0 - (1 if i < s0 else 0)
            _, alt = run_history(ux, t, trial)
            if any(x["step"] == ns0 and x["what"] == a["what"] for x in alt):
                small, s0 = trial, ns0
            else:
                i += 1
        by = kind_name(small[-1]) if culprit is not None else "unknown"
        sig = f"C15/returned-object-altered/{a['type']}/{a['what']}/by={by}"
        ctx.fail(sig, f"the {a['type']} returned by {op_str(small[s0])} had its {a['what']} altered by the later "
                      f"{op_str(small[-1])}",
                 dict(mesh=mesh, describe=t.describe(), ops=small, ops_text=[op_str(q) for q in small], altered_step=s0),
                 a, None, ["returned_object_stable"])
    return fails, altered


# --------------------------------------------------------------------------------------
# antimeridian_face_indices
# --------------------------------------------------------------------------------------


def check_am(ctx, ux, t: Truth):
    w = World(ux, t)
    shell, face = lean_am(ctx, t)
    inp = dict(mesh=dict(faces=t.faces, lon=[enc_float(x) for x in t.lon], lat=[enc_float(x) for x in t.lat]),
               describe=t.describe(), ops=[], check="antimeridian_face_indices")
    ctx.case(("am", t.faces, [round(float(x), 6) for x in t.lon]), nontrivial=any(shell))
    ctx.hit("antimeridian_face_indices")
    if shell != face:
        ctx.mismatch("C15/antimeridian_iff-on-floats", inp, shell, face)
    if not t.margin_ok(0):
        ctx.hit("am-margin-skip")
        return
    try:
        impl = sorted(int(i) for i in np.asarray(w.grid.antimeridian_face_indices).ravel())
    except Exception as e:  # noqa: BLE001
        ctx.fail("C15/antimeridian_face_indices/raises:" + type(e).__name__, f"antimeridian_face_indices raises {e}", inp)
        return
    want = [i for i, b in enumerate(face) if b]
    oracle = [i for i, b in enumerate(t.am[0]) if b]
    if want != oracle:
        ctx.mismatch("C15/am-oracle-vs-lean", inp, oracle, want)
    if impl != want:
        ctx.fail("C15/antimeridian_face_indices/differs", "antimeridian_face_indices is not the set of faces with a "
                 "boundary segment spanning >= 180 deg of longitude", inp, impl, want, ["antimeridian_iff"])


# --------------------------------------------------------------------------------------
# generators
# --------------------------------------------------------------------------------------


def strip(rng, k=None, clockwise=False):
    """k disjoint faces of 3..6 corners at chosen longitudes: front side, far side (NaN under
    Orthographic), on the limb, across the antimeridian, across the shifted antimeridian"""
    k = k or rng.randint(1, 6)
    lon, lat, faces = [], [], []
    for _ in range(k):
        # "seam*": faces over the seam (central_longitude + 180) of a shifted projection — lon 0, 60, -90, -80 — whose
        # seam-crossing set therefore differs from the set of faces with a >= 180 deg segment
        cls = rng.choice(["front", "far", "limb", "am", "am", "am100", "front", "seam0", "seam60", "seam-90"])
        c = {"front": rng.uniform(-50, 50), "far": rng.choice([-1, 1]) * rng.uniform(105, 165), "limb": rng.choice([-90, 90]),
             "am": rng.choice([-1, 1]) * rng.uniform(176, 179.9), "am100": rng.uniform(-84, -76),
             "seam0": rng.uniform(-3, 3), "seam60": rng.uniform(57, 63), "seam-90": rng.uniform(-93, -87)}[cls]
        clat = rng.uniform(-55, 55)
        m = rng.randint(3, 6)
        r = rng.uniform(4, 9)
        a0 = rng.uniform(0, 360)
        b = len(lon)
        for j in range(m):
            a = math.radians(a0 + 360.0 * j / m)
            lon.append(float(wrap(c + r * math.cos(a) / max(0.3, math.cos(math.radians(clat))))))
            lat.append(clat + r * math.sin(a))
        faces.append(list(range(b, b + m)))
    order = list(range(k))
    rng.shuffle(order)
    faces = [faces[i] for i in order]
    if clockwise:
        # a grid stored with clockwise faces (nothing in uxarray forbids it)
        faces = [f[::-1] if rng.random() < 0.6 else f for f in faces]
        faces[0] = sorted(faces[0], reverse=True)
    return faces, np.array(lon), np.array(lat), "strip-cw" if clockwise else "strip"


def crossing_at(rng):
    """grids of 3 (and 4) disjoint faces of mixed sizes with exactly NONE / ONE / TWO crossing faces, in EVERY face
    order — so the single crossing face is face 0, a middle face, the last face (index arrays [0], [1], [2], [0 1],
    [0 2], [1 2], [])"""
    import itertools

    def face(c, clat, m, r, a0):
        lo, la = [], []
        for j in range(m):
            a = math.radians(a0 + 360.0 * j / m)
            lo.append(float(wrap(c + r * math.cos(a) / max(0.3, math.cos(math.radians(clat))))))
            la.append(clat + r * math.sin(a))
        return lo, la

    out = []
    for ncross in (1, 2, 0):
        centres = [rng.choice([-1, 1]) * rng.uniform(177, 179.5) for _ in range(ncross)] + \
                  [rng.uniform(-60, 60) for _ in range(3 - ncross)]
        blocks = [face(c, rng.uniform(-50, 50), rng.choice([3, 4, 5, 6]), rng.uniform(4, 8), rng.uniform(0, 360))
                  for c in centres]
        perms = list(itertools.permutations(range(3))) if ncross else [(0, 1, 2)]
        for perm in perms:
            lon, lat, faces = [], [], []
            for b in perm:
                lo, la = blocks[b]
                faces.append(list(range(len(lon), len(lon) + len(lo))))
                lon += lo
                lat += la
            out.append((faces, np.array(lon), np.array(lat), "crossing-at"))
    # four faces, the single crossing one in each of the four positions
    blocks = [face(rng.choice([-1, 1]) * rng.uniform(177, 179.5), rng.uniform(-40, 40), 4, 6.0, rng.uniform(0, 360))] + \
             [face(rng.uniform(-100, 100), rng.uniform(-50, 50), rng.choice([3, 5, 6]), rng.uniform(4, 8), rng.uniform(0, 360))
              for _ in range(3)]
    for pos in range(4):
        order = [1, 2, 3]
        order.insert(pos, 0)
        lon, lat, faces = [], [], []
        for b in order:
            lo, la = blocks[b]
            faces.append(list(range(len(lon), len(lon) + len(lo))))
            lon += lo
            lat += la
        out.append((faces, np.array(lon), np.array(lat), "crossing-at"))
    return out


def comb_face(k, lat0, west=True, h=3.0, g=3.0):
    """a non-convex face (a comb: a spine with k arms; k=1 rectangle, k=2 a C / U, k=3 an E) whose k arms all reach
    across the antimeridian: 2k boundary segments cross it, so cutting it gives k + 1 pieces.  Counter-clockwise,
    simple in the lon/lat plane and on the sphere (arms and gaps are 3 deg high, far more than the great-circle
    sag of a 14 deg long side near the equator).  `west`: spine on the west side (lon 170..173, arms to 184) or
    mirrored (spine at -170..-173, arms to -184)."""
    x0, x1, xa = 170.0, 173.0, 184.0
    pts = [(x0, lat0)]
    y = lat0
    for j in range(k):
        pts += [(xa, y), (xa, y + h)]
        if j < k - 1:
            pts += [(x1, y + h), (x1, y + h + g)]
            y += h + g
    pts.append((x0, y + h))
    if not west:
        pts = [(-x, yy) for x, yy in pts][::-1]  # mirror and restore the counter-clockwise order
    return [float(wrap(x)) for x, _ in pts], [yy for _, yy in pts]


def combs(rng, big):
    """grids with a non-convex crossing face of 2 / 4 / 6 crossing segments (2 / 3 / 4 pieces) placed before, between
    and after ordinary faces and another crossing face — every order of the four faces for the 3-piece comb"""
    import itertools

    def grid(blocks, order):
        lon, lat, faces = [], [], []
        for b in order:
            lo, la = blocks[b]
            faces.append(list(range(len(lon), len(lon) + len(lo))))
            lon += lo
            lat += la
        return faces, np.array(lon), np.array(lat), "comb"

    def convex(c, clat, m, r):
        a0 = rng.uniform(0, 360)
        return ([float(wrap(c + r * math.cos(math.radians(a0 + 360.0 * j / m)))) for j in range(m)],
                [clat + r * math.sin(math.radians(a0 + 360.0 * j / m)) for j in range(m)])

    out = []
    for k in (2, 3, 1):
        blocks = [comb_face(k, rng.uniform(-14.0, -10.0), west=rng.random() < 0.5),
                  convex(rng.choice([-1, 1]) * rng.uniform(177, 179.5), rng.uniform(32, 40), 4, 5.0),
                  convex(rng.uniform(-60, 60), rng.uniform(-40, 40), 3, 6.0),
                  convex(rng.uniform(80, 140), rng.uniform(-40, 40), 5, 6.0)]
        perms = list(itertools.permutations(range(4)))
        if k != 2 and not big:
            perms = [perms[0], perms[-1]] + rng.sample(perms[1:-1], 4 if k == 3 else 1)
        out += [grid(blocks, perm) for perm in perms]
    # two combs (3 and 4 pieces) and two ordinary faces, a few orders
    blocks = [comb_face(2, -13.0, west=True), comb_face(3, 20.0, west=False),
              convex(rng.uniform(-60, 60), rng.uniform(-40, -20), 3, 6.0), convex(rng.uniform(80, 140), 0.0, 6, 6.0)]
    perms = list(itertools.permutations(range(4)))
    out += [grid(blocks, perm) for perm in (perms if big else [perms[0], perms[7], perms[16], perms[-1]])]
    return out


def exact180(rng):
    """faces with a boundary segment spanning EXACTLY 180 deg of longitude ("at least 180" in the property),
    next to ordinary ones; all longitudes are exact in float32"""
    lat0 = rng.choice([60.0, 70.0, -65.0])
    lon = [-90.0, 90.0, 0.0, 10.0, 20.0, 15.0, -45.0, 135.0, 45.0]
    lat = [lat0, lat0, lat0 - 12.0, 5.0, 5.0, 15.0, 30.0, 30.0, 20.0]
    faces = [[0, 1, 2], [3, 4, 5], [6, 7, 8]]
    rng.shuffle(faces)
    return faces, np.array(lon), np.array(lat), "exact180"


def from_amesh(m):
    return m.faces, m.lon, m.lat, m.kind


def mesh_stream(ctx, rng, big):
    out = [strip(rng) for _ in range(ctx.n(10, 60))]
    for k in (1, 2, 3):
        out.append(strip(rng, k))
    out.append(exact180(rng))
    out += crossing_at(rng)
    out += combs(rng, big)
    out += [strip(rng, rng.randint(2, 4), clockwise=True) for _ in range(ctx.n(2, 6))]
    zoo = meshes.zoo(rng, big=False)
    zoo += [meshes.patch(rng.choice([2, 3]), 2, lon0=rng.choice([168.0, 171.0, -179.0]), lat0=rng.choice([-20, 40])),
            meshes.patch(2, 2, lon0=-30.0, lat0=10.0), meshes.cube_sphere(2), meshes.prism(5, lat=50, lon0=rng.uniform(-180, 180))]
    if big:
        zoo += [meshes.cube_sphere(4), meshes.dual_of(meshes.hull(60, rng))]
    for m in zoo:
        if m.n_face <= (200 if big else 60):
            out.append(from_amesh(m))
    return out


def rand_op(rng, nvars=2, kinds=(0, 1, 2, 3, 4, 0, 1, 2, 3, 4, GETTER)):
    kind = rng.choice(kinds)
    if kind == GETTER:
        return mk_op(GETTER, 0, 0)
    pe = rng.choice([0, 0, 1, 2])
    proj = rng.choice([0, 0, 1, 2, 3, 4, 5, 6])
    if pe == 1 and rng.random() < 0.8:
        proj = 0
    return mk_op(kind, pe, proj, eng=rng.choice([0, 0, 1]), cache=rng.random() < 0.8, override=rng.random() < 0.2,
                 var=rng.randrange(nvars))


def directed_histories():
    """the shapes of history the known / repaired defects need, always exercised"""
    H = []
    for pe in (0, 2):
        H.append([mk_op(4, pe, 1), mk_op(4, pe, 0)])  # projected line, then unprojected
        H.append([mk_op(4, pe, 0), mk_op(4, pe, 2), mk_op(4, pe, 0)])
    H.append([mk_op(0, 0, 0), mk_op(1, 0, 0, var=0), mk_op(1, 0, 0, var=1), mk_op(0, 0, 0)])  # frame handed out, then data
    H.append([mk_op(1, 1, 0, var=0), mk_op(1, 1, 0, var=0)])
    H.append([mk_op(3, 0, 2), mk_op(2, 1, 0, cache=False), mk_op(3, 0, 2)])  # uncached conversion in between
    H.append([mk_op(3, 0, 0), mk_op(2, 0, 2, cache=False), mk_op(3, 0, 0, var=1)])
    H.append([mk_op(1, 0, 3), mk_op(0, 0, 0, cache=False, override=True), mk_op(1, 0, 3, var=1)])  # shifted antimeridian
    H.append([mk_op(1, 0, 0), mk_op(0, 0, 3, cache=False), mk_op(1, 0, 0, var=1)])
    H.append([mk_op(3, 0, 0), mk_op(2, 0, 3, cache=False), mk_op(3, 0, 0, var=1)])
    H.append([mk_op(3, 0, 2), mk_op(2, 0, 3, cache=False), mk_op(3, 0, 2, var=1)])
    H.append([mk_op(2, 0, 1), mk_op(2, 0, 0), mk_op(3, 0, 1), mk_op(3, 2, 0)])
    H.append([mk_op(0, 0, 1, eng=1), mk_op(0, 0, 1, eng=0), mk_op(1, 0, 1, eng=1)])
    H.append([mk_op(3, 1, 0), mk_op(3, 0, 0), mk_op(3, 1, 0, var=1)])
    # reads of Grid.antimeridian_face_indices: before any conversion, first read AFTER a conversion whose projection has
    # its seam elsewhere (GeoDataFrame, PolyCollection, LineCollection; cached or not), between conversions
    G = mk_op(GETTER, 0, 0)
    for p in (3, 4, 5, 6, 1):
        H.append([mk_op(0, 0, p), G])
        H.append([mk_op(3, 0, p), G, mk_op(1, 0, 0), G])
    H.append([G, mk_op(0, 0, 4), G, mk_op(2, 2, 5, cache=False), G])
    H.append([mk_op(4, 0, 6), G, mk_op(0, 2, 4, cache=False, override=True), G])
    H.append([mk_op(2, 0, 4, cache=False), G])
    return H


def run(ctx):
    import uxarray as ux

    ctx.rule = ("grids: 'strip' meshes (1..6 disjoint faces of 3..6 corners placed on the front side, the far side, the "
                "limb, across the antimeridian and across a shifted antimeridian, random order) + harness/meshes.zoo "
                "(prisms, cube-sphere, hull triangulations and duals, merged/split lattices incl. lattices straddling "
                "180 deg, fans, pole-covering faces); every single conversion (5 exporters x 3 periodic_elements x "
                "projection None/Robinson/Orthographic/Robinson(central_longitude=100) x 2 engines) on a new grid, "
                "directed and random histories of 2..7 conversions with random cache/override flags, engines and "
                "variables; distinct = distinct (mesh, history); non-trivial = a crossing face or more than one conversion")
    ctx.assumptions = [
        "vertex matching against the mesh's corner coordinates (1e-4 deg / 8 m) is the float step that turns a returned "
        "object into polygon->face indices; everything after it is decided by the Lean predicate Polys.Spec",
        "which faces a projection maps to NaN, where its antimeridian lies and how antimeridian.fix_polygon cuts a face are "
        "PARAMETERS of the Lean model, measured here with cartopy / antimeridian (third-party behaviour not verified)",
        "'split' pieces are judged by a shapely oracle (no piece edge spans >= 180 deg, pieces tile the unwrapped face); "
        "faces around a pole are identified but not judged for area",
        "with a projection the vertices must be the projected corners ('split' pieces stay in lon/lat: only the "
        "LineCollection accepts 'split' with a projection and documents that it does not project)",
        "the `project=` / `exclude_nan_polygons=` / `exclude_antimeridian=` keyword arguments are outside the property's "
        "quantifier and not generated",
        "NumPy / pandas / spatialpandas / geopandas / shapely / matplotlib semantics are tied to the model only by this "
        "differential run",
    ]
    rng = ctx.rng
    big = ctx.thorough or ctx.escalate
    # corpus first
    cdir = common.CORPUS / "C15"
    if cdir.is_dir():
        import json

        for f in sorted(cdir.glob("*.json")):
            replay(ctx, json.loads(f.read_text()), from_corpus=True)
    stream = mesh_stream(ctx, rng, big)
    n_hist = ctx.n(4, 14)
    for mi, (faces, lon, lat, kind) in enumerate(stream):
        t = Truth(faces, lon, lat)
        if not t.faces_simple():
            # e.g. a lattice generated across a pole: bow-tie faces are not faces (outside the property's quantifier)
            ctx.hit("mesh-skipped(self-intersecting face)")
            continue
        ctx.hit("mesh:" + kind.split("+")[0].rstrip("0123456789x"))
        check_am(ctx, ux, t)
        projs = [p for p in range(NPROJ) if t.usable[p] and t.margin_ok(p)]
        memo = {}
        # 1. every single conversion on a new grid (small meshes: all; larger: a random third)
        singles = []
        for kind_ in range(5):
            for pe in range(3):
                for p in projs:
                    for eng in ((0, 1) if kind_ < 2 else (0,)):
                        singles.append(mk_op(kind_, pe, p, eng=eng))
        # a segment of exactly 180 deg has no shorter way round: what 'split' should do is undefined
        # (antimeridian.fix_polygon returns the whole globe); such grids are judged for 'exclude' / 'ignore' only
        nosplit = {p for p in projs if not t.split_defined(p)}
        if nosplit:
            ctx.hit("split-undefined(exact 180 deg segment)")
        singles = [o for o in singles if not (PE[o["pe"]] == "split" and o["proj"] in nosplit)]
        if not big:
            singles = [o for o in singles if o["proj"] < 4 or rng.random() < 0.34]
        if kind == "crossing-at" and not big:
            singles = [o for o in singles if PE[o["pe"]] != "ignore" and o["proj"] in (0, 3)]
        if kind == "comb" and not big:
            singles = [o for o in singles if o["proj"] == 0]
        if t.n > 8 and not big:
            singles = rng.sample(singles, len(singles) // 3)
        for op in singles:
            report(ctx, ux, t, [op], "single", memo)
        # 2. histories
        hs = []
        if (mi % 3 == 0 or t.n <= 6) and not (kind in ("crossing-at", "comb") and not big):
            hs += [h for h in directed_histories() if all(o["proj"] in projs for o in h)]
        for _ in range((1 if kind in ("crossing-at", "comb") and not big else n_hist) if t.n <= 30 else max(1, n_hist // 3)):
            h = [rand_op(rng) for _ in range(rng.randint(2, 7))]
            hs.append([dict(o, proj=o["proj"] if o["proj"] in projs else 0) for o in h])
        for h in hs:
            h = [o for o in h if not (PE[o["pe"]] == "split" and o["proj"] in nosplit)]
            if 0 not in projs:
                h = [o for o in h if o["kind"] != GETTER]  # a segment within float32 rounding of 180 deg: not judged
            if h:
                report(ctx, ux, t, h, "history", memo)


def replay(ctx, rp, from_corpus=False):
    import uxarray as ux

    inp = rp["input"]
    m = inp["mesh"]
    t = Truth(m["faces"], [common.dec_float(x) for x in m["lon"]], [common.dec_float(x) for x in m["lat"]])
    if inp.get("check") == "antimeridian_face_indices" or not inp.get("ops"):
        check_am(ctx, ux, t)
        return
    report(ctx, ux, t, inp["ops"], "corpus" if from_corpus else "replay", {})
