"""Abstract mesh generators (independent of uxarray).

An ``AMesh`` is the *source of truth* the checks compare the implementation against: a list of
faces (real corners only, counter-clockwise seen from outside) over unit-vector nodes.
"""

from __future__ import annotations

import math

import numpy as np

from .common import INT_FILL


class AMesh:
    def __init__(self, faces, xyz, closed=False, kind=""):
        self.faces = [list(map(int, f)) for f in faces]
        xyz = np.asarray(xyz, dtype=float).reshape(-1, 3)
        self.xyz = xyz / np.linalg.norm(xyz, axis=1, keepdims=True)
        self.closed = closed
        self.kind = kind

    # ---- views ----
    @property
    def n_node(self):
        return len(self.xyz)

    @property
    def n_face(self):
        return len(self.faces)

    @property
    def width(self):
        return max(len(f) for f in self.faces)

    @property
    def lon(self):
        return np.degrees(np.arctan2(self.xyz[:, 1], self.xyz[:, 0]))

    @property
    def lat(self):
        return np.degrees(np.arcsin(np.clip(self.xyz[:, 2], -1, 1)))

    def table(self, w=None, fill=INT_FILL, dtype=np.int64, start=0):
        w = w or self.width
        t = np.full((self.n_face, w), fill, dtype=dtype)
        for i, f in enumerate(self.faces):
            t[i, : len(f)] = np.asarray(f) + start
        return t

    def rows(self, w=None):
        return self.table(w).tolist()

    def sizes(self):
        return [len(f) for f in self.faces]

    def key(self):
        return (self.kind, self.n_node, tuple(tuple(f) for f in self.faces[:50]))

    def describe(self):
        from collections import Counter

        return dict(
            kind=self.kind,
            n_node=self.n_node,
            n_face=self.n_face,
            closed=self.closed,
            sizes=dict(Counter(self.sizes())),
        )

    # ---- transformations ----
    def renumber(self, rng, nodes=True, faces=True, rotate=True):
        n = self.n_node
        perm = list(range(n))
        if nodes:
            rng.shuffle(perm)  # old -> new
        inv = [0] * n
        for old, new in enumerate(perm):
            inv[new] = old
        fs = [[perm[v] for v in f] for f in self.faces]
        if rotate:
            fs = [f[k:] + f[:k] for f in fs for k in [rng.randrange(len(f))]]
        if faces:
            rng.shuffle(fs)
        return AMesh(fs, self.xyz[inv], self.closed, self.kind + "+renum")

    def rotated(self, R):
        return AMesh(self.faces, self.xyz @ np.asarray(R).T, self.closed, self.kind + "+rot")

    def drop_faces(self, rng, frac=0.3, keep_min=1):
        k = max(keep_min, int(round(self.n_face * (1 - frac))))
        idx = sorted(rng.sample(range(self.n_face), k))
        return self.select(idx, kind=self.kind + "+holes")

    def select(self, idx, kind=None):
        fs = [self.faces[i] for i in idx]
        used = sorted({v for f in fs for v in f})
        m = {v: i for i, v in enumerate(used)}
        return AMesh([[m[v] for v in f] for f in fs], self.xyz[used], False, kind or self.kind + "+sel")

    def merge_some(self, rng, tries=None, maxk=8):
        """merge pairs of faces that share exactly one edge into one polygon"""
        faces = [list(f) for f in self.faces]
        alive = [True] * len(faces)
        tries = tries if tries is not None else max(1, len(faces) // 3)
        for _ in range(tries):
            live = [i for i, a in enumerate(alive) if a]
            if len(live) < 2:
                break
            a = rng.choice(live)
            fa = faces[a]
            ea = {frozenset((fa[j], fa[(j + 1) % len(fa)])): j for j in range(len(fa))}
            cands = []
            for b in live:
                if b == a:
                    continue
                fb = faces[b]
                sh = [
                    (ea[frozenset((fb[j], fb[(j + 1) % len(fb)]))], j)
                    for j in range(len(fb))
                    if frozenset((fb[j], fb[(j + 1) % len(fb)])) in ea
                ]
                if len(sh) == 1 and len(set(fa) & set(fb)) == 2 and len(fa) + len(fb) - 2 <= maxk:
                    cands.append((b, sh[0]))
            if not cands:
                continue
            b, (ja, jb) = rng.choice(cands)
            fb = faces[b]
            # fa: ... u v ...  (edge ja: u=fa[ja], v=fa[ja+1]);  fb has v u (edge jb: fb[jb]=v, fb[jb+1]=u)
            u, v = fa[ja], fa[(ja + 1) % len(fa)]
            if not (fb[jb] == v and fb[(jb + 1) % len(fb)] == u):
                continue  # inconsistent orientation: skip
            ra = fa[(ja + 1) % len(fa):] + fa[: (ja + 1) % len(fa)]  # starts at v ... ends at u
            rb = fb[(jb + 1) % len(fb):] + fb[: (jb + 1) % len(fb)]  # starts at u ... ends at v
            new = ra[:-1] + [u] + rb[1:-1]  # v ... (u) ... back to before v
            # ra = [v, ..., u]; rb = [u, ..., v]; polygon = v ... u (from a) then interior of rb
            if len(set(new)) != len(new):
                continue
            faces[a] = new
            alive[b] = False
        fs = [f for f, a in zip(faces, alive) if a]
        m = AMesh(fs, self.xyz, self.closed, self.kind + "+merge")
        used = sorted({v for f in fs for v in f})
        if len(used) != m.n_node:
            closed = self.closed
            m = m.select(range(len(fs)), kind=self.kind + "+merge")
            m.closed = closed
        return m

    def split_some(self, rng, p=0.5):
        fs = []
        for f in self.faces:
            if len(f) >= 4 and rng.random() < p:
                k = rng.randrange(2, len(f) - 1)
                fs.append(f[: k + 1])
                fs.append(f[k:] + [f[0]])
            else:
                fs.append(f)
        return AMesh(fs, self.xyz, self.closed, self.kind + "+split")


def _ll(lon, lat):
    lon, lat = math.radians(lon), math.radians(lat)
    return [math.cos(lat) * math.cos(lon), math.cos(lat) * math.sin(lon), math.sin(lat)]


def _orient(faces, xyz):
    """make every face counter-clockwise seen from outside"""
    out = []
    for f in faces:
        p = xyz[list(f)]
        c = p.mean(axis=0)
        nrm = np.zeros(3)
        for j in range(len(f)):
            nrm += np.cross(p[j], p[(j + 1) % len(f)])
        out.append(list(f) if nrm @ c >= 0 else list(f)[::-1])
    return out


def prism(k, lat=35.0, lon0=0.0):
    top = [_ll(lon0 + 360.0 * i / k, lat) for i in range(k)]
    bot = [_ll(lon0 + 360.0 * i / k, -lat) for i in range(k)]
    xyz = np.array(top + bot)
    faces = [list(range(k)), list(range(2 * k - 1, k - 1, -1))]
    for i in range(k):
        j = (i + 1) % k
        faces.append([k + i, k + j, j, i])
    return AMesh(_orient(faces, xyz), xyz, True, f"prism{k}")


def antiprism(k, lat=30.0, lon0=0.0):
    top = [_ll(lon0 + 360.0 * i / k, lat) for i in range(k)]
    bot = [_ll(lon0 + 360.0 * (i + 0.5) / k, -lat) for i in range(k)]
    xyz = np.array(top + bot)
    faces = [list(range(k)), list(range(2 * k - 1, k - 1, -1))]
    for i in range(k):
        j = (i + 1) % k
        faces.append([i, k + i, j])
        faces.append([j, k + i, k + j])
    return AMesh(_orient(faces, xyz), xyz, True, f"antiprism{k}")


def bipyramid(k, lon0=0.0):
    """two poles of valence k and k equatorial nodes of valence 4"""
    eq = [_ll(lon0 + 360.0 * i / k, 0.0) for i in range(k)]
    xyz = np.array(eq + [[0, 0, 1.0], [0, 0, -1.0]])
    faces = []
    for i in range(k):
        j = (i + 1) % k
        faces.append([i, j, k])
        faces.append([j, i, k + 1])
    return AMesh(_orient(faces, xyz), xyz, True, f"bipyramid{k}")


def cube_sphere(n):
    idx, pts, faces = {}, [], []

    def node(p):
        key = tuple(np.round(p, 9))
        if key not in idx:
            idx[key] = len(pts)
            pts.append(p)
        return idx[key]

    axes = [
        (np.array([1, 0, 0.0]), np.array([0, 1, 0.0]), np.array([0, 0, 1.0])),
        (np.array([-1, 0, 0.0]), np.array([0, 0, 1.0]), np.array([0, 1, 0.0])),
        (np.array([0, 1, 0.0]), np.array([0, 0, 1.0]), np.array([1, 0, 0.0])),
        (np.array([0, -1, 0.0]), np.array([1, 0, 0.0]), np.array([0, 0, 1.0])),
        (np.array([0, 0, 1.0]), np.array([1, 0, 0.0]), np.array([0, 1, 0.0])),
        (np.array([0, 0, -1.0]), np.array([0, 1, 0.0]), np.array([1, 0, 0.0])),
    ]
    g = np.tan(np.linspace(-math.pi / 4, math.pi / 4, n + 1))
    for c, u, v in axes:
        for i in range(n):
            for j in range(n):
                q = [c + g[a] * u + g[b] * v for a, b in ((i, j), (i + 1, j), (i + 1, j + 1), (i, j + 1))]
                faces.append([node(p) for p in q])
    xyz = np.array(pts)
    xyz = xyz / np.linalg.norm(xyz, axis=1, keepdims=True)
    return AMesh(_orient(faces, xyz), xyz, True, f"cubesphere{n}")


def hull(npts, rng, kind="hull"):
    """closed triangulation: convex hull of random points on the sphere"""
    from scipy.spatial import ConvexHull

    # the hull's faces tile the sphere only when the centre lies strictly inside the hull (with few
    # points it often does not: a "back" face then covers more than a hemisphere and the face rings
    # around a node are no longer angularly ordered) — redraw until it does
    for _ in range(200):
        pts = np.array([[rng.gauss(0, 1) for _ in range(3)] for _ in range(npts)])
        pts /= np.linalg.norm(pts, axis=1, keepdims=True)
        h = ConvexHull(pts)
        if (h.equations[:, 3] < -0.05).all():
            break
    return AMesh(_orient(h.simplices.tolist(), pts), pts, True, f"{kind}{npts}")


def icosa():
    t = (1 + 5**0.5) / 2
    v = [(-1, t, 0), (1, t, 0), (-1, -t, 0), (1, -t, 0), (0, -1, t), (0, 1, t), (0, -1, -t), (0, 1, -t),
         (t, 0, -1), (t, 0, 1), (-t, 0, -1), (-t, 0, 1)]
    f = [(0, 11, 5), (0, 5, 1), (0, 1, 7), (0, 7, 10), (0, 10, 11), (1, 5, 9), (5, 11, 4), (11, 10, 2),
         (10, 7, 6), (7, 1, 8), (3, 9, 4), (3, 4, 2), (3, 2, 6), (3, 6, 8), (3, 8, 9), (4, 9, 5),
         (2, 4, 11), (6, 2, 10), (8, 6, 7), (9, 8, 1)]
    xyz = np.array(v, dtype=float)
    return AMesh(_orient(f, xyz), xyz, True, "icosa")


def dual_of(m: AMesh):
    """abstract dual of a closed mesh: one node per face (normalised mean of corners), one face per
    node (its faces in counter-clockwise order)."""
    cent = np.array([m.xyz[f].mean(axis=0) for f in m.faces])
    cent /= np.linalg.norm(cent, axis=1, keepdims=True)
    inc = [[] for _ in range(m.n_node)]
    for fi, f in enumerate(m.faces):
        for v in f:
            inc[v].append(fi)
    faces = []
    for v, fl in enumerate(inc):
        if len(fl) < 3:
            continue
        p = m.xyz[v]
        a = np.cross(p, [0.3, 0.5, 0.81])
        a /= np.linalg.norm(a)
        b = np.cross(p, a)
        ang = [math.atan2((cent[f] - p) @ b, (cent[f] - p) @ a) for f in fl]
        faces.append([f for _, f in sorted(zip(ang, fl))])
    return AMesh(_orient(faces, cent), cent, m.closed, m.kind + "+dual")


def patch(nx, ny, lon0=-20.0, lat0=-15.0, dlon=8.0, dlat=7.0):
    """partial quad lattice of nx × ny faces (kept off the poles: a lattice running past 90 degrees would
    contain self-intersecting faces)"""
    lat0 = min(lat0, 86.0 - ny * dlat)
    lat0 = max(lat0, -86.0)
    xyz = np.array([_ll(lon0 + i * dlon, lat0 + j * dlat) for j in range(ny + 1) for i in range(nx + 1)])
    faces = []
    for j in range(ny):
        for i in range(nx):
            a = j * (nx + 1) + i
            faces.append([a, a + 1, a + nx + 2, a + nx + 1])
    return AMesh(_orient(faces, xyz), xyz, False, f"patch{nx}x{ny}")


def fan(k, lon0=10.0, lat0=20.0, r=12.0, full=True):
    """k triangles around a centre node (valence k); full ring or open fan"""
    c = np.array(_ll(lon0, lat0))
    a = np.cross(c, [0, 0, 1.0])
    a /= np.linalg.norm(a)
    b = np.cross(c, a)
    rr = math.radians(r)
    n = k if full else k + 1
    ring = [math.cos(rr) * c + math.sin(rr) * (math.cos(t) * a + math.sin(t) * b)
            for t in [2 * math.pi * i / (k if full else k + 3) for i in range(n)]]
    xyz = np.array([c] + ring)
    faces = [[0, 1 + i, 1 + (i + 1) % n] for i in range(k)]
    return AMesh(_orient(faces, xyz), xyz, False, f"fan{k}{'' if full else 'open'}")


def isolated(k=2):
    """k pairwise disjoint triangles (faces without neighbours)"""
    xyz, faces = [], []
    for i in range(k):
        l0 = -150 + i * 60
        xyz += [_ll(l0, 10), _ll(l0 + 10, 10), _ll(l0 + 5, 20)]
        faces.append([3 * i, 3 * i + 1, 3 * i + 2])
    xyz = np.array(xyz)
    return AMesh(_orient(faces, xyz), xyz, False, f"isolated{k}")


def archipelago(rng):
    """a quad patch + far-away isolated triangles + a triangle touching the patch at one corner
    only (no shared edge), faces in random order: faces WITHOUT neighbours are interleaved with
    faces that have some"""
    nx, ny = rng.choice([1, 2, 3]), rng.choice([1, 2])
    p = patch(nx, ny, lon0=-20.0, lat0=-15.0)
    xyz = [tuple(v) for v in p.xyz]
    faces = [list(f) for f in p.faces]
    for i in range(rng.choice([1, 2, 3])):
        l0 = 60 + i * 40
        b = len(xyz)
        xyz += [_ll(l0, 10 + 5 * i), _ll(l0 + 10, 10 + 5 * i), _ll(l0 + 5, 20 + 5 * i)]
        faces.append([b, b + 1, b + 2])
    if rng.random() < 0.7:
        # corner-touching triangle at node 0 (lon -20, lat -15)
        b = len(xyz)
        xyz += [_ll(-30, -25), _ll(-22, -28)]
        faces.append([0, b, b + 1])
    xyz = np.array(xyz)
    order = list(range(len(faces)))
    rng.shuffle(order)
    faces = [faces[i] for i in order]
    return AMesh(_orient(faces, xyz), xyz, False, "archipelago")


def with_orphans(m, rng, where=None):
    """the same faces plus 1-3 nodes that no face uses (valence 0), inserted at the start, the middle or
    the end of the node numbering (a cut-out that kept its parent's node arrays)"""
    where = where or rng.choice(["start", "middle", "end"])
    k = rng.randint(1, 3)
    n = m.n_node
    pos = {"start": 0, "middle": max(1, n // 2), "end": n}[where]
    extra = np.array([_ll(rng.uniform(-170, 170), rng.uniform(-80, 80)) for _ in range(k)])
    xyz = np.vstack([m.xyz[:pos], extra, m.xyz[pos:]])
    ren = lambda v: v if v < pos else v + k
    return AMesh([[ren(v) for v in f] for f in m.faces], xyz, False, m.kind + "+orphans@" + where)


def random_rotation(rng):
    q = np.array([rng.gauss(0, 1) for _ in range(4)])
    q /= np.linalg.norm(q)
    w, x, y, z = q
    return np.array([
        [1 - 2 * (y * y + z * z), 2 * (x * y - z * w), 2 * (x * z + y * w)],
        [2 * (x * y + z * w), 1 - 2 * (x * x + z * z), 2 * (y * z - x * w)],
        [2 * (x * z - y * w), 2 * (y * z + x * w), 1 - 2 * (x * x + y * y)],
    ])


def zoo(rng, big=False):
    """a varied stream of meshes: closed and partial, all face sizes 3..8, all padding layouts"""
    out = []
    for k in (3, 4, 5, 6, 7, 8):
        out.append(prism(k, lat=20 + 5 * k, lon0=rng.uniform(-180, 180)))
    out += [antiprism(rng.choice([3, 4, 5, 6])), bipyramid(rng.choice([3, 4, 5, 6, 7, 8])), icosa()]
    out.append(cube_sphere(rng.choice([1, 2, 3])))
    h = hull(rng.choice([8, 12, 20, 30]), rng)
    out += [h, dual_of(h)]
    out.append(h.merge_some(rng))
    out.append(dual_of(hull(rng.choice([10, 16, 24]), rng)).merge_some(rng, tries=4))
    p = patch(rng.choice([1, 2, 3, 4]), rng.choice([1, 2, 3]), lon0=rng.choice([-30, 150, 170, -5]),
              lat0=rng.choice([-20, 40, 70, -80]))
    out += [p, p.split_some(rng), p.split_some(rng).merge_some(rng)]
    out += [fan(rng.choice([3, 4, 5, 6, 7, 8])), fan(rng.choice([3, 4, 5]), full=False), isolated(rng.choice([1, 2, 3])), archipelago(rng)]
    out.append(cube_sphere(2).drop_faces(rng, 0.4))
    out.append(dual_of(hull(14, rng)).drop_faces(rng, 0.3))
    if big:
        out.append(cube_sphere(rng.choice([6, 8])))
        hb = hull(rng.choice([120, 200]), rng)
        out += [hb, dual_of(hb), hb.merge_some(rng, tries=60)]
    # random rotations / renumberings of a subset
    res = []
    for m in out:
        if rng.random() < 0.5:
            m = m.rotated(random_rotation(rng))
        if rng.random() < 0.7:
            m = m.renumber(rng)
        res.append(m)
    return res


def to_grid(m: AMesh, ux, latlon=True, **kw):
    """Build a Grid through the public explicit-topology constructor."""
    return ux.Grid.from_topology(
        node_lon=m.lon.copy(),
        node_lat=m.lat.copy(),
        face_node_connectivity=m.table().copy(),
        fill_value=INT_FILL,
        **kw,
    )
