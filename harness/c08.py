"""C08 — reading from a grid never changes what any grid reports.

Lean side (Model/Caches.lean, Props/C08.lean): a world = list of grid states + module globals; a
grid state = lazy variable store driven by a table of populate units (what each derivation reads,
writes, overwrites, leaks), F5 cells, keyed caches.  Results are terms, the reference is the pure
recursion `fresh`.  Theorems for ANY well-formed table and ANY read-only history over ANY number of
grids: `lookup_sound`, `world_history_independent`, `frame`, `export_superset`, `globals_const`;
as-is counterexamples for the defects of the snapshot.

Tie (this file): history fuzzing.

* reference value of (source, op, args) = what a freshly opened copy of the same source returns for
  that call, computed in a separate reference worker process that restores every module-level
  container of uxarray.conventions.* / uxarray.constants before every evaluation (snapshot taken
  right after import); in the thorough tier a sample is recomputed in truly fresh interpreters.
* witness histories of the snapshot's defects (Lean `asis_*`), chunk→X, ordered pairs, SATURATION
  histories (read everything, read everything again, export: catches in-place rewrites of stored
  variables), argument CROSS-TALK histories (every exporter/tree/area call with arguments followed by
  the getter of every cell it could leave something in), then
  random read-only histories (every lazily derived attribute of docs/api.rst, compute_face_areas
  variants, tree getters, exporters, chunk, isel, subset.*, get_dual, copy, cross sections …)
  interleaved over 1..3 grids; EVERY step is an observation and is compared with the reference
  (arrays exactly: dtype, shape, bytes; trees by their answers to a fixed query battery; geometry by
  coordinates); uxarray.conventions.* / constants digested before/after every op.
* the verdict on the observed trace is the Lean predicate `Caches.traceOK` (driver `C08.spec`):
  value steps equal their reference, export / inventory steps are supersets of the fresh export
  whose extra entries equal the fresh grid's derived value, globals constant.
* the Lean model (`C08.model`) predicts, for the same history, which variables each grid's store
  holds after every step and which are dask-backed; compared with `Grid._ds`.
* JIT off: a second worker with numba disabled replays histories; its observations are compared
  with the JIT-on references (floats to 1e-5 relative / 1e-8 absolute: the compiled and the interpreted
  kernels round differently and arccos near 1 amplifies it — rounding, not history).
"""

from __future__ import annotations

import hashlib
import io
import json
import os
import subprocess
import sys
import contextlib

import numpy as np

if __name__ == "__main__":  # worker mode: make `harness` importable
    sys.path.insert(0, os.path.dirname(os.path.dirname(os.path.abspath(__file__))))

from harness import common, meshes  # noqa: E402
from harness.common import INT_FILL  # noqa: E402

# --------------------------------------------------------------------------------------
# variables of the model (ids shared with Model/Caches.lean `Var`)
# --------------------------------------------------------------------------------------

VARS = [
    "node_lon", "node_lat", "node_x", "node_y", "node_z",
    "edge_lon", "edge_lat", "edge_x", "edge_y", "edge_z",
    "face_lon", "face_lat", "face_x", "face_y", "face_z",
    "face_node_connectivity", "edge_node_connectivity", "face_edge_connectivity",
    "edge_face_connectivity", "face_face_connectivity", "node_face_connectivity",
    "n_nodes_per_face", "face_areas", "bounds", "edge_node_distances", "edge_face_distances",
    "hole_edge_indices", "edge_node_z",
    # cells outside Grid._ds
    "antimeridian_face_indices", "face_jacobian",
]
VID = {n: i for i, n in enumerate(VARS)}
N_DS_VARS = VARS.index("antimeridian_face_indices")

# attributes whose value is an inventory of what is stored (judged by the superset rule)
INVENTORY = ["dims", "sizes", "coordinates", "connectivity", "descriptors"]
# other plain attributes
PLAIN = ["attrs", "n_node", "n_edge", "n_face", "n_max_face_nodes", "n_max_face_edges", "n_max_face_faces",
         "n_max_node_faces", "n_max_edge_edges", "n_max_node_edges", "edge_edge_connectivity",
         "node_node_connectivity", "node_edge_connectivity", "source_grid_spec"]

SAMPLE_FILES = {
    "mpas": "test/meshfiles/mpas/QU/mesh.QU.1920km.151026.nc",
    "quadhex": "test/meshfiles/ugrid/quad-hexagon/grid.nc",
    "geoflow": "test/meshfiles/ugrid/geoflow-small/grid.nc",
    "scrip8": "test/meshfiles/scrip/outCSne8/outCSne8.nc",
    "exodus8": "test/meshfiles/exodus/outCSne8/outCSne8.g",
    "exomixed": "test/meshfiles/exodus/mixed/mixed.exo",
}

# --------------------------------------------------------------------------------------
# canonical observations
# --------------------------------------------------------------------------------------


def _sha(b):
    return hashlib.sha1(b).hexdigest()[:16]


FULL = [False]  # include the data of small float arrays (JIT-off comparison needs a tolerance)


def canon(x, depth=0):
    """JSON-able canonical form; arrays are (dtype, shape, digest, a few leading values)."""
    import xarray as xr

    if depth > 8:
        return ["deep", type(x).__name__]
    if x is None:
        return ["none"]
    if isinstance(x, (bool, np.bool_)):
        return ["bool", bool(x)]
    if isinstance(x, (int, np.integer)):
        return ["int", int(x)]
    if isinstance(x, (float, np.floating)):
        return ["float", float(x).hex()]
    if isinstance(x, str):
        return ["str", x]
    if isinstance(x, memoryview):
        x = np.asarray(x)
    if type(x).__module__.startswith("dask"):
        x = np.asarray(x)
    if isinstance(x, np.ndarray):
        if x.dtype == object:
            return ["objarr", list(x.shape), [canon(v, depth + 1) for v in x.ravel().tolist()[:50]]]
        a = np.ascontiguousarray(x)
        head = a.ravel()[:6].tolist()
        head = [h.hex() if isinstance(h, float) else (int(h) if isinstance(h, (int, np.integer)) else repr(h)) for h in head]
        out = ["arr", str(a.dtype), list(a.shape), _sha(a.tobytes()), head]
        if FULL[0] and a.dtype.kind == "f" and a.size <= 20000:
            out.append([float(v).hex() for v in a.ravel().tolist()])
        return out
    if isinstance(x, xr.DataArray):
        return ["da", list(map(str, x.dims)), canon(np.asarray(x.values), depth + 1),
                canon(dict(x.attrs), depth + 1)]
    if isinstance(x, xr.Dataset):
        return ["ds", {str(k): canon(x[k], depth + 1) for k in sorted(map(str, x.variables)) if str(k) != "qa_records"},
                canon(dict(x.attrs), depth + 1)]
    if isinstance(x, dict):
        return ["dict", {str(k): canon(v, depth + 1) for k, v in sorted(x.items(), key=lambda kv: str(kv[0]))}]
    if isinstance(x, (set, frozenset)):
        return ["set", sorted(map(str, x))]
    if isinstance(x, (list, tuple)):
        return ["seq", [canon(v, depth + 1) for v in x]]
    mod = type(x).__module__ or ""
    name = type(x).__name__
    if mod.startswith("pandas"):
        try:
            return ["pd", name, _sha(repr(x.to_numpy().tolist() if hasattr(x, "to_numpy") else x).encode())]
        except Exception:
            return ["pd", name, _sha(repr(x).encode())]
    if name == "Grid" and mod.startswith("uxarray"):
        return grid_digest(x)
    if name in ("BallTree", "KDTree") and mod.startswith("uxarray"):
        return tree_digest(x)
    if name == "GeoDataFrame":
        return gdf_digest(x)
    if name in ("PolyCollection", "LineCollection"):
        return collection_digest(x)
    return ["obj", name]


def grid_digest(g):
    """what a grid handed back by isel / subset / get_dual / copy reports (values only)"""
    out = {}
    for n in ("node_lon", "node_lat", "face_node_connectivity", "n_nodes_per_face", "edge_node_connectivity",
              "face_edge_connectivity", "face_lon", "face_lat", "face_areas"):
        try:
            out[n] = canon(np.asarray(getattr(g, n).values))
        except Exception as e:
            out[n] = ["raises", type(e).__name__]
    out["sizes"] = canon({k: int(v) for k, v in g.sizes.items() if k in ("n_node", "n_face", "n_edge")})
    out["spec"] = ["str", str(g.source_grid_spec)]
    return ["grid", out]


QUERY_LONLAT = [(0.0, 0.0), (35.0, 41.0), (-120.0, -30.0), (179.0, 5.0), (-75.0, 88.0)]


def _xyz(lon, lat):
    lon, lat = np.radians(lon), np.radians(lat)
    return [float(np.cos(lat) * np.cos(lon)), float(np.cos(lat) * np.sin(lon)), float(np.sin(lat))]


TREE_CTX = {}  # public element counts of the grid the observed tree was requested from


def tree_digest(t):
    """a tree is observed through its answers to a fixed query battery.  k is drawn from the
    BOUNDARIES of the grid's public element counts (never from the wrapper's own bookkeeping), so
    that what the wrapper accepts / rejects — and with which exception type — is part of the
    observation; radii 0 / tiny / moderate / huge."""
    out = {"coords": ["str", str(t._coordinates)], "system": ["str", str(t.coordinate_system)],
           "metric": ["str", str(t.distance_metric)]}
    counts = dict(TREE_CTX)
    n_kind = counts.get({"nodes": "n_node", "face centers": "n_face", "edge centers": "n_edge"}.get(str(t._coordinates), ""), 3)
    ks = []
    for k in [1, 2, 3, n_kind, n_kind + 1, 0] + [c + d for c in counts.values() for d in (0, 1)]:
        if k not in ks:
            ks.append(k)
    sph = t.coordinate_system == "spherical"
    for i, (lon, lat) in enumerate(QUERY_LONLAT):
        q = [lon, lat] if sph else _xyz(lon, lat)
        for k in (ks if i == 0 else [min(3, max(1, n_kind))]):
            try:
                d, ind = t.query(q, k=k, return_distance=True)
                out[f"knn{i}:k={k}"] = ["seq", [canon(np.asarray(d)), canon(np.asarray(ind))]]
            except Exception as e:
                out[f"knn{i}:k={k}"] = ["raises", type(e).__name__]
        for r in ([0.0, 1e-9, 25.0 if sph else 0.4, 180.0 if sph else 3.0] if i == 0 else [25.0 if sph else 0.4]):
            try:
                d, ind = t.query_radius(q, r=r, return_distance=True)
                o = np.argsort(np.asarray(ind), kind="stable")
                out[f"rad{i}:r={r}"] = ["seq", [canon(np.asarray(d)[o]), canon(np.asarray(ind)[o])]]
            except Exception as e:
                out[f"rad{i}:r={r}"] = ["raises", type(e).__name__]
    return ["tree", type(t).__name__, out]


def gdf_digest(gdf):
    cols = [str(c) for c in gdf.columns]
    geom = gdf["geometry"]
    try:
        vals = geom.values
        if hasattr(vals, "buffer_values"):  # spatialpandas
            parts = [np.asarray(vals.buffer_values)]
            for o in getattr(vals, "buffer_offsets", ()):
                parts.append(np.asarray(o))
            return ["gdf", "spatialpandas", cols, int(len(gdf)), [canon(p) for p in parts]]
        import shapely

        co = shapely.get_coordinates(np.asarray(vals))
        nparts = np.asarray(shapely.get_num_coordinates(np.asarray(vals)))
        return ["gdf", "geopandas", cols, int(len(gdf)), [canon(co), canon(nparts)]]
    except Exception as e:  # pragma: no cover
        return ["gdf", "opaque", cols, int(len(gdf)), type(e).__name__]


def collection_digest(c):
    try:
        if type(c).__name__ == "LineCollection":
            segs = c.get_segments()
        else:
            segs = [p.vertices for p in c.get_paths()]
        lens = np.asarray([len(s) for s in segs], dtype=np.int64)
        flat = np.concatenate([np.asarray(s, dtype=np.float64).reshape(-1, 2) for s in segs]) if len(segs) else np.zeros((0, 2))
        return ["coll", type(c).__name__, int(len(segs)), canon(lens), canon(flat)]
    except Exception as e:  # pragma: no cover
        return ["coll", type(c).__name__, "opaque", type(e).__name__]


def strip(c):
    """drop the diagnostic parts (leading values, full data) of array forms"""
    if isinstance(c, list):
        if c and c[0] == "arr":
            return c[:4]
        return [strip(x) for x in c]
    if isinstance(c, dict):
        return {k: strip(v) for k, v in c.items()}
    return c


def digest(c):
    return _sha(json.dumps(strip(c), sort_keys=True).encode())


def close(a, b, rtol=1e-5, atol=1e-8):
    """structural equality with a float tolerance on arrays that carry their data"""
    if type(a) is not type(b):
        return False
    if isinstance(a, dict):
        return set(a) == set(b) and all(close(a[k], b[k], rtol, atol) for k in a)
    if isinstance(a, list):
        if a and a[0] == "arr" and b and b[0] == "arr":
            if a[:4] == b[:4]:
                return True
            # numba unifies float32/float64 differently from NumPy's promotion: a result may be float32 in
            # one mode and float64 in the other (single-precision sources only); same shape, values to
            # single-precision rounding
            both_float = a[1].startswith("float") and b[1].startswith("float")
            if a[2] != b[2] or (a[1] != b[1] and not both_float) or len(a) < 6 or len(b) < 6:
                return False
            x = np.array([float.fromhex(v) for v in a[5]])
            y = np.array([float.fromhex(v) for v in b[5]])
            if a[1] != "float64" or b[1] != "float64":  # single precision results
                rtol, atol = max(rtol, 1e-4), max(atol, 1e-6)
            return bool(np.allclose(x, y, rtol=rtol, atol=atol, equal_nan=True))
        if a and a[0] == "float" and b and b[0] == "float":
            x, y = float.fromhex(a[1]), float.fromhex(b[1])
            return x == y or abs(x - y) <= atol + rtol * abs(y) or (x != x and y != y)
        return len(a) == len(b) and all(close(x, y, rtol, atol) for x, y in zip(a, b))
    return a == b


def first_diff(a, b, path=""):
    """path of the first difference between two canonical forms"""
    if type(a) is not type(b):
        return path or "/"
    if isinstance(a, dict):
        for k in sorted(set(a) | set(b)):
            if k not in a or k not in b:
                return f"{path}/{k}(missing)"
            d = first_diff(a[k], b[k], f"{path}/{k}")
            if d:
                return d
        return None
    if isinstance(a, list):
        if a and a[0] == "arr" and b and b[0] == "arr":
            return None if a[:4] == b[:4] else f"{path}[arr {a[1]}{a[2]} vs {b[1]}{b[2]}]"
        if len(a) != len(b):
            return f"{path}(len)"
        for i, (x, y) in enumerate(zip(a, b)):
            d = first_diff(x, y, f"{path}.{i}")
            if d:
                return d
        return None
    return None if a == b else path or "/"


# --------------------------------------------------------------------------------------
# module-level containers of the library
# --------------------------------------------------------------------------------------

GLOBAL_MODULES = ["uxarray.conventions.ugrid", "uxarray.conventions.descriptors", "uxarray.constants"]


class Globals:
    """snapshot / restore / digest of every module-level container and constant"""

    def __init__(self):
        import copy
        import importlib

        self.mods = [importlib.import_module(m) for m in GLOBAL_MODULES]
        self.snap = {}
        for m in self.mods:
            for k, v in vars(m).items():
                if k.startswith("__") or callable(v) or type(v).__name__ == "module":
                    continue
                self.snap[(m.__name__, k)] = copy.deepcopy(v)
        self.initial = self.digests()

    def digests(self):
        out = {}
        for m in self.mods:
            for k, v in vars(m).items():
                if k.startswith("__") or callable(v) or type(v).__name__ == "module":
                    continue
                out[m.__name__.split(".")[-1] + "." + k] = digest(canon(v))
        return out

    def wide(self):
        """every module-level dict / list / set / ndarray of every loaded uxarray.* module"""
        out = {}
        for name, m in list(sys.modules.items()):
            if not (name == "uxarray" or name.startswith("uxarray.")) or m is None:
                continue
            for k, v in list(vars(m).items()):
                if k.startswith("__"):
                    continue
                if isinstance(v, (dict, list, set, np.ndarray)):
                    try:
                        out[name + "." + k] = digest(canon(v))
                    except Exception:
                        out[name + "." + k] = "undigestable"
        return out

    def changed(self, before=None):
        cur = self.digests()
        ref = before if before is not None else self.initial
        return sorted(k for k in set(cur) | set(ref) if cur.get(k) != ref.get(k))

    def restore(self):
        """put every container back to its post-import content IN PLACE (aliases between the
        containers, e.g. CONNECTIVITY[...]['attrs'] is EDGE_NODE_CONNECTIVITY_ATTRS, are kept)"""
        import copy

        def skip(k, v):
            return k.startswith("__") or callable(v) or type(v).__name__ == "module"

        for m in self.mods:
            for k in list(vars(m)):
                if (m.__name__, k) not in self.snap and not skip(k, vars(m)[k]):
                    delattr(m, k)
            for (mn, k), v in self.snap.items():
                if mn != m.__name__:
                    continue
                cur = vars(m).get(k)
                if isinstance(cur, (dict, list)) and type(cur) is type(v):
                    _restore_obj(cur, v)
                elif digest(canon(cur)) != digest(canon(v)):
                    setattr(m, k, copy.deepcopy(v))


def _restore_obj(cur, snap):
    import copy

    if isinstance(cur, dict):
        for kk in list(cur):
            if kk not in snap:
                del cur[kk]
        for kk, vv in snap.items():
            c = cur.get(kk)
            if isinstance(c, (dict, list)) and type(c) is type(vv):
                _restore_obj(c, vv)
            else:
                cur[kk] = copy.deepcopy(vv)
    else:
        if len(cur) == len(snap) and all(isinstance(c, (dict, list)) and type(c) is type(v) for c, v in zip(cur, snap)):
            for c, v in zip(cur, snap):
                _restore_obj(c, v)
        else:
            cur[:] = copy.deepcopy(snap)


# --------------------------------------------------------------------------------------
# sources: a JSON-able recipe for "open a fresh copy"
# --------------------------------------------------------------------------------------


def mesh_source(m, variant="plain", rng=None, name=None):
    """explicit-topology source from an abstract mesh"""
    lon, lat = m.lon.copy(), m.lat.copy()
    spec = dict(kind="topology", name=name or (m.kind + ":" + variant), lon=lon.tolist(), lat=lat.tolist(),
                faces=[list(f) for f in m.faces], variant=variant)
    if variant == "lon360":
        spec["lon"] = [(x + 360.0) if x < 0 else x for x in spec["lon"]]
    if variant in ("edges", "edges+coords", "edges-incomplete", "edges-incomplete+coords"):
        es = sorted({tuple(sorted((f[i], f[(i + 1) % len(f)]))) for f in m.faces for i in range(len(f))})
        order = list(range(len(es)))
        (rng or __import__("random").Random(1)).shuffle(order)
        flip = [(rng.random() < 0.5) if rng else (i % 2 == 0) for i in range(len(es))]
        spec["edge_node"] = [list(es[i][::-1] if fl else es[i]) for i, fl in zip(order, flip)]
        if variant.startswith("edges-incomplete"):
            # an INCONSISTENT source: the supplied table does not list every edge of the faces
            spec["edge_node"] = spec["edge_node"][: max(1, len(es) - 2)]
            spec["incomplete"] = True
    if variant == "xyz":
        spec["xyz"] = m.xyz.tolist()
    return spec


def file_source(key):
    return dict(kind="file", name="file:" + key, path=SAMPLE_FILES[key])


def facevert_source(m, name=None):
    fv = [[[float(m.lon[v]), float(m.lat[v])] for v in f] for f in m.faces]
    w = max(len(f) for f in fv)
    if any(len(f) != w for f in fv):
        raise ValueError("face vertices need a uniform face size")
    return dict(kind="face_vertices", name=name or (m.kind + ":face_vertices"), verts=fv)


def sample_path(rel):
    """sample files live in the repository's test tree (a scratch copy under test carries code only)"""
    from pathlib import Path

    p = common.REPO / rel
    return p if p.exists() else Path("/repo") / rel


def cartesian_source(m, name=None, radius=1.0):
    """a source that stores Cartesian node coordinates only (node_lon / node_lat are derived); with a
    radius other than 1 the store holds RAW (not unit) vectors"""
    return dict(kind="cartesian", name=name or (m.kind + ":cartesian" + ("" if radius == 1.0 else f":R={radius}")),
                xyz=(m.xyz * radius).tolist(), faces=[list(f) for f in m.faces])


def facevert_xyz_source(m, radius, name=None):
    """Grid.from_face_vertices(<Cartesian corner vectors at a non-unit radius>, latlon=False)"""
    fv = [[(m.xyz[v] * radius).tolist() for v in f] for f in m.faces]
    w = max(len(f) for f in fv)
    if any(len(f) != w for f in fv):
        raise ValueError("face vertices need a uniform face size")
    return dict(kind="face_vertices_xyz", name=name or f"{m.kind}:face_vertices_xyz:R={radius}", verts=fv)


def open_source(ux, spec):
    if spec["kind"] == "cartesian":
        import xarray as xr
        from uxarray.conventions import ugrid

        faces = spec["faces"]
        w = max(len(f) for f in faces)
        t = np.full((len(faces), w), INT_FILL, dtype=np.int64)
        for i, f in enumerate(faces):
            t[i, : len(f)] = f
        xyz = np.asarray(spec["xyz"], dtype=float)
        ds = xr.Dataset()
        for k, nm in enumerate(("node_x", "node_y", "node_z")):
            ds[nm] = xr.DataArray(xyz[:, k].copy(), dims=["n_node"], attrs=dict(getattr(ugrid, nm.upper() + "_ATTRS")))
        ds["face_node_connectivity"] = xr.DataArray(t, dims=["n_face", "n_max_face_nodes"],
                                                    attrs=dict(ugrid.FACE_NODE_CONNECTIVITY_ATTRS))
        return ux.Grid.from_dataset(ds, source_grid_spec="Cartesian nodes")
    if spec["kind"] == "file":
        return ux.open_grid(str(sample_path(spec["path"])))
    if spec["kind"] == "face_vertices_xyz":
        return ux.Grid.from_face_vertices(np.asarray(spec["verts"], dtype=float), latlon=False)
    if spec["kind"] == "face_vertices":
        return ux.Grid.from_face_vertices(np.asarray(spec["verts"], dtype=float), latlon=True)
    faces = spec["faces"]
    w = max(len(f) for f in faces)
    t = np.full((len(faces), w), INT_FILL, dtype=np.int64)
    for i, f in enumerate(faces):
        t[i, : len(f)] = f
    kw = {}
    lon = np.asarray(spec["lon"], dtype=float)
    lat = np.asarray(spec["lat"], dtype=float)
    if "edge_node" in spec:
        en = np.asarray(spec["edge_node"], dtype=np.int64)
        kw["edge_node_connectivity"] = en
        if spec.get("variant") in ("edges+coords", "edges-incomplete+coords"):
            xyz = np.stack([np.cos(np.radians(lat)) * np.cos(np.radians(lon)), np.cos(np.radians(lat)) * np.sin(np.radians(lon)),
                            np.sin(np.radians(lat))], axis=1)
            c = xyz[en].mean(axis=1)
            c /= np.linalg.norm(c, axis=1, keepdims=True)
            kw["edge_lon"] = np.degrees(np.arctan2(c[:, 1], c[:, 0]))
            kw["edge_lat"] = np.degrees(np.arcsin(np.clip(c[:, 2], -1, 1)))
    if spec.get("variant") == "centres-raw":
        # source-supplied face / edge centres that are NOT unit vectors (radius 3)
        xyz0 = np.stack([np.cos(np.radians(lat)) * np.cos(np.radians(lon)), np.cos(np.radians(lat)) * np.sin(np.radians(lon)),
                         np.sin(np.radians(lat))], axis=1)
        fc = np.array([xyz0[f].mean(axis=0) for f in faces])
        fc = 3.0 * fc / np.linalg.norm(fc, axis=1, keepdims=True)
        kw["face_x"], kw["face_y"], kw["face_z"] = fc[:, 0].copy(), fc[:, 1].copy(), fc[:, 2].copy()
    if "xyz" in spec:
        xyz = np.asarray(spec["xyz"], dtype=float)
        kw["node_x"], kw["node_y"], kw["node_z"] = xyz[:, 0].copy(), xyz[:, 1].copy(), xyz[:, 2].copy()
    return ux.Grid.from_topology(node_lon=lon, node_lat=lat, face_node_connectivity=t, fill_value=INT_FILL, **kw)


# --------------------------------------------------------------------------------------
# operations
# --------------------------------------------------------------------------------------

PROJECTIONS = {"none": None, "robinson": ("Robinson", {}), "ortho": ("Orthographic", {"central_longitude": 30.0}),
               "platecarree180": ("PlateCarree", {"central_longitude": 180.0})}


def _proj(name):
    if name in (None, "none"):
        return None
    import cartopy.crs as ccrs

    cls, kw = PROJECTIONS[name]
    return getattr(ccrs, cls)(**kw)


def apply_op(g, op):
    """run one public read-only operation; returns the raw result (may raise)"""
    name, a = op[0], (op[1] if len(op) > 1 else {})
    if name == "get":
        return getattr(g, a["attr"])
    if name == "areas":
        return g.compute_face_areas(quadrature_rule=a.get("rule", "triangular"), order=a.get("order", 4),
                                    latlon=a.get("latlon", True))
    if name == "total_area":
        return g.calculate_total_face_area(quadrature_rule=a.get("rule", "triangular"), order=a.get("order", 4))
    if name in ("ball", "kd"):
        f = g.get_ball_tree if name == "ball" else g.get_kd_tree
        return f(coordinates=a["coords"], coordinate_system=a["system"], distance_metric=a["metric"],
                 reconstruct=a.get("recon", False))
    if name == "to_xarray":
        return g.to_xarray(a.get("fmt", "ugrid"))
    if name == "gdf":
        return g.to_geodataframe(periodic_elements=a.get("pe", "exclude"), projection=_proj(a.get("proj")),
                                 engine=a.get("engine", "spatialpandas"), cache=a.get("cache", True),
                                 override=a.get("override", False))
    if name == "poly":
        return g.to_polycollection(periodic_elements=a.get("pe", "exclude"), projection=_proj(a.get("proj")),
                                   cache=a.get("cache", True), override=a.get("override", False))
    if name == "line":
        return g.to_linecollection(periodic_elements=a.get("pe", "exclude"), projection=_proj(a.get("proj")),
                                   cache=a.get("cache", True), override=a.get("override", False))
    if name == "chunk":
        return g.chunk(**{k: v for k, v in a.items()})
    if name == "isel":
        return g.isel(**{a["dim"]: list(a["idx"])})
    if name == "bbox":
        return g.subset.bounding_box(tuple(a["lon"]), tuple(a["lat"]), element=a.get("element", "nodes"))
    if name == "bcircle":
        return g.subset.bounding_circle(tuple(a["center"]), a["r"], element=a.get("element", "nodes"))
    if name == "nn":
        return g.subset.nearest_neighbor(tuple(a["center"]), a["k"], element=a.get("element", "nodes"))
    if name == "dual":
        return g.get_dual()
    if name == "copy":
        return g.copy()
    if name == "const_lat_edges":
        return g.get_edges_at_constant_latitude(a["lat"])
    if name == "const_lat_faces":
        return g.get_faces_at_constant_latitude(a["lat"])
    if name == "cross_section":
        return g.cross_section.constant_latitude(a["lat"])
    if name == "repr":
        return repr(g)
    if name == "validate":
        with contextlib.redirect_stdout(io.StringIO()):
            return g.validate()
    raise ValueError("unknown op " + name)


def observe(g, op):
    """canonical observation of one op (never raises)"""
    import warnings

    try:
        with warnings.catch_warnings():
            warnings.simplefilter("ignore")
            r = apply_op(g, op)
            TREE_CTX.clear()
            if op[0] in ("ball", "kd"):
                TREE_CTX.update(n_node=int(g.n_node), n_face=int(g.n_face))
                if op[1].get("coords") == "edge centers":
                    TREE_CTX["n_edge"] = int(g.n_edge)
            c = canon(r)
    except Exception as e:
        c = ["raises", type(e).__name__, str(e)[:160]]
    return c


def ds_state(g):
    """what the grid's store holds: names in Grid._ds (+ the two cells outside it) and dask flags"""
    present, dask = [], []
    for n in VARS[:N_DS_VARS]:
        if n in g._ds:
            present.append(n)
            if type(g._ds[n].data).__module__.startswith("dask"):
                dask.append(n)
    if getattr(g, "_antimeridian_face_indices", None) is not None:
        present.append("antimeridian_face_indices")
    if getattr(g, "_face_jacobian", None) is not None:
        present.append("face_jacobian")
    other = sorted(str(n) for n in g._ds.variables if str(n) not in VID)
    # digest of the VALUES of every stored variable (a read must leave each of them bit-identical)
    values = {}
    for n in map(str, g._ds.variables):
        try:
            values[n] = digest(canon(np.asarray(g._ds[n].values)))
        except Exception as e:  # pragma: no cover
            values[n] = "undigestable:" + type(e).__name__
    for attr in ("_antimeridian_face_indices", "_face_jacobian"):
        v = getattr(g, attr, None)
        if v is not None:
            values[attr] = digest(canon(np.asarray(v)))
    return dict(present=present, dask=dask, other=other, values=values)


class Session:
    """one process's view of the library"""

    def __init__(self):
        common.use_repo()
        import uxarray as ux

        self.ux = ux
        self.globals = Globals()

    def reference(self, spec, op, full=False):
        """what a freshly opened copy returns for this call"""
        self.globals.restore()
        g = open_source(self.ux, spec)
        st0 = ds_state(g)
        FULL[0] = bool(full)
        try:
            c = observe(g, op)
        finally:
            FULL[0] = False
        return dict(obs=c, opened=st0, after=ds_state(g))

    def info(self, spec):
        """a node and a face centre of the source (subset arguments are chosen to select something)"""
        self.globals.restore()
        g = open_source(self.ux, spec)
        import warnings

        with warnings.catch_warnings():
            warnings.simplefilter("ignore")
            return dict(n_node=int(g.n_node), n_face=int(g.n_face),
                        node=[float(g.node_lon.values[0]), float(g.node_lat.values[0])],
                        face=[float(g.face_lon.values[0]), float(g.face_lat.values[0])])

    def derived(self, spec):
        """for every derivable variable: the entry a fresh grid's export holds once it is derived
        (plus the inventories of such a grid) — the `derived` side of the superset rule"""
        out = {"export": {}, "topology": {}, "sizes": {}, "names": []}
        for attr in VARS[:N_DS_VARS]:
            self.globals.restore()
            g = open_source(self.ux, spec)
            try:
                import warnings

                with warnings.catch_warnings():
                    warnings.simplefilter("ignore")
                    getattr(g, attr)
                    ex = g.to_xarray("ugrid")
                    sizes = dict(g.sizes)
            except Exception:
                continue
            for k in map(str, ex.variables):
                c = canon(ex[k])
                if k == "grid_topology":
                    for ak, av in dict(ex[k].attrs).items():
                        out["topology"].setdefault(str(ak), []).append(digest(canon(av)))
                    continue
                out["export"].setdefault(k, [])
                d = digest(c)
                if d not in out["export"][k]:
                    out["export"][k].append(d)
            for k, v in sizes.items():
                out["sizes"].setdefault(str(k), [])
                if int(v) not in out["sizes"][str(k)]:
                    out["sizes"][str(k)].append(int(v))
        for k in out["topology"]:
            out["topology"][k] = sorted(set(out["topology"][k]))
        out["names"] = sorted(out["export"])
        return out

    def run_history(self, specs, hist, restore=True):
        """specs: sources of the grids; hist: [(grid index, op)]; every step is observed"""
        if restore:
            self.globals.restore()
        grids = []
        steps = []
        opened = []
        wide0 = self.globals.wide()
        g0 = self.globals.digests()
        for s in specs:
            grids.append(open_source(self.ux, s))
            opened.append(ds_state(grids[-1]))
        gopen = self.globals.changed(g0)
        g1 = self.globals.digests()
        for gi, op in hist:
            before = self.globals.digests()
            c = observe(grids[gi], op)
            after = self.globals.digests()
            steps.append(dict(obs=c, globals_changed=sorted(k for k in set(before) | set(after) if before.get(k) != after.get(k)),
                              gl_before=digest(["dict", before]), gl_after=digest(["dict", after]),
                              state=[ds_state(g) for g in grids]))
        wide1 = self.globals.wide()
        wide_changed = sorted(k for k in set(wide0) | set(wide1) if wide0.get(k) != wide1.get(k))
        return dict(opened=opened, steps=steps, globals_changed_by_open=gopen,
                    wide_before=digest(["dict", wide0]), wide_after=digest(["dict", wide1]),
                    wide_changed=wide_changed, wide_count=len(wide1),
                    gl_before_open=digest(["dict", g0]), gl_after_open=digest(["dict", g1]),
                    globals_vs_initial=self.globals.changed())


# --------------------------------------------------------------------------------------
# worker process (reference values; JIT-off histories; fresh-interpreter references)
# --------------------------------------------------------------------------------------


def worker_main():
    import warnings

    warnings.filterwarnings("ignore")
    out = sys.stdout
    sys.stdout = sys.stderr  # the library prints; keep the protocol channel clean
    s = Session()
    out.write(json.dumps({"ready": True}) + "\n")
    out.flush()
    for line in sys.stdin:
        line = line.strip()
        if not line:
            continue
        req = json.loads(line)
        try:
            if req["cmd"] == "ref":
                res = s.reference(req["spec"], req["op"], req.get("full", False))
            elif req["cmd"] == "derived":
                res = s.derived(req["spec"])
            elif req["cmd"] == "info":
                res = s.info(req["spec"])
            elif req["cmd"] == "hist":
                FULL[0] = bool(req.get("full", False))
                try:
                    res = s.run_history(req["specs"], [tuple(x) for x in req["hist"]])
                finally:
                    FULL[0] = False
            elif req["cmd"] == "quit":
                break
            else:
                res = {"error": "unknown cmd"}
        except Exception as e:  # infrastructure problem inside the worker
            import traceback

            res = {"error": type(e).__name__ + ": " + str(e), "trace": traceback.format_exc()[-1500:]}
        out.write(json.dumps(res) + "\n")
        out.flush()


class Worker:
    def __init__(self, jit=True):
        env = dict(os.environ)
        env["VERIF_REPO"] = str(common.REPO)
        env["PYTHONDONTWRITEBYTECODE"] = "1"
        if not jit:
            env["NUMBA_DISABLE_JIT"] = "1"
            env["C08_JIT_OFF"] = "1"
        self.p = subprocess.Popen([sys.executable, os.path.abspath(__file__), "--worker"], stdin=subprocess.PIPE,
                                  stdout=subprocess.PIPE, stderr=subprocess.DEVNULL, text=True, env=env,
                                  cwd=str(common.VERIF))
        self.ready = False
        self.cache = {}

    def _wait(self):
        if not self.ready:
            line = self.p.stdout.readline()
            if not line:
                raise RuntimeError("reference worker failed to start")
            self.ready = True

    def ask(self, req):
        self._wait()
        self.p.stdin.write(json.dumps(req) + "\n")
        self.p.stdin.flush()
        line = self.p.stdout.readline()
        if not line:
            raise RuntimeError("reference worker died")
        res = json.loads(line)
        if "error" in res:
            raise RuntimeError("reference worker: " + res["error"] + "\n" + res.get("trace", ""))
        return res

    def ref(self, spec, op, full=False):
        key = json.dumps([spec["name"], op, full], sort_keys=True)
        if key not in self.cache:
            self.cache[key] = self.ask(dict(cmd="ref", spec=spec, op=op, full=full))
        return self.cache[key]

    def info(self, spec):
        key = "info:" + spec["name"]
        if key not in self.cache:
            self.cache[key] = self.ask(dict(cmd="info", spec=spec))
        return self.cache[key]

    def derived(self, spec):
        key = "derived:" + spec["name"]
        if key not in self.cache:
            self.cache[key] = self.ask(dict(cmd="derived", spec=spec))
        return self.cache[key]

    def close(self):
        try:
            self.p.stdin.write(json.dumps({"cmd": "quit"}) + "\n")
            self.p.stdin.flush()
            self.p.wait(timeout=10)
        except Exception:
            self.p.kill()



# --------------------------------------------------------------------------------------
# correspondence with the Lean model
# --------------------------------------------------------------------------------------

GROUPS = ["nodeLL", "nodeXYZ", "edgeLL", "edgeXYZ", "faceLL", "faceXYZ", "faceNode", "edgeNode", "faceEdge",
          "edgeFace", "faceFace", "nodeFace", "nPer", "areas", "bounds", "enDist", "efDist", "holes", "enZ",
          "amIdx", "jac"]
GID = {n: i for i, n in enumerate(GROUPS)}
GROUP_OF = {
    "node_lon": "nodeLL", "node_lat": "nodeLL", "node_x": "nodeXYZ", "node_y": "nodeXYZ", "node_z": "nodeXYZ",
    "edge_lon": "edgeLL", "edge_lat": "edgeLL", "edge_x": "edgeXYZ", "edge_y": "edgeXYZ", "edge_z": "edgeXYZ",
    "face_lon": "faceLL", "face_lat": "faceLL", "face_x": "faceXYZ", "face_y": "faceXYZ", "face_z": "faceXYZ",
    "face_node_connectivity": "faceNode", "edge_node_connectivity": "edgeNode", "face_edge_connectivity": "faceEdge",
    "edge_face_connectivity": "edgeFace", "face_face_connectivity": "faceFace", "node_face_connectivity": "nodeFace",
    "n_nodes_per_face": "nPer", "face_areas": "areas", "bounds": "bounds", "edge_node_distances": "enDist",
    "edge_face_distances": "efDist", "hole_edge_indices": "holes", "edge_node_z": "enZ",
    "antimeridian_face_indices": "amIdx", "face_jacobian": "jac",
}
# documented orders only (triangular: 1, 4, 8, 10, 12; gaussian: 1..10)
AREA_VARIANTS = [("triangular", 4), ("triangular", 1), ("triangular", 8), ("gaussian", 3), ("gaussian", 5), ("gaussian", 2),
                 ("triangular", 10), ("gaussian", 4), ("triangular", 12)]
COORD_ID = {"nodes": 0, "face centers": 1, "edge centers": 2}
SYS_ID = {"spherical": 0, "cartesian": 1}
METRIC_ID = {"haversine": 0, "euclidean": 1, "minkowski": 2, "manhattan": 3, "chebyshev": 4}
PE_ID = {"exclude": 0, "split": 1, "ignore": 2}
PROJ_ID = {None: 0, "none": 0, "robinson": 1, "ortho": 2, "platecarree180": 3}
ENGINE_ID = {"spatialpandas": 0, "geopandas": 1}
PLAIN_METHOD = {"n_edge": 36, "n_max_face_edges": 37, "n_max_face_faces": 38, "n_max_node_faces": 39,
                "n_node": 35, "n_face": 35, "n_max_face_nodes": 35, "attrs": 35, "source_grid_spec": 35}


def groups(names):
    out = []
    for n in names:
        g = GROUP_OF[n]
        if g not in out:
            out.append(g)
    return out


def model_op(op):
    """harness operation -> token list of `Driver.C08.opP`"""
    name, a = op[0], (op[1] if len(op) > 1 else {})
    if name == "get":
        attr = a["attr"]
        if attr in GROUP_OF:
            return [0, GID[GROUP_OF[attr]]]
        if attr in INVENTORY:
            return [4]
        return [1, PLAIN_METHOD.get(attr, 40)]
    if name in ("areas", "total_area"):
        v = (a.get("rule", "triangular"), a.get("order", 4))
        k = AREA_VARIANTS.index(v) if v in AREA_VARIANTS else 8
        if name == "total_area":
            k = 9
        return [1, k + (0 if a.get("latlon", True) else 10)]
    if name in ("ball", "kd"):
        key = [COORD_ID[a["coords"]], SYS_ID[a["system"]], METRIC_ID[a["metric"]]]
        return [2, 0 if name == "ball" else 1, len(key)] + key + [int(bool(a.get("recon", False))), 1]
    if name in ("gdf", "poly", "line"):
        key = [PE_ID[a.get("pe", "exclude")], PROJ_ID[a.get("proj")], ENGINE_ID[a.get("engine", "spatialpandas")]]
        cid = {"gdf": 2, "poly": 3, "line": 4}[name]
        return [2, cid, len(key)] + key + [int(bool(a.get("override", False))), int(bool(a.get("cache", True)))]
    if name == "to_xarray":
        return {"ugrid": [3], "exodus": [1, 20], "scrip": [1, 21]}[a.get("fmt", "ugrid")]
    if name == "chunk":
        return [5]
    if name == "isel":
        return [1, {"n_face": 22, "n_node": 23, "n_edge": 24}[a["dim"]]]
    if name in ("bbox", "bcircle", "nn"):
        return [1, {"nodes": 25, "face centers": 26, "edge centers": 27}[a.get("element", "nodes")]]
    m = {"dual": 28, "copy": 29, "const_lat_edges": 30, "const_lat_faces": 31, "cross_section": 32, "repr": 33,
         "validate": 34}
    return [1, m[name]]


def op_class(op):
    name, a = op[0], (op[1] if len(op) > 1 else {})
    if name == "get":
        return "get:" + a["attr"]
    if name == "to_xarray":
        return "to_xarray:" + a.get("fmt", "ugrid")
    if name in ("ball", "kd"):
        return f"{name}:{a['coords'].split()[0]}:{a['system']}"
    if name in ("gdf", "poly", "line"):
        return {"gdf": "to_geodataframe", "poly": "to_polycollection", "line": "to_linecollection"}[name]
    if name == "areas":
        return "compute_face_areas:" + ("latlon" if a.get("latlon", True) else "cartesian")
    if name == "isel":
        return "isel:" + a["dim"]
    if name in ("bbox", "bcircle", "nn"):
        return f"subset.{name}:{a.get('element', 'nodes').split()[0]}"
    return name


EXPORT_OPS = ("gdf", "poly", "line")


class Ids:
    """digests -> small integers for the Lean driver"""

    def __init__(self):
        self.v, self.n = {}, {}

    def val(self, d):
        return self.v.setdefault(d, len(self.v) + 1)

    def name(self, d):
        return self.n.setdefault(d, len(self.n) + 1)


def enc_pairs_nat(l):
    return " ".join([str(len(l))] + [f"{a} {b}" for a, b in l])


def export_pairs(c, ids):
    """pairs (name, value) of an exported dataset's canonical form"""
    out = []
    if not (isinstance(c, list) and c and c[0] == "ds"):
        return None
    for k, v in c[1].items():
        if k == "grid_topology":
            out.append((ids.name("grid_topology#data"), ids.val(digest(v[:3]))))
            for ak, av in v[3][1].items():
                out.append((ids.name("grid_topology@" + ak), ids.val(digest(av))))
        else:
            out.append((ids.name(k), ids.val(digest(v))))
    out.append((ids.name("@attrs"), ids.val(digest(c[2]))))
    return out


def derived_pairs_export(D, ids):
    out = []
    for k, ds in D["export"].items():
        out += [(ids.name(k), ids.val(d)) for d in ds]
    for k, ds in D["topology"].items():
        out += [(ids.name("grid_topology@" + k), ids.val(d)) for d in ds]
    return out


def inventory_pairs(attr, c, ids):
    if c and c[0] == "set":
        return [(ids.name("name:" + n), 0) for n in c[1]]
    if c and c[0] == "dict":
        return [(ids.name("dim:" + k), ids.val("int:%s" % v[1])) for k, v in c[1].items()]
    return None


def derived_pairs_inventory(attr, D, ids):
    if attr == "sizes":
        return [(ids.name("dim:" + k), ids.val("int:%d" % n)) for k, ns in D["sizes"].items() for n in ns]
    names = list(D["names"]) + list(D["sizes"])
    return [(ids.name("name:" + n), 0) for n in names]


def sig_of(opened):
    return [GID[g] for g in groups(opened["present"])]


class Judge:
    def __init__(self, ctx, session, worker):
        self.ctx, self.S, self.W = ctx, session, worker
        self.gl_init = digest(["dict", session.globals.initial])

    # ---- python-level quick test used by the shrinker (the verdict itself is Lean's) ----
    def step_differs(self, spec, op, obs):
        ref = self.W.ref(spec, op)["obs"]
        kind = step_kind(op)
        if kind == "ignore":
            return False
        if kind == "value":
            return digest(obs) != digest(ref)
        ids = Ids()
        if kind == "export":
            o, r = export_pairs(obs, ids), export_pairs(ref, ids)
            d = derived_pairs_export(self.W.derived(spec), ids)
        else:
            o, r = inventory_pairs(op[1]["attr"], obs, ids), inventory_pairs(op[1]["attr"], ref, ids)
            d = derived_pairs_inventory(op[1]["attr"], self.W.derived(spec), ids)
        if o is None or r is None:
            return digest(obs) != digest(ref)
        return not (all(p in o for p in r) and all(p in r or p in d for p in o))

    def shrink(self, specs, hist, i, what="value"):
        """greedy: drop earlier steps / unused grids while step i (kept last) still fails"""
        hist = list(hist[: i + 1])
        budget = 24 if len(hist) <= 12 else 10
        if len(hist) > 12:
            # long (saturation) histories: first try the two-step history [culprit candidate, observation]
            for j in range(len(hist) - 2, -1, -1):
                if budget <= 0:
                    break
                cand = [hist[j], hist[-1]]
                budget -= 1
                try:
                    res = self.S.run_history(specs, cand)
                except Exception:
                    continue
                gi, op = cand[-1]
                st = res["steps"][-1]
                still = bool(st["globals_changed"]) if what == "globals" else self.step_differs(specs[gi], op, st["obs"])
                if still:
                    hist = cand
                    break
            budget = 6
        changed = True
        while changed and budget > 0:
            changed = False
            for j in range(len(hist) - 1):
                if budget <= 0:
                    break
                cand = hist[:j] + hist[j + 1:]
                budget -= 1
                try:
                    res = self.S.run_history(specs, cand)
                except Exception:
                    continue
                gi, op = cand[-1]
                st = res["steps"][-1]
                still = bool(st["globals_changed"]) if what == "globals" else self.step_differs(specs[gi], op, st["obs"])
                if still:
                    hist = cand
                    changed = True
                    break
        used = sorted({g for g, _ in hist})
        remap = {g: k for k, g in enumerate(used)}
        return [specs[g] for g in used], [(remap[g], op) for g, op in hist]

    # ---- one history ----
    def history(self, specs, hist, tag, shrink=True, expect_model_flags=None):
        ctx = self.ctx
        res = self.S.run_history(specs, hist)
        return self.judge_result(specs, hist, res, tag, shrink)

    def judge_result(self, specs, hist, res, tag, shrink=True, jit_off=False):
        ctx = self.ctx
        ids = Ids()
        steps_enc, meta = [], []
        bad_py = []
        for i, ((gi, op), st) in enumerate(zip(hist, res["steps"])):
            spec = specs[gi]
            ref = self.W.ref(spec, op, full=jit_off)
            kind = step_kind(op)
            obs, robs = st["obs"], ref["obs"]
            if jit_off and kind == "value" and digest(obs) != digest(robs) and close(obs, robs):
                ctx.hit("jit-off:float-rounding-only")
                obs = robs
            if kind == "value":
                steps_enc.append(f"0 {ids.val(digest(obs))} {ids.val(digest(robs))}")
                meta.append((i, "value"))
            elif kind == "export":
                o, r = export_pairs(obs, ids), export_pairs(robs, ids)
                if o is None or r is None:
                    steps_enc.append(f"0 {ids.val(digest(obs))} {ids.val(digest(robs))}")
                else:
                    d = derived_pairs_export(self.W.derived(spec), ids)
                    steps_enc.append(f"1 {enc_pairs_nat(o)} {enc_pairs_nat(r)} {enc_pairs_nat(d)}")
                meta.append((i, "export"))
            elif kind == "inventory":
                attr = op[1]["attr"]
                o, r = inventory_pairs(attr, obs, ids), inventory_pairs(attr, robs, ids)
                if o is None or r is None:
                    steps_enc.append(f"0 {ids.val(digest(obs))} {ids.val(digest(robs))}")
                else:
                    d = derived_pairs_inventory(attr, self.W.derived(spec), ids)
                    steps_enc.append(f"1 {enc_pairs_nat(o)} {enc_pairs_nat(r)} {enc_pairs_nat(d)}")
                meta.append((i, "inventory"))
            if not jit_off:
                # the operation itself must not alter a module-level container (a container left
                # altered by an EARLIER step is that step's failure)
                b, a = ids.val(st["gl_before"]), ids.val(st["gl_after"])
                steps_enc.append(f"2 {b} {a} {b}")
                meta.append((i, "globals"))
                # every variable a grid's store held before the step holds the same VALUES after it
                prev_states = res["steps"][i - 1]["state"] if i > 0 else res["opened"]
                for k, (pst, cst) in enumerate(zip(prev_states, st["state"])):
                    if specs[k].get("incomplete") or "values" not in pst:
                        continue
                    keys = sorted(pst["values"])
                    b_ = digest(["dict", {n: ["str", pst["values"][n]] for n in keys}])
                    a_ = digest(["dict", {n: ["str", cst["values"].get(n, "absent")] for n in keys}])
                    steps_enc.append(f"0 {ids.val(a_)} {ids.val(b_)}")
                    meta.append((i, ("store", k)))
        if not jit_off and "gl_after_open" in res:
            # opening the sources: starts from the post-import content and must leave it
            steps_enc.append(f"2 {ids.val(self.gl_init)} {ids.val(res['gl_after_open'])} {ids.val(res['gl_before_open'])}")
            meta.append((-1, "globals-open"))
        if not jit_off and "wide_after" in res:
            # every module-level container of every uxarray.* module, around the whole history
            steps_enc.append(f"2 {ids.val(res['wide_before'])} {ids.val(res['wide_after'])} {ids.val(res['wide_before'])}")
            meta.append((-2, "globals-wide"))
            ctx.extra["module_level_containers_watched"] = res.get("wide_count")
        nontriv = len(hist) > 1
        ctx.case((tag, [s["name"] for s in specs], hist), nontrivial=nontriv,
                 sample=dict(tag=tag, sources=[s["name"] for s in specs], history=[[g, op] for g, op in hist][:8])
                 if len(hist) <= 6 else None)
        ctx.hit("grids=%d" % len(specs))
        ctx.hit("len=%d" % min(len(hist), 9))
        for _, op in hist:
            ctx.hit("op=" + op[0])
        # ---- the verdict: Lean's traceOK, failures peeled off one by one ----
        failed = set()
        enc = list(steps_enc)
        m = list(meta)
        guard = 0
        while enc and guard < 40:
            guard += 1
            out = ctx.driver.ask("C08.spec", len(enc), " ".join(enc))
            if out == "ok":
                break
            k = int(out.split()[1])
            failed.add(m[k])
            del enc[k], m[k]
        for (i, what) in sorted(failed):
            if isinstance(what, tuple) and what[0] == "store":
                self.report_store(specs, hist, res, i, what[1], tag, shrink)
                continue
            if what == "globals-wide":
                names = [n for n in res["wide_changed"] if not n.startswith(("uxarray.conventions.", "uxarray.constants."))] or res["wide_changed"]
                ctx.fail("C08/globals-wide/" + ",".join(names[:3]),
                         f"module-level container(s) {res['wide_changed']} of uxarray changed during the history",
                         dict(specs=specs, hist=[[g, o] for g, o in hist], observe=len(hist) - 1, what=what, tag=tag),
                         clauses=["globals_const"])
                continue
            if what == "globals-open":
                ctx.fail("C08/globals/changed-by-opening-a-grid/" + ",".join(res["globals_changed_by_open"][:3]),
                         f"opening {[s['name'] for s in specs]} changed module-level containers {res['globals_changed_by_open']}",
                         dict(specs=specs, hist=[], observe=-1, what=what, tag=tag), clauses=["globals_const"])
                continue
            self.report(specs, hist, res, i, what, tag, shrink, jit_off)
        if not jit_off:
            self.model_correspondence(specs, hist, res, tag, bool(failed))
        return failed

    @staticmethod
    def store_changed(res, i, k):
        prev = (res["steps"][i - 1]["state"] if i > 0 else res["opened"])[k]["values"]
        cur = res["steps"][i]["state"][k]["values"]
        return sorted(n for n in prev if cur.get(n, "absent") != prev[n])

    def report_store(self, specs, hist, res, i, k, tag, shrink):
        """a read rewrote (or removed) a variable the store already held"""
        ctx = self.ctx
        changed = self.store_changed(res, i, k)
        mspecs, mhist = specs, list(hist[: i + 1])
        if shrink and len(mhist) > 1:
            # greedy: drop earlier steps while the last step still rewrites something of grid k
            budget = 12
            j = 0
            while j < len(mhist) - 1 and budget > 0:
                cand = mhist[:j] + mhist[j + 1:]
                budget -= 1
                try:
                    r2 = self.S.run_history(specs, cand)
                    if self.store_changed(r2, len(cand) - 1, k):
                        mhist = cand
                        continue
                except Exception:
                    pass
                j += 1
        gi, op = mhist[-1]
        sig = f"C08/store-rewritten/{changed[0] if changed else '?'}/by={op_class(op).split(':')[0]}"
        ctx.fail(sig, f"{op_class(op)} on grid {gi} changed the stored values of {changed} of grid {k} "
                      f"(source {specs[k]['name']}): a read rewrote a variable the store already held",
                 dict(specs=mspecs, hist=[[g, o] for g, o in mhist], observe=len(mhist) - 1, what="store", tag=tag),
                 impl=dict(changed=changed), clauses=["memo_sound: the store only grows, what is there stays as it is"])

    def report(self, specs, hist, res, i, what, tag, shrink, jit_off):
        ctx = self.ctx
        gi, op = hist[i]
        st = res["steps"][i]
        ref = self.W.ref(specs[gi], op)["obs"]
        mspecs, mhist = specs, hist[: i + 1]
        if shrink and not jit_off and len(hist) > 1:
            try:
                mspecs, mhist = self.shrink(specs, hist, i, what)
            except Exception as e:  # pragma: no cover
                ctx.notes.append("shrink failed: %r" % (e,))
        pre = [op_class(o) for _, o in mhist[:-1]]
        # coarse culprit family (the replay carries the exact minimised history)
        after = ("chunk" if "chunk" in pre else pre[-1].split(":")[0]) if pre else "fresh"
        cls = op_class(op)
        obs = st["obs"]
        if what == "globals":
            names = ",".join(st["globals_changed"][:3]) or "?"
            sig = f"C08/globals/{names}"
            msg = f"module-level container(s) {st['globals_changed']} changed by {cls}"
            clauses = ["globals_const"]
        else:
            if obs and obs[0] == "raises":
                detail = "raises:" + obs[1]
            elif ref and ref[0] == "raises":
                detail = "fresh-raises:" + ref[1]
            else:
                detail = "value-differs"
            if mspecs[mhist[-1][0]].get("incomplete"):
                # the observed grid comes from an inconsistent source (supplied edge table incomplete)
                sig = "C08/history/source:incomplete-supplied-edge-table/differs-from-fresh"
            elif jit_off:
                sig = f"C08/jit-off/{cls}/{detail}"
            elif op[0] in EXPORT_OPS:
                sig = f"C08/export/{cls}/{detail}"
            elif what in ("export", "inventory"):
                sig = f"C08/{'to_xarray' if what == 'export' else what}-superset/{cls}/not-a-superset-of-fresh/after={after}"
            else:
                sig = f"C08/history/{cls}/{detail}/after={after}"
            where = first_diff(strip(obs), strip(ref)) if detail == "value-differs" else None
            msg = (f"{cls} after [{', '.join(pre) or 'nothing'}] on source {mspecs[mhist[-1][0]]['name']}: {detail}"
                   + (f" (first difference at {where})" if where else "")
                   + (f": {obs[2]}" if obs and obs[0] == "raises" and len(obs) > 2 else ""))
            clauses = ["world_history_independent" if what == "value" else "export_superset"]
        inp = dict(specs=mspecs, hist=[[g, o] for g, o in mhist], observe=len(mhist) - 1, what=what, tag=tag,
                   jit_off=jit_off)
        ctx.fail(sig, msg, inp, impl=dict(observation=strip(obs)), model=dict(reference=strip(ref)), clauses=clauses)

    def model_correspondence(self, specs, hist, res, tag, had_failure):
        """the Lean model predicts which variables every grid holds after each step"""
        ctx = self.ctx
        evs = []
        for sp, opened in zip(specs, res["opened"]):
            sg = sig_of(opened)
            evs.append("0 " + common.enc_ints(sg))
        for gi, op in hist:
            evs.append("1 %d %s" % (gi, " ".join(map(str, model_op(op)))))
        # a source whose supplied edge table is incomplete is a source CLASS of the model (flag bit 8)
        mflags = 256 if any(sp.get("incomplete") for sp in specs) else 0
        out = common.Tok(ctx.driver.ask("C08.model", mflags, len(evs), " ".join(evs)))
        pred = []
        for _ in evs:
            eq, clean, ng = out.int(), out.int(), out.int()
            gs = [(out.ints(), out.ints()) for _ in range(ng)]
            pred.append((eq, clean, gs))
        pred = pred[len(specs):]
        for i, ((gi, op), st, (eq, clean, gs)) in enumerate(zip(hist, res["steps"], pred)):
            if st["obs"] and st["obs"][0] == "raises":
                # an operation that raised may have read only part of what it reads: the stores are
                # not compared from here on
                ctx.hit("model-domain-not-compared-after-raise")
                return
            if (not eq or not clean) and not mflags:
                ctx.mismatch("C08/model-internal", dict(hist=hist[: i + 1]), None, dict(eq=eq, clean=clean))
                return
            for k, (g_state, (present, chunked)) in enumerate(zip(st["state"], gs)):
                real_p = sorted(GID[g] for g in groups(g_state["present"]))
                mod_p = sorted(present)
                real_c = sorted(GID[g] for g in groups(g_state["dask"]))
                mod_c = sorted(c for c in chunked if c < GID["amIdx"])
                if real_p != mod_p or real_c != mod_c:
                    if had_failure:
                        ctx.hit("store-domain-differs-on-failing-history")
                        return
                    ctx.mismatch("C08/store-domain", dict(sources=[s["name"] for s in specs],
                                                           hist=[[g, o] for g, o in hist[: i + 1]], grid=k),
                                 dict(present=[GROUPS[x] for x in real_p], dask=[GROUPS[x] for x in real_c]),
                                 dict(present=[GROUPS[x] for x in mod_p], dask=[GROUPS[x] for x in mod_c]))
                    return
        ctx.hit("model-domain-agrees")


def step_kind(op):
    if op[0] == "repr":
        return "ignore"
    if op[0] == "to_xarray" and op[1].get("fmt", "ugrid") == "ugrid":
        return "export"
    if op[0] == "get" and op[1]["attr"] in INVENTORY:
        return "inventory"
    return "value"


# --------------------------------------------------------------------------------------
# generators
# --------------------------------------------------------------------------------------


def build_sources(rng, thorough=False):
    import random

    srcs = [
        mesh_source(meshes.prism(5), "plain"),
        mesh_source(meshes.patch(3, 2, lon0=170, lat0=40), "plain"),
        mesh_source(meshes.hull(12, random.Random(3)), "edges", rng=random.Random(5)),
        mesh_source(meshes.prism(4), "edges+coords", rng=random.Random(6)),
        mesh_source(meshes.cube_sphere(1), "lon360"),
        mesh_source(meshes.prism(6), "xyz"),
        facevert_source(meshes.patch(2, 2, lon0=-20, lat0=-15)),
        file_source("quadhex"),
        file_source("mpas"),
        mesh_source(meshes.cube_sphere(2).drop_faces(random.Random(2), 0.4), "plain"),
        cartesian_source(meshes.antiprism(4, lat=30.0, lon0=100.0)),
        cartesian_source(meshes.prism(5), radius=2.0),
        mesh_source(meshes.prism(4), "centres-raw"),
        cartesian_source(meshes.cube_sphere(1), radius=6371.229),
        facevert_xyz_source(meshes.patch(2, 2, lon0=-20, lat0=-15), 0.5),
        mesh_source(meshes.prism(5), "edges-incomplete", rng=random.Random(8)),
        mesh_source(meshes.prism(3), "edges-incomplete+coords", rng=random.Random(9)),
    ]
    # seeded members
    k = rng.choice([3, 4, 5, 6, 7])
    srcs.append(mesh_source(meshes.prism(k, lat=20 + 5 * k, lon0=rng.uniform(-180, 180)), "edges", rng=rng,
                            name=f"prism{k}:edges:seeded"))
    h = meshes.hull(rng.choice([8, 10, 14]), rng)
    srcs.append(mesh_source(h.merge_some(rng), "plain", name="hull-merged:plain:seeded"))
    srcs.append(mesh_source(meshes.dual_of(h), "lon360", name="hull-dual:lon360:seeded"))
    if thorough:
        srcs += [file_source("geoflow"), file_source("scrip8"), file_source("exodus8"),
                 mesh_source(meshes.icosa(), "edges+coords", rng=rng, name="icosa:edges+coords")]
    return srcs


TREE_COMBOS = [("ball", "spherical", "haversine"), ("ball", "cartesian", "euclidean"), ("kd", "cartesian", "minkowski"),
               ("kd", "spherical", "minkowski"), ("ball", "cartesian", "manhattan"), ("kd", "cartesian", "chebyshev")]


def _box(p, h=25.0):
    lon = [max(-180.0, p[0] - h), min(180.0, p[0] + h)]
    lat = [max(-90.0, p[1] - h), min(90.0, p[1] + h)]
    return lon, lat


def ops_for(spec, info=None):
    info = info or dict(node=[10.0, 20.0], face=[10.0, 20.0])
    pn, pf = info["node"], info["face"]
    (blon_n, blat_n), (blon_f, blat_f) = _box(pn), _box(pf)
    ops = []
    for a in VARS:
        ops.append(["get", {"attr": a}])
    for a in INVENTORY + PLAIN:
        ops.append(["get", {"attr": a}])
    for rule, order in AREA_VARIANTS[:6]:
        for ll in (True, False):
            ops.append(["areas", {"rule": rule, "order": order, "latlon": ll}])
    ops.append(["total_area", {}])
    for kind, system, metric in TREE_COMBOS:
        for c in ("nodes", "face centers", "edge centers"):
            ops.append([kind, {"coords": c, "system": system, "metric": metric}])
    ops.append(["ball", {"coords": "nodes", "system": "spherical", "metric": "haversine", "recon": True}])
    for f in ("ugrid", "exodus", "scrip"):
        ops.append(["to_xarray", {"fmt": f}])
    for pe in ("exclude", "split", "ignore"):
        for name in EXPORT_OPS:
            ops.append([name, {"pe": pe}])
    for name in EXPORT_OPS:
        ops.append([name, {"pe": "exclude", "proj": "robinson"}])
        ops.append([name, {"pe": "exclude", "proj": "ortho"}])
        ops.append([name, {"pe": "ignore", "proj": "platecarree180"}])
        ops.append([name, {"pe": "exclude", "cache": False}])
        ops.append([name, {"pe": "exclude", "override": True}])
    ops.append(["gdf", {"pe": "exclude", "engine": "geopandas"}])
    ops += [["chunk", {}], ["chunk", {"n_node": 2, "n_face": 2, "n_edge": 3}]]
    ops += [["isel", {"dim": "n_face", "idx": [0, 1]}], ["isel", {"dim": "n_node", "idx": [0]}],
            ["isel", {"dim": "n_edge", "idx": [1, 2]}], ["isel", {"dim": "n_face", "idx": [1]}]]
    ops += [["bbox", {"lon": blon_n, "lat": blat_n}],
            ["bbox", {"lon": blon_f, "lat": blat_f, "element": "face centers"}],
            ["bcircle", {"center": pn, "r": 30}],
            ["bcircle", {"center": pf, "r": 35, "element": "edge centers"}],
            ["bcircle", {"center": pf, "r": 30, "element": "face centers"}],
            ["nn", {"center": [10, 20], "k": 2}], ["nn", {"center": [10, 20], "k": 2, "element": "face centers"}],
            ["nn", {"center": [-100, -40], "k": 1, "element": "edge centers"}]]
    # k at the boundaries of the element counts (accepted / rejected is part of the observation)
    nn_, nf_ = int(info.get("n_node", 4)), int(info.get("n_face", 2))
    for k in sorted({nf_, nf_ + 1, nn_, nn_ + 1}):
        for el in ("nodes", "face centers", "edge centers"):
            ops.append(["nn", {"center": pn, "k": k, "element": el}])
    ops += [["dual", {}], ["copy", {}], ["const_lat_edges", {"lat": 25.0}], ["const_lat_faces", {"lat": 25.0}],
            ["cross_section", {"lat": 25.0}], ["repr", {}], ["validate", {}]]
    return ops


# histories that witness the defects of the snapshot (Lean: `asis_*`); flags = the model variant that
# predicts the difference
def witness_histories():
    import random

    plain = mesh_source(meshes.prism(5), "plain")
    edges = mesh_source(meshes.prism(4), "edges", rng=random.Random(6), name="prism4:edges:witness")
    ecoords = mesh_source(meshes.prism(4), "edges+coords", rng=random.Random(6))
    face_edge = ["get", {"attr": "face_edge_connectivity"}]
    return [
        ("leak-globals", 1, [plain], [(0, ["get", {"attr": "edge_node_connectivity"}])]),
        ("leak-other-grid", 1, [plain, edges], [(0, ["get", {"attr": "n_edge"}]), (1, face_edge)]),
        ("leak-same-shape", 3, [edges, edges], [(0, face_edge), (1, face_edge), (1, ["get", {"attr": "edge_node_connectivity"}])]),
        ("replace-supplied-edges", 2, [edges], [(0, face_edge), (0, ["get", {"attr": "edge_node_connectivity"}])]),
        ("replace-stale-edge-coords", 2, [ecoords], [(0, ["get", {"attr": "bounds"}]), (0, ["get", {"attr": "edge_node_distances"}])]),
        ("chunk-then-areas", 4, [plain], [(0, ["chunk", {}]), (0, ["areas", {"rule": "triangular", "order": 4, "latlon": True}])]),
        ("chunk-then-face-areas", 0, [plain], [(0, ["chunk", {"n_node": 2, "n_face": 2, "n_edge": 3}]), (0, ["get", {"attr": "face_areas"}])]),
        ("areas-then-jacobian", 8, [plain], [(0, ["get", {"attr": "face_areas"}]),
                                              (0, ["areas", {"rule": "gaussian", "order": 5, "latlon": True}]),
                                              (0, ["get", {"attr": "face_jacobian"}])]),
        ("jacobian-first", 8, [plain], [(0, ["get", {"attr": "face_jacobian"}])]),
        ("tree-system-switch", 16, [plain], [(0, ["ball", {"coords": "nodes", "system": "spherical", "metric": "haversine"}]),
                                               (0, ["ball", {"coords": "nodes", "system": "cartesian", "metric": "euclidean"}])]),
        ("tree-revisit-count", 128, [plain], [(0, ["ball", {"coords": "nodes", "system": "spherical", "metric": "haversine"}]),
                                                (0, ["ball", {"coords": "face centers", "system": "spherical", "metric": "haversine"}]),
                                                (0, ["ball", {"coords": "nodes", "system": "spherical", "metric": "haversine"}])]),
        ("chunk-then-exodus", 0, [plain], [(0, ["chunk", {}]), (0, ["to_xarray", {"fmt": "exodus"}])]),
        ("chunk-then-cross-section", 0, [file_source("mpas")], [(0, ["chunk", {"n_node": 2, "n_face": 2, "n_edge": 3}]),
                                                                  (0, ["cross_section", {"lat": 25.0}])]),
    ]


def saturation_history(rng, ops):
    """read every attribute once (random order), then everything again, then the exports: any
    population path that rewrites a stored variable in place shows up in the second round"""
    getters = [o for o in ops if o[0] == "get" and o[1]["attr"] in VARS]
    first = list(getters)
    rng.shuffle(first)
    second = list(getters)
    rng.shuffle(second)
    tail = [["to_xarray", {"fmt": "ugrid"}], ["get", {"attr": "sizes"}], ["get", {"attr": "connectivity"}],
            ["to_xarray", {"fmt": "exodus"}]]
    return [(0, o) for o in first + second + tail]


def crosstalk_histories(rng, ops):
    """every call that takes arguments (exporters with projections, trees, area rules) followed by
    each getter of a cell that such calls could leave something in"""
    cells = ["antimeridian_face_indices", "face_jacobian", "face_areas", "edge_lon", "node_lon", "face_lon", "bounds"]
    withargs = [o for o in ops if o[0] in EXPORT_OPS + ("areas", "ball", "kd", "total_area") and
                (o[0] not in EXPORT_OPS or o[1].get("proj") or o[1].get("pe") != "exclude" or o[1].get("engine"))]
    out = []
    for a in withargs:
        projected = a[0] in EXPORT_OPS and a[1].get("proj")
        for c in (cells if projected else rng.sample(cells, 3)):
            out.append([(0, a), (0, ["get", {"attr": c}])])
    return out


def revisit_histories(rng, ops):
    """cached wrappers revisited: kind A, then other kinds, then A again (A→B→A, A→B→C→A), for every
    tree type × coordinate system, directly and through subset.nearest_neighbor"""
    out = []
    kinds = ["nodes", "face centers", "edge centers"]
    for kind, system, metric in TREE_COMBOS[:4]:
        def t(c):
            return [kind, {"coords": c, "system": system, "metric": metric}]
        for a in kinds:
            others = [c for c in kinds if c != a]
            rng.shuffle(others)
            out.append([(0, t(a)), (0, t(others[0])), (0, t(a))])
            out.append([(0, t(a)), (0, t(others[0])), (0, t(others[1])), (0, t(a))])
    nns = [o for o in ops if o[0] == "nn"]
    for a in kinds:
        mine = [o for o in nns if o[1].get("element", "nodes") == a]
        rest = [o for o in nns if o[1].get("element", "nodes") != a]
        for _ in range(3):
            if mine and rest:
                out.append([(0, rng.choice(mine)), (0, rng.choice(rest)), (0, rng.choice(mine))])
                out.append([(0, ["ball", {"coords": a, "system": "spherical", "metric": "haversine"}]), (0, rng.choice(rest)),
                            (0, ["ball", {"coords": a, "system": "spherical", "metric": "haversine"}])])
    return out


def random_history(rng, srcs, OPS, maxlen=8):
    k = rng.choice([1, 1, 2, 2, 3])
    specs = [rng.choice(srcs) for _ in range(k)]
    if k >= 2 and rng.random() < 0.3:
        specs[1] = specs[0]  # two copies of the same source: same-shaped tables leaking are silent
    if any(sp.get("incomplete") for sp in specs):
        # the model takes "supplied edge table incomplete" as a class of the whole world: no grid with a
        # COMPLETE supplied table next to it
        specs = [sp if (sp.get("incomplete") or "edge_node" not in sp) else srcs[0] for sp in specs]
    L = rng.randint(2, maxlen)
    hist = []
    for _ in range(L):
        gi = rng.randrange(k)
        ops = OPS[specs[gi]["name"]]
        r = rng.random()
        if r < 0.45:
            op = ["get", {"attr": rng.choice(VARS)}]
        elif r < 0.52:
            op = rng.choice([o for o in ops if o[0] == "chunk"])
        else:
            op = rng.choice(ops)
        hist.append((gi, op))
    return specs, hist


# --------------------------------------------------------------------------------------
# entry points
# --------------------------------------------------------------------------------------


def run(ctx):
    import time

    ctx.rule = ("read-only histories (every lazily derived Grid attribute of docs/api.rst, compute_face_areas variants, tree "
                "getters, to_xarray/to_geodataframe/to_polycollection/to_linecollection variants, chunk, isel, subset.*, "
                "get_dual, copy, cross sections, validate, repr) interleaved over 1..3 grids from 13+ sources (explicit "
                "topologies with/without supplied edge tables, edge coordinates, Cartesian nodes, longitudes in [0,360), "
                "face-vertex input, UGRID and MPAS sample files, partial meshes, antimeridian patches); witness histories of "
                "the snapshot's defects first, then chunk->X and ordered pairs (systematic in thorough), then random histories; "
                "every step compared with the fresh-copy reference computed in a separate worker process; distinct = distinct "
                "(sources, history); non-trivial = more than one operation")
    phase = {}
    ctx.extra["phase_seconds"] = phase
    ctx.assumptions = [
        "values are compared through digests of dtype/shape/bytes (arrays), query batteries (trees), coordinates (geometry)",
        "that each public method reads only what the Lean table says is validated by comparing Grid._ds with the model's store after every step, not proved",
        "JIT on/off equality and dask semantics are exercised, not proved; JIT-off observations may differ from JIT-on references by float rounding (1e-5 relative / 1e-8 absolute; arccos near 1 amplifies last-bit differences; for single-precision sources the result dtype may be float32 in one mode and float64 in the other — numba's type unification vs NumPy's promotion)",
        "isel / subset / get_dual / copy results are observed through a digest of the returned grid's fundamental and a few derived variables",
        "inventory-type attributes (dims, sizes, coordinates, connectivity, descriptors) and to_xarray('ugrid') are judged by the superset rule of the property's export clause",
    ]
    t0 = time.time()
    # the population table regenerated from the source text (Gen/GridWrites.lean; theorems gen_* of
    # Props/C08.lean are about it): it must be what the tree under test yields NOW
    try:
        from . import translate_c08

        if translate_c08.stale():
            x = translate_c08.extract()
            ctx.mismatch("C08/regenerated-table-differs-from-Gen/GridWrites.lean",
                         dict(unknown_writes=x["unknown"], module_writes=x["module_writes"], inplace=x["inplace"],
                              missing=x["missing"]),
                         "the table extracted from the tree under test", "lean/UxVerif/Gen/GridWrites.lean (theorems gen_* were checked against this)")
        else:
            ctx.hit("regenerated-table-current")
    except Exception as e:  # pragma: no cover
        ctx.notes.append("GridWrites extraction failed: %r" % (e,))
    S = Session()
    W = Worker()
    WJ = Worker(jit=False)
    J = Judge(ctx, S, W)
    rng = ctx.rng
    try:
        srcs = build_sources(rng, ctx.thorough or ctx.escalate)
        OPS = {s["name"]: ops_for(s, W.info(s)) for s in srcs}
        # every source's signature must be one the theorems cover
        for sp in srcs:
            opened = W.ref(sp, ["get", {"attr": "n_face"}])["opened"]
            sg = sig_of(opened)
            if ctx.driver.ask("C08.wf", common.enc_ints(sg)) != "1":
                ctx.mismatch("C08/source-signature-not-well-formed", dict(source=sp["name"], sig=[GROUPS[i] for i in sg]))
            ctx.hit("sig=" + "+".join(GROUPS[i] for i in sg if GROUPS[i] not in ("nodeLL", "faceNode"))[:60])
        phase["setup"] = round(time.time() - t0, 1)
        # 1. witnesses of the snapshot's defects (corpus)
        for name, flags, specs, hist in witness_histories():
            for sp in specs:
                if sp["name"] not in OPS:
                    OPS[sp["name"]] = ops_for(sp, W.info(sp))
            J.history(specs, hist, "witness:" + name)
            if flags:
                check_model_witness(ctx, W, name, flags, specs, hist)
        for f in sorted((common.CORPUS / "C08").glob("*.json")) if (common.CORPUS / "C08").is_dir() else []:
            rp = json.loads(f.read_text())
            inp = rp.get("input", rp)
            specs, hist = inp["specs"], [(g, o) for g, o in inp["hist"]]
            if inp.get("jit_off"):
                try:
                    res = WJ.ask(dict(cmd="hist", specs=specs, hist=[[g, o] for g, o in hist], full=True))
                    J.judge_result(specs, hist, res, "corpus:" + f.stem, shrink=False, jit_off=True)
                except Exception as e:
                    ctx.notes.append("corpus %s: JIT-off worker failed: %s" % (f.name, str(e)[:200]))
            else:
                J.history(specs, hist, "corpus:" + f.stem, shrink=False)
        phase["witness+corpus"] = round(time.time() - t0, 1)
        # 2. chunk -> X and ordered pairs
        n_chunk, n_pairs = ctx.n(10, 10 ** 6), ctx.n(30, 0)
        sys_srcs = srcs if (ctx.thorough or ctx.escalate) else rng.sample(srcs, 5)
        for sp in sys_srcs:
            ops = OPS[sp["name"]]
            xs = ops if n_chunk >= len(ops) else rng.sample(ops, n_chunk)
            for x in xs:
                J.history([sp], [(0, ["chunk", {"n_node": 2, "n_face": 2, "n_edge": 3}]), (0, x)], "chunk-then")
            for _ in range(n_pairs):
                J.history([sp], [(0, rng.choice(ops)), (0, rng.choice(ops))], "pair")
        if ctx.thorough or ctx.escalate:
            t1 = time.time()
            for sp in [srcs[1], srcs[2], srcs[3]]:
                ops = OPS[sp["name"]]
                rng.shuffle(ops)
                for a in ops:
                    if time.time() - t1 > 300:
                        ctx.notes.append("all-pairs sweep cut at 300 s")
                        break
                    for b in ops:
                        J.history([sp], [(0, a), (0, b)], "all-pairs", shrink=False)
        phase["chunk+pairs"] = round(time.time() - t0, 1)
        # 2b. saturation (every source) and argument cross-talk (an antimeridian source + a seeded one)
        raw = [sp for sp in srcs if ":R=" in sp["name"] or sp.get("variant") == "centres-raw"]
        rest = [sp for sp in srcs if sp not in raw]
        sat = srcs if (ctx.thorough or ctx.escalate) else raw + rng.sample(rest, min(7, len(rest)))
        for sp in sat:
            J.history([sp], saturation_history(rng, OPS[sp["name"]]), "saturation", shrink=True)
        for sp in ([srcs[1], rng.choice(srcs)] if not (ctx.thorough or ctx.escalate) else srcs[:8]):
            for h in crosstalk_histories(rng, OPS[sp["name"]]):
                J.history([sp], h, "cross-talk")
        phase["saturation+cross-talk"] = round(time.time() - t0, 1)
        # 2c. cached wrappers revisited (A→B→A, A→B→C→A) with boundary arguments
        for sp in ([srcs[0], rng.choice(srcs)] if not (ctx.thorough or ctx.escalate) else srcs[:6]):
            for h in revisit_histories(rng, OPS[sp["name"]]):
                J.history([sp], h, "revisit")
        # 3. random histories
        budget = 150 if not (ctx.thorough or ctx.escalate) else 720
        n_hist = ctx.n(150, 2500)
        for k in range(n_hist):
            if time.time() - t0 > budget:
                ctx.notes.append(f"random histories cut at {k} of {n_hist} ({budget} s)")
                break
            specs, hist = random_history(rng, srcs, OPS, maxlen=8)
            J.history(specs, hist, "random")
        phase["random"] = round(time.time() - t0, 1)
        ctx.extra["reference_values"] = len(W.cache)
        # 4. JIT off
        jit_pass(ctx, J, WJ, srcs, OPS, rng)
        phase["jit-off"] = round(time.time() - t0, 1)
        # 5. references recomputed in truly fresh interpreters (thorough)
        if ctx.thorough or ctx.escalate:
            fresh_interpreters(ctx, W, rng)
        # 6. after everything this process did: the module globals are what they were after import
        left = S.globals.changed()
        S.globals.restore()
        ctx.extra["globals_changed_when_run_ended"] = left
        if os.environ.get("C08_TIMING"):
            print("phase seconds:", phase, file=sys.stderr)
    finally:
        W.close()
        WJ.close()


def check_model_witness(ctx, W, name, flags, specs, hist):
    """the as-is model variant predicts a difference on the witness history (regression witness of the
    Lean counterexamples `asis_*`); the repaired variant predicts none"""
    evs = []
    for sp in specs:
        opened = W.ref(sp, ["get", {"attr": "n_face"}])["opened"]
        evs.append("0 " + common.enc_ints(sig_of(opened)))
    for gi, op in hist:
        evs.append("1 %d %s" % (gi, " ".join(map(str, model_op(op)))))
    verdicts = {}
    for fl in (flags, 0):
        out = common.Tok(ctx.driver.ask("C08.model", fl, len(evs), " ".join(evs)))
        ok = True
        for _ in evs:
            eq, clean, ng = out.int(), out.int(), out.int()
            for _ in range(ng):
                out.ints(), out.ints()
            ok = ok and bool(eq) and bool(clean)
        verdicts[fl] = ok
    if name == "jacobian-first":
        return  # the AttributeError of the snapshot is not modelled (the cell simply exists in the model)
    if verdicts[flags] or not verdicts[0]:
        ctx.mismatch("C08/model-witness/" + name, dict(flags=flags), None, verdicts)
    else:
        ctx.hit("model-witness-predicted:" + name)


def jit_pass(ctx, J, WJ, srcs, OPS, rng):
    """the same kind of histories with numba disabled (small meshes: the kernels are interpreted)"""
    small = [s for s in srcs if s["kind"] != "file" or s["name"] == "file:quadhex"]
    n = ctx.n(12, 120)
    slow = {"bounds", "validate"}
    done = 0
    try:
        WJ._wait()
    except Exception as e:
        ctx.notes.append("JIT-off worker unavailable: %r" % (e,))
        return
    for _ in range(n):
        specs, hist = random_history(rng, small, OPS, maxlen=5)
        hist = [(g, o) for g, o in hist if not (o[0] == "get" and o[1]["attr"] in slow) and o[0] not in slow]
        if not hist:
            continue
        try:
            res = WJ.ask(dict(cmd="hist", specs=specs, hist=[[g, o] for g, o in hist], full=True))
        except Exception as e:
            ctx.notes.append("JIT-off worker failed: " + str(e)[:300])
            return
        J.judge_result(specs, hist, res, "jit-off", shrink=False, jit_off=True)
        done += 1
    ctx.hit("jit-off-histories", done)


_FRESH = r"""
import sys, json
sys.path.insert(0, %r)
from harness import c08
s = c08.Session()
out = []
for spec, op in json.loads(sys.stdin.read()):
    g = c08.open_source(s.ux, spec)
    out.append(c08.digest(c08.observe(g, op)))
print("RESULT" + json.dumps(out))
"""


def fresh_interpreters(ctx, W, rng):
    """a sample of the reference table recomputed in brand-new interpreter processes"""
    keys = [k for k in W.cache if not k.startswith(("derived:", "info:")) and json.loads(k)[2] is False]
    rng.shuffle(keys)
    keys = keys[: ctx.n(40, 320)]
    by_name = {}
    items = []
    for k in keys:
        name, op, _ = json.loads(k)
        items.append((k, name, op))
    # the specs are needed again: keep them in the worker cache entries
    chunks = [items[i::16] for i in range(16)]
    procs = []
    env = dict(os.environ)
    env["VERIF_REPO"] = str(common.REPO)
    for ch in chunks:
        ch = [(k, n, op) for k, n, op in ch if n in SPEC_BY_NAME]
        if not ch:
            continue
        payload = json.dumps([[SPEC_BY_NAME[n], op] for _, n, op in ch])
        p = subprocess.Popen([sys.executable, "-c", _FRESH % str(common.VERIF)], stdin=subprocess.PIPE,
                             stdout=subprocess.PIPE, stderr=subprocess.DEVNULL, text=True, env=env)
        p.stdin.write(payload)
        p.stdin.close()
        procs.append((p, ch))
    n_ok = 0
    for p, ch in procs:
        out = p.stdout.read()
        p.wait()
        line = [l for l in out.splitlines() if l.startswith("RESULT")]
        if not line:
            ctx.notes.append("a fresh interpreter produced no result")
            continue
        ds = json.loads(line[0][6:])
        for (k, n, op), d in zip(ch, ds):
            ctx.case(("fresh-interpreter", n, op), nontrivial=False)
            if d != digest(W.cache[k]["obs"]):
                if op[0] == "to_xarray" and op[1].get("fmt") == "exodus":
                    continue
                ctx.fail(f"C08/reference-worker-differs-from-fresh-interpreter/{op_class(op)}",
                         "the value a brand-new interpreter returns differs from the reference worker's (an interference "
                         "channel outside the restored module containers, or a non-deterministic result)",
                         dict(specs=[SPEC_BY_NAME[n]], hist=[[0, op]], observe=0, what="fresh-interpreter", tag="fresh"))
            else:
                n_ok += 1
    ctx.hit("fresh-interpreter-agrees", n_ok)


SPEC_BY_NAME = {}
_orig_ref = Worker.ref


def _ref_recording(self, spec, op, full=False):
    SPEC_BY_NAME[spec["name"]] = spec
    return _orig_ref(self, spec, op, full)


Worker.ref = _ref_recording


def replay(ctx, rp):
    inp = rp["input"]
    S = Session()
    W = Worker()
    try:
        J = Judge(ctx, S, W)
        specs = inp["specs"]
        hist = [(g, op) for g, op in inp["hist"]]
        if inp.get("what") == "fresh-interpreter":
            ctx.escalate = True
            W.ref(specs[0], hist[0][1])
            fresh_interpreters(ctx, W, ctx.rng)
            return
        if inp.get("jit_off"):
            WJ = Worker(jit=False)
            try:
                res = WJ.ask(dict(cmd="hist", specs=specs, hist=[[g, o] for g, o in hist], full=True))
                J.judge_result(specs, hist, res, "replay", shrink=False, jit_off=True)
            finally:
                WJ.close()
            return
        J.history(specs, hist, "replay", shrink=False)
    finally:
        W.close()


if __name__ == "__main__":
    if "--worker" in sys.argv:
        if os.environ.get("C08_JIT_OFF"):
            # uxarray/grid/area.py sets numba's DISABLE_JIT from uxarray.constants.ENABLE_JIT at import:
            # pre-load the constants module with the flag off so that the whole library is interpreted
            import importlib.util

            common.use_repo()
            p = common.REPO / "uxarray" / "constants.py"
            sp = importlib.util.spec_from_file_location("uxarray.constants", p)
            mod = importlib.util.module_from_spec(sp)
            sp.loader.exec_module(mod)
            mod.ENABLE_JIT = False
            mod.ENABLE_JIT_CACHE = False
            sys.modules["uxarray.constants"] = mod
        worker_main()
