"""C10 — xarray operations keep a UxDataArray attached to a consistent grid.

Lean side (Props/C10.lean, model Model/UxdaAlgebra.lean): for EVERY table of constructor paths, state and
program of any length, every in-scope operation built through a re-attaching path keeps the invariant
"UxDataArray ∧ live grid attached ∧ every node/edge/face dimension has that grid's element count"
(`step_preserves_inv`, `program_inv`), keeps the same grid object (`same_grid`), deep copies get an equal,
independent grid (`deep_copy_independent`), and the model meets the decidable step specification
(`model_meets_spec`, `specB_iff`).  The other two paths provably break it (`plain_path_loses_grid`, …).

Tie (differential, labelled as such):
* WHICH path each public xarray method takes is a property of the installed xarray.  It is OBSERVED here on
  every run by wrapping the override points `_replace`, `_copy`, `_construct_direct`, `__init__` in-process
  (never on disk); the observed table is handed to the Lean driver and written into the evidence.
* every step of every generated program (depth ≤ 6, plus one directed single-step program per method variant
  and centring) is executed on the real UxDataArray and on a plain `xarray.DataArray` twin; after EVERY prefix
  the observed (type, grid identity / store, dims, sizes) are (a) judged by the Lean predicate
  `UxdaAlgebra.failing` and (b) compared with the Lean model's state.  Values, dtype and dims are compared with
  the plain-xarray twin (NumPy equality — a differential test, not a theorem).

`UxDataset` cannot be constructed under the installed xarray (Dataset(Dataset) is rejected), so the Dataset
half of the anchors (core/dataset.py) is NOT exercised; arrays are built with `UxDataArray(…, uxgrid=grid)`.
"""

from __future__ import annotations

import copy as pycopy
import os
import sys

import numpy as np

from . import common, meshes

# ----------------------------------------------------------------------------------------------
# encodings shared with lean/UxVerif/Driver/C10.lean
# ----------------------------------------------------------------------------------------------

GRID_DIMS = {"n_node": 0, "n_edge": 1, "n_face": 2}
OTHER = ["t", "lev", "ens", "run", "mem", "rep", "aux", "z0", "z1", "z2", "z3", "z4", "z5", "z6", "z7", "z8", "z9"]
KINDS = ["arith", "ufunc", "whereOp", "clip", "fillna", "astype", "indexOther", "indexGrid", "reduce", "cumulative",
         "rolling", "transpose", "rename", "assignCoords", "concat"]
PATHS = ["replace", "copy", "plainCtor", "classCtor"]
# what a path does to the grid slot: `replace` and `copy(deep=False)` both re-attach `self.uxgrid`
PATH_CLASS = {"replace": "re-attach", "copy": "re-attach", "plainCtor": "plain", "classCtor": "no-grid"}
REMAP_TO = {"nodes": "n_node", "edge centers": "n_edge", "face centers": "n_face"}
ELEMENT_DIM = dict(REMAP_TO)   # the `element=` keyword of the subset accessors uses the same three names
AGG_NAMES = ["mean", "max", "min", "prod", "sum", "std", "var", "median", "all", "any"]   # order of UxdaAlgebra.Agg


def dim_code(name):
    if name in GRID_DIMS:
        return GRID_DIMS[name]
    if name not in OTHER:
        OTHER.append(name)
    return 3 + OTHER.index(name)


def enc_dims(sizes):
    """sizes: list of (name, len)"""
    return " ".join([str(len(sizes))] + [f"{dim_code(n)} {int(l)}" for n, l in sizes])


def dec_dims(tok):
    n = tok.int()
    out = []
    for _ in range(n):
        c, l = tok.int(), tok.int()
        out.append((c, l))
    return out


def enc_state(st):
    h = " ".join([str(len(st["heap"]))] + [f"{c[0]} {c[1]} {c[2]} {s}" for c, s in st["heap"]])
    return f"{h} {1 if st['isUx'] else 0} {st['grid']} {enc_dims(st['dims'])}"


def dec_state(s):
    t = common.Tok(s)
    n = t.int()
    heap = []
    for _ in range(n):
        heap.append(((t.int(), t.int(), t.int()), t.int()))
    isux = t.int() == 1
    g = t.int()
    dims = dec_dims(t)
    return dict(heap=heap, isUx=isux, grid=g, dims=dims)


def canon_state(st):
    return dict(heap=[[list(c), s] for c, s in st["heap"]], isUx=bool(st["isUx"]), grid=int(st["grid"]),
                dims=[[dim_code(n) if isinstance(n, str) else n, int(l)] for n, l in st["dims"]])


# ----------------------------------------------------------------------------------------------
# path observation: wrap the override points of the class under test (in-process only)
# ----------------------------------------------------------------------------------------------


class Tracer:
    """Records which objects came out of `_replace` / `_copy`, and who called the constructors."""

    def __init__(self, ux, xr):
        self.ux, self.xr = ux, xr
        self.events = []
        self.callers = set()     # names of the functions that constructed a UxDataArray while tracing
        self.active = False
        cls = ux.UxDataArray
        tr = self
        self._saved = dict(
            _replace=cls.__dict__.get("_replace"), _copy=cls.__dict__.get("_copy"),
            _construct_direct=cls.__dict__.get("_construct_direct"), ux_init=cls.__dict__.get("__init__"),
            xr_init=xr.DataArray.__init__,
        )
        o_replace, o_copy, o_init = cls._replace, cls._copy, cls.__init__
        o_cd = cls._construct_direct.__func__
        x_init = xr.DataArray.__init__

        def _replace(self, *a, **k):
            r = o_replace(self, *a, **k)
            if tr.active:
                tr.callers.add("_replace")
                tr.events.append(("replace", r, None))
            return r

        def _copy(self, *a, **k):
            r = o_copy(self, *a, **k)
            if tr.active:
                tr.events.append(("copy", r, None))
            return r

        def _construct_direct(c, *a, **k):
            r = o_cd(c, *a, **k)
            if tr.active:
                tr.events.append(("construct_direct", r, None))
            return r

        def ux_init(self, *a, **k):
            if tr.active:
                who = tr.caller()
                tr.callers.add(who[1])
                tr.events.append(("ux_init", self, who))
            return o_init(self, *a, **k)

        def xr_init(self, *a, **k):
            if tr.active and type(self) is xr.DataArray:
                tr.events.append(("xr_init", self, tr.caller()))
            return x_init(self, *a, **k)

        self._mine = {f.__code__ for f in (_replace, _copy, _construct_direct, ux_init, xr_init)}
        cls._replace = _replace
        cls._copy = _copy
        cls._construct_direct = classmethod(_construct_direct)
        cls.__init__ = ux_init
        xr.DataArray.__init__ = xr_init

    def caller(self):
        f = sys._getframe(2)
        while f is not None:
            co = f.f_code
            base = os.path.basename(co.co_filename)
            if co in self._mine or (co.co_name == "__init__" and base == "dataarray.py"):
                f = f.f_back
                continue
            return (base[:-3] if base.endswith(".py") else base, co.co_name)
        return ("?", "?")

    def uninstall(self):
        cls = self.ux.UxDataArray
        for name, key in (("_replace", "_replace"), ("_copy", "_copy"), ("_construct_direct", "_construct_direct"),
                          ("__init__", "ux_init")):
            if self._saved[key] is None:
                try:
                    delattr(cls, name)
                except AttributeError:
                    pass
            else:
                setattr(cls, name, self._saved[key])
        self.xr.DataArray.__init__ = self._saved["xr_init"]

    def trace(self, fn):
        self.events = []
        self.active = True
        try:
            return fn()
        finally:
            self.active = False

    def classify(self, r):
        """(model path, detail) of the object `r` the last traced call returned"""
        ux = self.ux
        for kind, obj, _ in reversed(self.events):
            if obj is r and kind == "copy":
                return "copy", "_copy"
        for kind, obj, _ in reversed(self.events):
            if obj is r and kind == "replace":
                return "replace", "_replace"
        if isinstance(r, ux.UxDataArray):
            for kind, obj, who in reversed(self.events):
                if obj is r and kind == "construct_direct":
                    return "classCtor", "_construct_direct"
            for kind, obj, who in reversed(self.events):
                if obj is r and kind == "ux_init":
                    return "classCtor", f"{who[0]}.{who[1]}"
            return "classCtor", "?"
        for kind, obj, who in reversed(self.events):
            if obj is r and kind == "xr_init":
                return "plainCtor", who[0]
        return "plainCtor", "?"


# ----------------------------------------------------------------------------------------------
# the world of one program: grids (heap), the array under test, its plain twin
# ----------------------------------------------------------------------------------------------


def mesh_to_json(m):
    return dict(faces=m.faces, xyz=[[float(x) for x in p] for p in m.xyz], closed=bool(m.closed), kind=m.kind)


def mesh_from_json(j):
    return meshes.AMesh(j["faces"], np.array(j["xyz"], dtype=float), j.get("closed", False), j.get("kind", "replay"))


# Everything a program's operations build lazily and keep on the Grid (Grid._ds).  A "warm" grid has all of it before the
# program starts, a "cold" grid is fresh from the constructor; both states are reproducible, so a replay — which
# rebuilds the grids — sees exactly the grid state of the run (the grids shared by the programs of a run are warm).
WARM = ["edge_node_connectivity", "face_edge_connectivity", "edge_face_connectivity", "node_face_connectivity",
        "n_nodes_per_face", "face_lon", "face_lat", "edge_lon", "edge_lat", "node_x", "face_x", "edge_x",
        "edge_face_distances", "edge_node_distances", "hole_edge_indices", "face_areas"]


def warm_grid(g):
    for nm in WARM:
        try:
            getattr(g, nm)
        except Exception:
            pass
    return g


def grid_vars(g):
    try:
        return sorted(set(g.coordinates) | set(g.connectivity) | set(g.descriptors))
    except Exception:
        return []


def counts_of(g):
    return (int(g.n_node), int(g.n_edge), int(g.n_face))


def shares_store(a, b):
    """do two Grid objects share backing arrays (public API only)"""
    names = ["node_lon", "node_lat", "face_node_connectivity"]
    try:
        # every coordinate / connectivity / descriptor array both grids currently hold (public listing properties)
        extra = (set(a.coordinates) | set(a.connectivity) | set(a.descriptors)) & \
                (set(b.coordinates) | set(b.connectivity) | set(b.descriptors))
        names += sorted(x for x in extra if x not in names)
    except Exception:
        pass
    for nm in names:
        try:
            if np.shares_memory(np.asarray(getattr(a, nm).values), np.asarray(getattr(b, nm).values)):
                return True
        except Exception:
            continue
    return False


class World:
    def __init__(self, ux, xr, base_grids, closed):
        self.ux, self.xr = ux, xr
        self.grids = list(base_grids)          # heap of Grid objects (id = index)
        self.stores = list(range(len(base_grids)))
        self.closed = list(closed)
        self.derived = [False] * len(base_grids)  # built by Grid.isel (sub-grids: C09's territory)
        self.nbase = len(base_grids)

    def heap(self):
        return [(counts_of(g), s) for g, s in zip(self.grids, self.stores)]

    def gid(self, g, closed=False, derived=False, detect_share=True):
        for i, h in enumerate(self.grids):
            if h is g:
                return i
        st = None
        if detect_share:
            for i, h in enumerate(self.grids):
                if shares_store(g, h):
                    st = self.stores[i]
                    break
        if st is None:
            st = max(self.stores) + 1
        self.grids.append(g)
        self.stores.append(st)
        self.closed.append(closed)
        self.derived.append(derived)
        return len(self.grids) - 1

    def observe(self, r, closed=False, derived=False, detect_share=True):
        """`detect_share`: whether a NEW grid object is examined for backing arrays shared with earlier grids (asked
        for copies only: independence is a clause of the property for deep copies, not for isel / get_dual, whose
        grids are given a store of their own — Grid.from_topology aliasing its inputs is C19's subject)"""
        ux = self.ux
        isux = isinstance(r, ux.UxDataArray)
        g = getattr(r, "uxgrid", None) if isux else None
        gid = -1
        if g is not None and isinstance(g, ux.Grid):
            gid = self.gid(g, closed, derived, detect_share)
        dims = [(str(d), int(n)) for d, n in zip(r.dims, r.shape)]
        return dict(heap=self.heap(), isUx=isux, grid=gid, dims=dims)


def plain_of(xr, r):
    """a plain xarray.DataArray with the same data, dims, coords, name, attrs"""
    coords = {k: (v.dims, np.asarray(v.values)) for k, v in r.coords.items()}
    return xr.DataArray(np.asarray(r.values), dims=r.dims, coords=coords, name=r.name, attrs=dict(r.attrs))


def make_start(ux, xr, world, sp):
    g = world.grids[sp["grid"]]
    n = dict(n_node=g.n_node, n_edge=g.n_edge, n_face=g.n_face)[sp["centre"]]
    shape = tuple(l for _, l in sp["lead"]) + (int(n),)
    dt = np.dtype(sp["dtype"])
    flat = [float("nan") if v is None else v for v in sp["data"]]
    data = np.array(flat, dtype=float if dt.kind == "f" else dt).astype(dt).reshape(shape)
    dims = [d for d, _ in sp["lead"]] + [sp["centre"]]
    coords = {}
    for nm, (d, vals) in sp.get("coords", {}).items():
        coords[nm] = (d, np.array(vals)) if d else np.array(vals)
    u = ux.UxDataArray(data, dims=dims, coords=coords, uxgrid=g, name=sp.get("name"), attrs=sp.get("attrs") or {})
    t = xr.DataArray(data.copy(), dims=dims, coords=coords, name=sp.get("name"), attrs=sp.get("attrs") or {})
    return u, t


def start_from(u, gid):
    """a start spec that rebuilds the array `u` (attached to base grid `gid`)"""
    gd = [d for d in u.dims if d in GRID_DIMS]
    if len(gd) != 1 or u.dims[-1] != gd[0] or u.dtype.kind not in "fiub":
        return None
    coords = {}
    for k, v in u.coords.items():
        if len(v.dims) > 1 or v.dtype.kind not in "fiub":
            return None
        coords[k] = (v.dims[0] if v.dims else "", np.asarray(v.values).tolist())
    vals = np.asarray(u.values).reshape(-1).tolist()
    vals = [None if (isinstance(x, float) and x != x) else x for x in vals]
    return dict(grid=gid, centre=gd[0], lead=[[str(d), int(n)] for d, n in zip(u.dims[:-1], u.shape[:-1])],
                dtype=str(u.dtype), data=vals, coords=coords, name=u.name, attrs={})


# ----------------------------------------------------------------------------------------------
# operations: JSON descriptors -> callables; descriptor + twin result -> model op
# ----------------------------------------------------------------------------------------------

ARITH = {
    "add1": lambda d: d + 1, "rmul2": lambda d: 2 * d, "self_mul": lambda d: d * d, "neg": lambda d: -d,
    "abs": lambda d: abs(d), "gt0": lambda d: d > 0, "round": lambda d: d.round(), "pow2": lambda d: d ** 2,
    "add_self": lambda d: d + d, "rsub": lambda d: 1.5 - d, "floordiv": lambda d: d // 2, "eq_self": lambda d: d == d,
}
UFUNC = {
    "sin": lambda d: np.sin(d), "exp": lambda d: np.exp(d), "np_add1": lambda d: np.add(d, 1),
    "isfinite": lambda d: np.isfinite(d), "maximum0": lambda d: np.maximum(d, 0), "negative": lambda d: np.negative(d),
    "np_abs": lambda d: np.abs(d),
}


def key_of(idx):
    if isinstance(idx, dict):
        return slice(idx["a"], idx["b"], idx["s"])
    return idx


# the FORM of an indexer (a random dimension of the generator).  `idx` of a descriptor holds the base selection: an int,
# a slice `{a, b, s}` (any step, negative ones included) or a list of non-negative positions; `form` says how it is
# written down.
FORM_HOWS = ("isel_kw", "isel_indexers", "isel_dict", "getitem", "getitem_dict")   # entries that take positions
FORMS_LIST = ["list", "np64", "np32", "neg", "neg_np"]          # order kept, duplicates allowed
FORMS_MASK = ["mask_np", "mask_list", "mask_da"]               # need sorted, duplicate-free positions
FORMS = FORMS_LIST + FORMS_MASK + ["cmp", "empty", "empty_slice"]


def make_key(desc, d, n=None):
    """the indexer object the descriptor stands for, built against the array `d` it will index"""
    import xarray as xr_

    idx, form, dim = desc["idx"], desc.get("form"), desc.get("dim")
    if form == "cmp":
        return d > desc["c"]                      # the comparison itself: a boolean DataArray along `dim` (1-D arrays)
    if form == "empty":
        return np.array([], dtype=np.int64)
    if form == "empty_slice":
        return slice(1, 1)
    if isinstance(idx, dict):
        return slice(idx["a"], idx["b"], idx["s"])
    if form in (None, "list") or not isinstance(idx, list):
        return idx
    n = int(d.sizes[dim]) if n is None else n
    if form == "np64":
        return np.array(idx, dtype=np.int64)
    if form == "np32":
        return np.array(idx, dtype=np.int32)
    if form == "neg":
        return [int(i) - n for i in idx]
    if form == "neg_np":
        return np.array([int(i) - n for i in idx], dtype=np.int64)
    mask = np.zeros(n, dtype=bool)
    mask[idx] = True
    if form == "mask_np":
        return mask
    if form == "mask_list":
        return mask.tolist()
    if form == "mask_da":
        return xr_.DataArray(mask, dims=[dim])
    raise KeyError(form)


def positions_of(key, n):
    """NumPy's own normalisation of an indexer along a dimension of length n (None for a scalar: the dim disappears)"""
    if isinstance(key, slice):
        return np.arange(n)[key].tolist()
    k = np.asarray(getattr(key, "values", key))
    if k.ndim == 0:
        return None
    if k.size == 0:
        return []
    return np.arange(n)[k].tolist()


def lean_normidx(d, key, n):
    """the Lean model's `normIdx n idx` for the same indexer (None: the model says NumPy raises)"""
    if isinstance(key, slice):
        a, b, st = key.start, key.stop, (1 if key.step is None else key.step)
        q = f"2 {0 if a is None else 1} {0 if a is None else int(a)} {0 if b is None else 1} {0 if b is None else int(b)} {int(st)}"
    else:
        k = np.asarray(getattr(key, "values", key))
        if k.dtype == bool:
            q = "1 " + common.enc_ints([1 if x else 0 for x in k.tolist()])
        else:
            q = "0 " + common.enc_ints([int(x) for x in k.reshape(-1).tolist()])
    out = d.ask("C10.normidx", n, q)
    if out == "none":
        return None
    return common.Tok(out.split()[1:]).ints()


def apply_x(desc, d, xr):
    m = desc["m"]
    if m == "arith":
        return ARITH[desc["f"]](d)
    if m == "ufunc":
        return UFUNC[desc["f"]](d)
    if m == "where":
        c = d > desc["c"]
        return d.where(c) if desc.get("other") is None else d.where(c, desc["other"])
    if m == "clip":
        return d.clip(desc["lo"], desc["hi"])
    if m == "fillna":
        return d.fillna(desc["v"])
    if m == "astype":
        return d.astype(desc["dt"])
    if m == "assign_coords":
        n = d.sizes[desc["dim"]]
        return d.assign_coords({desc["name"]: (desc["dim"], np.arange(n) * desc.get("scale", 1))})
    if m == "assign_attrs":
        return d.assign_attrs(note="x")
    if m == "drop_vars":
        return d.drop_vars(desc["name"])
    if m == "cum":
        f = desc["f"]
        if f in ("cumsum", "cumprod"):
            return getattr(d, f)(desc["dim"])
        return getattr(d, f)({desc["dim"]: 1})
    if m == "rolling":
        kw = {}
        if desc.get("center"):
            kw["center"] = True
        if desc.get("minp") is not None:
            kw["min_periods"] = desc["minp"]
        return getattr(d.rolling({desc["dim"]: desc["w"]}, **kw), desc["f"])()
    if m == "cumulative":
        return getattr(d.cumulative(desc["dim"]), desc["f"])()
    if m == "index":
        how, dim, k = desc["how"], desc["dim"], (make_key(desc, d) if desc["how"] in FORM_HOWS else key_of(desc["idx"]))
        if how == "isel_kw":
            return d.isel(**{dim: k})
        if how == "isel_indexers":
            return d.isel(indexers={dim: k})
        if how == "isel_dict":
            return d.isel({dim: k})
        if how == "getitem":
            key = tuple(k if x == dim else slice(None) for x in d.dims)
            return d[key]
        if how == "getitem_dict":
            return d[{dim: k}]
        if how == "sel":
            return d.sel({dim: k})
        if how == "loc":
            return d.loc[{dim: k}]
        if how in ("head", "tail", "thin"):
            return getattr(d, how)({dim: k})
        raise KeyError(how)
    if m == "reduce":
        f, dims = desc["f"], desc["dims"]
        if dims is None:
            return getattr(d, f)()
        return getattr(d, f)(dims if len(dims) > 1 else dims[0])
    if m == "transpose":
        how = desc["how"]
        if how == "T":
            return d.T
        if how == "noargs":
            return d.transpose()
        if how == "ellipsis":
            return d.transpose(..., desc["order"][-1])
        return d.transpose(*desc["order"])
    if m == "rename":
        if desc["how"] == "name":
            return d.rename(desc["new"])
        return d.rename({desc["old"]: desc["new"]})
    if m == "concat":
        if desc["how"] == "new":
            return xr.concat([d] * desc["n"], dim=desc["dim"])
        parts = [d, d.isel(**{desc["dim"]: slice(0, 1)})] if desc.get("partial") else [d, d]
        return xr.concat(parts, dim=desc["dim"])
    if m == "expand_dims":
        return d.expand_dims(desc["dim"], axis=-1 if desc.get("last") else 0)
    if m == "copy":
        how = desc["how"]
        x = None
        if how.endswith("_data"):
            # new VALUES of the same shape and dtype (deterministic: the old ones rolled by one)
            x = np.roll(np.asarray(d.values), 1)
        if how == "copy_shallow":
            return d.copy(deep=False)
        if how == "copy.copy":
            return pycopy.copy(d)
        if how == "copy_deep":
            return d.copy(deep=True)
        if how == "copy_default":
            return d.copy()
        if how == "deepcopy":
            return pycopy.deepcopy(d)
        if how == "copy_data":
            return d.copy(data=x)
        if how == "copy_deep_data":
            return d.copy(deep=True, data=x)
        if how == "copy_shallow_data":
            return d.copy(deep=False, data=x)
    raise KeyError(m)


def resolve_idx(desc, u):
    """the index (list) of a `ux_isel` descriptor; with `wrap` the entries are taken modulo the CURRENT grid's element
    count (used by the chained-selection stream, where the size of the intermediate sub-grid is not known in advance)"""
    idx = desc["idx"]
    n = int(getattr(u.uxgrid, desc["dim"]))
    if desc.get("wrap"):
        idx = [int(i) % n for i in idx] if isinstance(idx, list) else int(idx) % n
    if desc.get("form") == "cmp":
        return u > desc["c"]
    if desc.get("form"):
        return make_key(dict(desc, idx=idx), u, n=n)      # the FORM the selection is written in (mask, negative, slice …)
    if isinstance(idx, dict):
        return key_of(idx)
    return idx


def subset_call(desc, g, target):
    """the selection a `ux_subset` descriptor stands for, called on `target` (the UxDataArray, or the Grid itself to find
    out whether the SELECTION is defined — an empty region is the selection's problem, not the array's).  Regions are
    placed relative to node 0 of the current grid so that they are never empty by construction."""
    how = desc.get("how", "nn")
    if how == "nn":
        return target.subset.nearest_neighbor(tuple(desc["center"]), k=desc["k"], element=desc["element"])
    lon0, lat0 = float(g.node_lon.values[0]), float(g.node_lat.values[0])
    if how == "circle":
        return target.subset.bounding_circle((lon0, lat0), desc.get("r", 50.0), element=desc["element"])
    if how == "box":
        return target.subset.bounding_box((-179.5, 179.5), (max(-90.0, lat0 - 50.0), min(90.0, lat0 + 50.0)),
                                          element=desc["element"])
    if how == "const_lat":
        lat = float(np.median(g.node_lat.values)) + desc.get("dlat", 0.5)
        return target.cross_section.constant_latitude(lat)
    raise KeyError(how)


def apply_ux(desc, u, world):
    m = desc["m"]
    if m == "ux_isel":
        idx = resolve_idx(desc, u)
        return u.isel(**{desc["dim"]: (np.array(idx) if desc.get("as_array") and isinstance(idx, list) else idx)})
    if m == "ux_subset":
        return subset_call(desc, u.uxgrid, u)
    if m == "integrate":
        return u.integrate()
    if m == "gradient":
        return u.gradient(normalize=bool(desc.get("normalize")))
    if m == "difference":
        return u.difference(destination="edge")
    if m == "topo":
        return getattr(u, "topological_" + desc["f"])(destination=desc["dest"])
    if m == "remap":
        g2 = world.grids[desc["grid"]]
        ct = desc.get("coord", "spherical")
        if desc["how"] == "nn":
            return u.remap.nearest_neighbor(g2, remap_to=desc["to"], coord_type=ct)
        return u.remap.inverse_distance_weighted(g2, remap_to=desc["to"], coord_type=ct, k=desc.get("k", 2))
    if m == "get_dual":
        return u.get_dual()
    raise KeyError(m)


ZERO_COUNT_GRIDS = []

UX_OPS = ("ux_isel", "ux_subset", "integrate", "gradient", "difference", "topo", "remap", "get_dual")
# the public ways of copying, in the order of `UxdaAlgebra.CopyApi` (the Lean model says which are deep: `C10.copydeep`)
COPY_APIS = ["copy_default", "copy_deep", "copy_shallow", "copy_data", "copy_deep_data", "copy_shallow_data", "copy.copy",
             "deepcopy"]
DEEP = set()   # filled from the Lean model when the run starts (Env.__init__)


def method_name(desc):
    """the name used in signatures (one per class of call site)"""
    m = desc["m"]
    if m == "ufunc":
        return "numpy-ufunc"
    if m == "index":
        if desc["dim"] in GRID_DIMS:
            return "index-grid-dim"
        return "isel-positional-dict" if desc["how"] == "isel_dict" else "index"
    if m == "cum":
        return desc["f"]
    if m in ("rolling", "cumulative"):
        return "rolling"
    if m == "copy":
        return "deepcopy" if desc["how"] in DEEP else "copy"
    if m == "ux_isel":
        return "grid-isel"
    if m == "ux_subset":
        return {"nn": "subset", "circle": "subset.bounding_circle", "box": "subset.bounding_box",
                "const_lat": "cross_section.constant_latitude"}[desc.get("how", "nn")]
    if m == "topo":
        return "topological_agg"
    return m


def kind_of(desc):
    m = desc["m"]
    return {
        "arith": "arith", "ufunc": "ufunc", "where": "whereOp", "clip": "clip", "fillna": "fillna", "astype": "astype",
        "assign_coords": "assignCoords", "assign_attrs": "assignCoords", "drop_vars": "assignCoords",
        "cum": "cumulative", "rolling": "rolling", "cumulative": "rolling", "reduce": "reduce",
        "transpose": "transpose", "rename": "rename", "concat": "concat", "expand_dims": "concat",
    }.get(m) or ("indexGrid" if m == "index" and desc["dim"] in GRID_DIMS else "indexOther" if m == "index" else None)


def model_op(desc, pre_dims, post_dims, extra):
    """encoding of the model operation (see Driver/C10.lean `opP`)"""
    m = desc["m"]
    k = kind_of(desc)
    pre = dict(pre_dims)
    post = dict(post_dims) if post_dims is not None else {}
    if m in ("arith", "ufunc", "where", "clip", "fillna", "astype", "assign_coords", "assign_attrs", "drop_vars"):
        return f"0 {KINDS.index(k)}"
    if m in ("cum", "rolling", "cumulative"):
        return f"1 {KINDS.index(k)} {dim_code(desc['dim']) - 3}"
    if m == "index":
        d = desc["dim"]
        return f"2 {dim_code(d)} {post[d] if d in post else -1}"
    if m == "reduce":
        ds = desc["dims"] if desc["dims"] is not None else [d for d, _ in pre_dims]
        return "3 " + " ".join([str(len(ds))] + [str(dim_code(d)) for d in ds])
    if m == "transpose":
        return "4 " + enc_dims(post_dims)
    if m == "rename":
        if desc["how"] == "name":
            return "6"
        return f"5 {dim_code(desc['old']) - 3} {dim_code(desc['new']) - 3}"
    if m == "concat":
        d = desc["dim"]
        return f"{8 if desc['how'] == 'new' else 7} {dim_code(d) - 3} {post[d]}"
    if m == "copy":
        return f"18 {COPY_APIS.index(desc['how'])} {1 if extra.get('fresh') else 0}"
    if m == "expand_dims":
        return f"17 {dim_code(desc['dim']) - 3} {1 if desc.get('last') else 0}"
    # uxarray's own calls go through the Lean table `UxdaAlgebra.UxCall` (opcode 19 + call code, see `C10.uxcalls`)
    if m == "ux_isel":
        c = extra.get("counts", (0, 0, 0))
        return f"19 6 {GRID_DIMS[desc['dim']]} {c[0]} {c[1]} {c[2]}"
    if m == "ux_subset":
        c = extra.get("counts", (0, 0, 0))
        how = desc.get("how", "nn")
        if how == "const_lat":
            return f"19 10 {c[0]} {c[1]} {c[2]}"
        return f"19 {dict(nn=7, circle=8, box=9)[how]} {GRID_DIMS[ELEMENT_DIM[desc['element']]]} {c[0]} {c[1]} {c[2]}"
    if m == "integrate":
        return "19 5"
    if m == "gradient":
        return "19 3"
    if m == "difference":
        return "19 4"
    if m == "topo":
        return f"19 2 {AGG_NAMES.index(desc['f'])} {GRID_DIMS['n_' + desc['dest']]}"
    if m == "remap":
        return f"19 {0 if desc['how'] == 'nn' else 1} {desc['grid']} {GRID_DIMS[REMAP_TO[desc['to']]]}"
    if m == "get_dual":
        c = extra.get("counts", (0, 0, 0))
        return f"19 11 {1 if extra.get('closed') else 0} {c[0]} {c[1]} {c[2]}"
    raise KeyError(m)


# ----------------------------------------------------------------------------------------------
# running one program
# ----------------------------------------------------------------------------------------------


def element_keys(g, dim):
    """a geometric name for every element of a grid, through public API only: a node is its (lon, lat); a face / an edge
    is the set of its nodes' (lon, lat).  Sub-grids keep the coordinates bit for bit, so the keys identify WHICH element of
    the source grid an element of a sub-grid is, independently of any index list the library records."""
    lon, lat = np.asarray(g.node_lon.values), np.asarray(g.node_lat.values)
    nk = [(float(a), float(b)) for a, b in zip(lon, lat)]
    if dim == "n_node":
        return nk
    conn = np.asarray((g.face_node_connectivity if dim == "n_face" else g.edge_node_connectivity).values)
    return [frozenset(nk[int(i)] for i in row if int(i) != common.INT_FILL) for row in conn]


def index_map(src, sub, dim):
    """for every element of `sub` (along `dim`) the index of the same element in `src`; None when not identifiable"""
    try:
        ks, kt = element_keys(src, dim), element_keys(sub, dim)
    except Exception:
        return None
    pos = {}
    for i, k in enumerate(ks):
        if k in pos:
            return None          # ambiguous geometry (duplicate elements in the source): no oracle
        pos[k] = i
    out = []
    for k in kt:
        if k not in pos:
            return None
        out.append(pos[k])
    return out


def arrays_equal(a, b):
    if a.dtype.kind == "O" or b.dtype.kind == "O":
        # e.g. shift() of a boolean array: object dtype holding NaN
        return all((x is y) or (x == y) or (isinstance(x, float) and isinstance(y, float) and x != x and y != y)
                   for x, y in zip(a.reshape(-1).tolist(), b.reshape(-1).tolist()))
    return bool(np.array_equal(a, b, equal_nan=a.dtype.kind in "fc"))


def same_values(r, t):
    a, b = np.asarray(r.values), np.asarray(t.values)
    if tuple(r.dims) != tuple(t.dims) or a.shape != b.shape:
        return "dims/shape"
    if a.dtype != b.dtype:
        return f"dtype {a.dtype} vs {b.dtype}"
    ok = arrays_equal(a, b)
    if not ok:
        return "values"
    if set(map(str, r.coords)) != set(map(str, t.coords)):
        return "coords"
    return None


class Env:
    """everything a run needs besides the ctx"""

    def __init__(self, ctx):
        import uxarray as ux
        import xarray as xr

        self.ctx, self.ux, self.xr = ctx, ux, xr
        self.tr = Tracer(ux, xr)
        self.table = {}          # kind -> observed path
        self.variants = {}       # "kind:variant" -> "path (detail)"
        self.ux_raises = {}
        flags = common.Tok(ctx.driver.ask("C10.copydeep")).ints()
        DEEP.clear()
        DEEP.update(a for a, f in zip(COPY_APIS, flags) if f == 1)
        if len(flags) != len(COPY_APIS):
            raise RuntimeError("copy API table of the Lean model and of the harness differ")

    def close(self):
        self.tr.uninstall()

    def table_codes(self):
        return " ".join(str(PATHS.index(self.table.get(k, "replace"))) for k in KINDS)


def run_program(env, inp, out, tag="gen", chooser=None, depth=0):
    """Run `inp` = {grids, start, program}; append failures / mismatches to `out` (lists in a dict).
    With `chooser`, the program is GROWN while it runs: `chooser(twin, state, world)` picks the next operation
    against the current state, up to `depth` executed steps.  Returns the executed program (with markers)."""
    ctx, ux, xr, tr = env.ctx, env.ux, env.xr, env.tr
    judge = True
    d = ctx.driver
    ms = [mesh_from_json(j) for j in inp["grids"]]
    base = inp.get("_grids_cache") if inp.get("warm") else None
    if base is None:
        base = [meshes.to_grid(m, ux) for m in ms]
        if inp.get("warm"):
            base = [warm_grid(g) for g in base]
    world = World(ux, xr, base, [m.closed for m in ms])
    u, t = make_start(ux, xr, world, inp["start"])
    state = world.observe(u)
    if d.ask("C10.inv", enc_state(state)) != "1":
        raise RuntimeError("generator bug: start state does not satisfy the invariant: %r" % (state,))
    steps = 0
    done = []
    fixed = iter(inp.get("program") or [])
    tries = 0
    grown = 0
    while True:
        desc = next(fixed, None)
        if desc is None:
            if chooser is None:
                break
            # the fixed part is over: grow the program against the current state
            if grown >= depth or tries >= 3 * depth + 6:
                break
            tries += 1
            desc = chooser(t, state, world)
            if desc is None:
                break
            grown += 1
        m = desc["m"]
        name = method_name(desc)
        is_ux = m in UX_OPS
        pre_dims = state["dims"]
        cur_grid = world.grids[state["grid"]] if state["grid"] >= 0 else None
        extra = {}
        # ---- plain xarray first: what the operation computes on the same data
        t_next = None
        if not is_ux:
            try:
                t_next = apply_x(desc, t, xr)
            except Exception as e:
                out["skipped"].append((name, type(e).__name__))
                continue
            if not isinstance(t_next, xr.DataArray):
                continue
        if m == "ux_subset" and desc.get("how", "nn") != "nn" and cur_grid is not None:
            # is the SELECTION defined on this grid (non-empty region / a latitude that meets faces)?
            try:
                subset_call(desc, cur_grid, cur_grid)
            except Exception as e:
                out["skipped"].append((name + "[grid-level selection undefined]", type(e).__name__))
                continue
        # ---- the selection an indexing step makes, as positions along its dimension (NumPy's normalisation of the
        #      indexer in whatever FORM it is written) — compared with the Lean model's `normIdx`
        sel_pos = None
        if (m == "index" and desc["how"] in FORM_HOWS and desc["dim"] in t.dims) or (m == "ux_isel" and cur_grid is not None):
            try:
                if m == "index":
                    n_sel = int(t.sizes[desc["dim"]])
                    key_sel = make_key(desc, t)
                else:
                    n_sel = int(getattr(cur_grid, desc["dim"]))
                    key_sel = (t > desc["c"]) if desc.get("form") == "cmp" else resolve_idx(desc, u)
                sel_pos = positions_of(key_sel, n_sel)
                if sel_pos is None and m == "ux_isel":
                    kk = int(np.asarray(key_sel))                      # the keyword form keeps the dimension for a scalar
                    sel_pos = [kk % n_sel] if -n_sel <= kk < n_sel else None
                    key_sel = [kk]
                if sel_pos is not None:
                    lp = lean_normidx(d, key_sel, n_sel)
                    ctx.hit("indexer-form:" + (desc.get("form") or ("slice" if isinstance(key_sel, slice) else "list")))
                    if lp != sel_pos:
                        out["mismatches"].append(("C10/normIdx-vs-numpy", dict(n=n_sel, form=desc.get("form"), idx=desc.get("idx")),
                                                  sel_pos, lp))
            except Exception as e:
                sel_pos = None
        # ---- the implementation
        err = None
        try:
            r = tr.trace((lambda: apply_ux(desc, u, world)) if is_ux else (lambda: apply_x(desc, u, xr)))
        except Exception as e:
            err, r = e, None
        here = dict(grids=inp["grids"], start=inp["start"], program=done + [desc], warm=bool(inp.get("warm")))
        if err is not None:
            if sel_pos == [] and (is_ux or desc.get("dim") in GRID_DIMS):
                out["failures"].append(dict(
                    signature=(f"C10/op={name}/empty-selection/raises" if is_ux else
                               f"C10/op={name}/dim={desc['dim']}/empty-selection/raises"),
                    what=(f"an EMPTY selection along {desc['dim']} ({desc.get('how') or 'isel keyword'}, form {desc.get('form')}) raises "
                          f"{type(err).__name__}: {str(err)[:120]} — plain xarray returns an empty array; a Grid without faces cannot be "
                          "constructed"),
                    input=here, impl=dict(error=f"{type(err).__name__}: {err}"[:300]), model=None, clauses=["values_as_xarray"]))
                continue
            if is_ux:
                sub = state["grid"] >= 0 and world.derived[state["grid"]]
                gcoord = any(set(v.dims) & set(GRID_DIMS) for v in u.coords.values())
                key = f"{name}:{type(err).__name__}:{'sub-grid' if sub else 'grid-coord' if gcoord else 'other'}"
                env.ux_raises[key] = env.ux_raises.get(key, 0) + 1
                if (not sub or m in ("ux_isel", "ux_subset")) and not gcoord and judge:
                    mo = model_op(desc, pre_dims, None, dict(counts=(1, 1, 1), closed=world.closed[state["grid"]]))
                    ms_ = d.ask("C10.step", env.table_codes(), enc_state(state), mo)
                    if ms_ != "none" and m in ("ux_isel", "ux_subset"):
                        # isel on a grid dimension (and the subset accessors built on it) is in the property's list for
                        # ANY layout: indexing is by name, so it is defined wherever the element dimension sits
                        gd0 = [dd for dd, _ in pre_dims if dd in GRID_DIMS][0]
                        layout = "element-dim-last" if pre_dims[-1][0] == gd0 else "element-dim-not-last"
                        if sub:
                            layout = "on-sub-grid/" + layout
                        out["failures"].append(dict(
                            signature=f"C10/op={name}/{layout}/raises={type(err).__name__}",
                            what=(f"{name} on a grid dimension raises {type(err).__name__} for an array with dims {pre_dims} "
                                  f"attached to a consistent grid ({layout}): {str(err)[:160]}; indexing by name is defined "
                                  "for every layout (transpose-then-isel = isel-then-transpose)"),
                            input=here, impl=dict(error=f"{type(err).__name__}: {err}"[:300]),
                            model=dict(op=mo, model=ms_), clauses=["grid_isel_by_name"]))
                    elif ms_ != "none":
                        out["mismatches"].append(("C10/ux-op-raises/" + name, here,
                                                  f"{type(err).__name__}: {err}"[:300], "model: defined"))
                continue
            out["failures"].append(dict(
                signature=f"C10/op={name}/raises={type(err).__name__}",
                what=f"{name} raises {type(err).__name__} on a UxDataArray while plain xarray computes a result: {str(err)[:200]}",
                input=here, impl=dict(error=f"{type(err).__name__}: {err}"[:300]),
                model=dict(xarray_dims=[list(x) for x in zip(map(str, t_next.dims), t_next.shape)]), clauses=["values_as_xarray"]))
            continue
        if not isinstance(r, xr.DataArray):
            continue
        steps += 1
        path, detail = tr.classify(r)
        # ---- observe the result
        grid_aware = (m == "index" and desc["dim"] in GRID_DIMS and isinstance(r, ux.UxDataArray) and cur_grid is not None
                      and isinstance(getattr(r, "uxgrid", None), ux.Grid) and r.uxgrid is not cur_grid
                      and desc["dim"] in r.dims)
        if grid_aware:
            # REPAIRED positional indexing (fixes/C10-positional-face-indexing-slices-grid.patch): the selection went through
            # Grid.isel, the result sits on a new sub-grid — in the model this is the by-name operation `gridIsel`
            # (UxCall.isel); being an xarray operation its values are still compared with the plain twin
            post = world.observe(r, closed=False, derived=True, detect_share=False)
            ctx.hit("index-grid-dim:grid-aware:" + desc["dim"] + ":" + desc["how"])
        elif m in ("ux_isel", "ux_subset"):
            post = world.observe(r, closed=False, derived=True, detect_share=False)
        elif m == "get_dual":
            post = world.observe(r, closed=world.closed[state["grid"]], derived=world.derived[state["grid"]],
                                 detect_share=False)
            extra["closed"] = world.closed[state["grid"]]
        elif m == "copy":
            post = world.observe(r, closed=world.closed[state["grid"]] if state["grid"] >= 0 else False,
                                 derived=world.derived[state["grid"]] if state["grid"] >= 0 else False)
        else:
            post = world.observe(r)
        if post["grid"] >= 0:
            extra["counts"] = post["heap"][post["grid"]][0]
            if m == "get_dual" and state["grid"] >= 0:
                # `closed` in the model = "the dual has one face per source node and as many edges" (true on a closed
                # mesh whose nodes all have >= 3 faces; construct_dual skips the other nodes).  Whether THIS mesh is
                # one is C18's business; here it is read off the dual that was built.
                n0, e0, f0 = state["heap"][state["grid"]][0]
                extra["closed"] = tuple(extra["counts"]) == (f0, e0, n0)
        if m == "copy" and desc["how"] in DEEP and post["grid"] >= 0:
            # `fresh` is an observation: does the new grid share backing arrays with an earlier one
            extra["fresh"] = post["heap"][post["grid"]][1] not in [s for _, s in state["heap"]]
        post_dims = [(str(a), int(b)) for a, b in zip(t_next.dims, t_next.shape)] if t_next is not None else post["dims"]
        mo = model_op(desc, pre_dims, post_dims, extra)
        k = kind_of(desc)
        if grid_aware:
            c_ = extra.get("counts", (0, 0, 0))
            mo = f"19 6 {GRID_DIMS[desc['dim']]} {c_[0]} {c_[1]} {c_[2]}"
            k = None
        if m == "get_dual" and post["grid"] >= 0 and state["grid"] >= 0:
            gd_ = [dd for dd, _ in pre_dims if dd in GRID_DIMS]
            cnt_ = post["heap"][post["grid"]][0]
            consistent = all((dd not in GRID_DIMS) or n == cnt_[GRID_DIMS[dd]] for dd, n in post["dims"])
            if len(gd_) == 1 and gd_[0] != "n_edge" and consistent:
                # REPAIRED get_dual (fixes/C10-get-dual-drops-nodes-without-dual-face.patch): UxCall.getDualR
                mo = f"19 12 {cnt_[0]} {cnt_[1]} {cnt_[2]}"
                ctx.hit("get_dual:repaired-model:" + gd_[0] + (":nodes-dropped" if not extra.get("closed") else ""))
        if k is not None:
            vkey = f"{k}:{name}" + (f"/{desc.get('f') or desc.get('how')}" if (desc.get("f") or desc.get("how")) else "")
            env.variants.setdefault(vkey, f"{path} ({detail})")
            if k not in env.table:
                env.table[k] = path
            elif PATH_CLASS[env.table[k]] != PATH_CLASS[path] and judge:
                out["mismatches"].append(("C10/path-varies-within-kind/" + k, here, f"{vkey}: {path} ({detail})",
                                          f"table[{k}] = {env.table[k]}"))
        # ---- Lean: the model's step and the verdict of the step specification on the OBSERVED result
        ps, qs = enc_state(state), enc_state(post)
        xd = enc_dims(post_dims) if not (is_ux or grid_aware) else "0"
        verdict = d.ask("C10.spec", ps, mo, qs, xd)
        model = d.ask("C10.step", env.table_codes(), ps, mo)
        cover = d.ask("C10.cover", env.table_codes(), mo).split()
        model_state = dec_state(model[5:]) if model.startswith("some") else None
        agree = model_state is not None and canon_state(model_state) == canon_state(post)
        key = (tag, name, desc.get("f") or desc.get("how"), str(r.dtype), tuple(pre_dims), mo, state["grid"] >= world.nbase)
        ctx.case(key, nontrivial=len(done) > 0 or is_ux or k in ("indexGrid", "concat", "reduce", "transpose"),
                 sample=dict(here, observed=canon_state(post), path=path) if (len(done) == 2 and len(ctx.samples) < 3) else None)
        ctx.hit("op:" + name)
        if m == "copy":
            ctx.hit("copy-api:" + desc["how"] + (":deep" if desc["how"] in DEEP else ":shallow"))
        ctx.hit("path:" + ("explicit-UxDataArray(...)" if is_ux else path))
        ctx.hit("depth:%d" % steps)
        ctx.hit("dtype:" + str(u.dtype))
        ctx.hit("theorem-covers-step" if cover[0] == "1" and cover[1] == "1" else "step-outside-theorem-hypotheses")
        if state["grid"] >= world.nbase:
            ctx.hit("on-derived-grid")
        bad_values = None
        if t_next is not None:
            bad_values = same_values(r, t_next)
        elif m in ("ux_isel", "ux_subset") and state["grid"] >= 0 and len([1 for dd, _ in pre_dims if dd in GRID_DIMS]) == 1:
            gd0 = [dd for dd, _ in pre_dims if dd in GRID_DIMS][0]
            refs = []
            if m == "ux_isel" and desc["dim"] == "n_face" and gd0 == "n_face":
                # independent oracle 1: plain xarray's isel BY NAME with the requested faces
                if sel_pos is not None:
                    refs.append(("plain-xarray-isel-by-name-at-requested-faces", t.isel({gd0: sel_pos})))
            if post["grid"] >= 0 and cur_grid is not None:
                # independent oracle 2, for every centring, on base grids and on sub-grids alike: identify each element of
                # the attached sub-grid in the CURRENT grid by its geometry and index the plain twin by name with that list
                imap = index_map(cur_grid, world.grids[post["grid"]], gd0)
                if imap is not None and len(imap) == dict(post["dims"]).get(gd0):
                    refs.append(("plain-xarray-isel-by-name-at-geometric-indices", t.isel({gd0: imap})))
                else:
                    ctx.hit("grid-isel-values:geometric-oracle-unavailable")
            if pre_dims[-1][0] != gd0:
                # metamorphic oracle: the same selection on the canonical layout (element dimension last), moved back
                try:
                    can = apply_ux(desc, u.transpose(..., gd0), world)
                    refs.append(("isel-then-transpose", plain_of(xr, can).transpose(*[dd for dd, _ in pre_dims])))
                except Exception:
                    pass
            if refs and world.derived[state["grid"]]:
                ctx.hit("grid-isel:chained-on-sub-grid:" + gd0)
            for oname, ref in refs:
                ctx.hit("grid-isel-values:" + oname)
                a, b = np.asarray(r.values), np.asarray(ref.values)
                if tuple(map(str, r.dims)) != tuple(map(str, ref.dims)) or a.shape != b.shape:
                    bad_values = f"[{oname}] dims/shape {list(zip(map(str, r.dims), a.shape))} vs {list(zip(map(str, ref.dims), b.shape))}"
                elif a.dtype != b.dtype:
                    bad_values = f"[{oname}] dtype {a.dtype} vs {b.dtype}"
                elif not arrays_equal(a, b):
                    bad_values = f"[{oname}] values"
                if bad_values:
                    break
            if pre_dims[-1][0] != gd0:
                ctx.hit("grid-isel:element-dim-not-last")
        if m == "get_dual" and bad_values is None and cur_grid is not None and post["grid"] >= 0:
            # which data the dual carries: face data move to the dual's nodes unchanged; node data are those of the nodes
            # that get a dual face (>= 3 faces), in node order — computed here from the public node_face_connectivity
            gd_ = [dd for dd, _ in pre_dims if dd in GRID_DIMS]
            ref = None
            try:
                if gd_ == ["n_face"]:
                    ref = t.rename({"n_face": "n_node"})
                elif gd_ == ["n_node"]:
                    nfc = np.asarray(cur_grid.node_face_connectivity.values)
                    keep = np.flatnonzero((nfc != common.INT_FILL).sum(axis=1) > 2)
                    if len(keep) == post["heap"][post["grid"]][0][2]:
                        ref = t.isel({"n_node": keep}).rename({"n_node": "n_face"})
            except Exception:
                ref = None
            if ref is not None and tuple(map(str, ref.dims)) == tuple(map(str, r.dims)) and ref.shape == r.shape:
                ctx.hit("get_dual-values:" + gd_[0])
                if not arrays_equal(np.asarray(r.values), np.asarray(ref.values)):
                    bad_values = "values (data of the elements that have a counterpart in the dual)"
        clauses = verdict[5:].split(",") if verdict.startswith("fail") else []
        # ---- the sub-grid of a selection IS the selected elements: for faces exactly, in the order selected; for nodes /
        #      edges (inclusive selection) it contains every selected element.  Elements are identified by geometry.
        grid_sel = None
        if sel_pos is not None and cur_grid is not None and post["grid"] >= 0 and (m == "ux_isel" or grid_aware) \
                and world.grids[post["grid"]] is not cur_grid:
            sdim = desc["dim"]
            imap = index_map(cur_grid, world.grids[post["grid"]], sdim)
            if imap is not None:
                if sdim == "n_face" and imap != sel_pos:
                    grid_sel = f"the sub-grid's faces are source faces {imap[:12]} but the selection is {sel_pos[:12]}"
                elif sdim != "n_face" and not set(sel_pos) <= set(imap):
                    grid_sel = f"selected {sdim} {sorted(set(sel_pos) - set(imap))[:12]} are missing from the sub-grid"
                ctx.hit("selection-grid-identified:" + sdim)
            if grid_sel:
                clauses.append("grid_is_the_selection")
        if (m == "index" and desc["dim"] in GRID_DIMS and not grid_aware and sel_pos is not None and cur_grid is not None
                and isinstance(r, ux.UxDataArray) and getattr(r, "uxgrid", None) is cur_grid and desc["dim"] in r.dims
                and len(sel_pos) == int(getattr(cur_grid, desc["dim"])) and sel_pos != list(range(len(sel_pos)))):
            # a REORDERING (`[::-1]`, a permutation) keeps the length, so the counts still match — but the data are reordered
            # while the grid is the same object: element i of the array is no longer element i of the grid
            grid_sel = (f"the data are reordered to source elements {sel_pos[:12]} but the result keeps the same, un-reordered "
                        "grid object")
            clauses.append("grid_is_the_selection")
        if m == "copy" and desc["how"] in DEEP and post["grid"] >= 0 and cur_grid is not None:
            # "an equal … grid": the library's own Grid.__eq__ on (copy's grid, original grid)
            try:
                eq = bool(r.uxgrid == cur_grid)
            except Exception:
                eq = False
            ctx.hit("deepcopy-grid-eq:" + str(eq))
            if not eq:
                clauses.append("deep_copy_grid_equal")
        if bad_values and "shape_as_xarray" not in clauses:
            clauses.append("values_as_xarray")
        if clauses and judge:
            c0 = clauses[0]
            if c0 == "is_uxdataarray":
                sig = f"C10/op={name}/path={detail}/result=DataArray"
                what = f"{name} returns a plain xarray.DataArray (built by xarray's {detail}): the grid is lost"
            elif c0 == "grid_attached":
                sig = f"C10/op={name}/path={detail}/result=UxDataArray-without-grid"
                what = f"{name} returns a UxDataArray whose uxgrid is None (constructed by {detail})"
            elif c0 == "dims_match_grid":
                gd = [dd for dd, _ in post["dims"] if dd in GRID_DIMS]
                if m in ("ux_isel", "ux_subset"):
                    sig = f"C10/op={name}/dims-differ-from-subgrid"
                    what = (f"{name} on a grid dimension of an array with dims {pre_dims}: the result has dims {post['dims']} but "
                            f"is attached to a sub-grid with counts {post['heap'][post['grid']][0]}")
                elif is_ux and m != "get_dual":
                    kw = (f"/how={desc['how']}/remap_to={desc['to']}" if m == "remap" else
                          f"/agg={desc['f']}/destination={desc['dest']}" if m == "topo" else "")
                    sig = f"C10/op={name}{kw}/dims-differ-from-attached-grid"
                    bad = [(dd, n) for dd, n in post["dims"] if dd in GRID_DIMS and n != post["heap"][post["grid"]][0][GRID_DIMS[dd]]]
                    what = (f"{name}{kw.replace('/', ' ')} returns dims {post['dims']} attached to a grid with (n_node, n_edge, n_face) = "
                            f"{post['heap'][post['grid']][0]}: dimension(s) {bad} do not have the attached grid's count for the element "
                            "kind they are NAMED after")
                elif m == "get_dual":
                    gd_ = [dd for dd, _ in pre_dims if dd in GRID_DIMS]
                    sig = (f"C10/op=get_dual/centre={gd_[0] if gd_ else '?'}/nodes-with-fewer-than-3-faces/"
                           "dims-differ-from-dual-grid")
                    what = ("get_dual of a mesh with nodes that have fewer than 3 faces (every partial mesh): the data keep their "
                            f"length but the dual grid has another element count: dims {post['dims']} vs dual counts "
                            f"{post['heap'][post['grid']][0]}")
                elif m == "index" and desc["dim"] in GRID_DIMS:
                    # `[]`, isel(indexers=…), isel({…}) reach UxDataArray.isel; head/tail/thin/sel/loc run inside xarray on a
                    # temporary plain Dataset and come back through `_from_temp_dataset` → `_replace` (indexer no longer known)
                    via_ = "isel" if desc["how"] in ("getitem", "getitem_dict", "isel_indexers", "isel_dict", "isel_kw") else "temp-dataset"
                    how_ = f"/via={via_}" if desc["dim"] == "n_face" else ""
                    sig = f"C10/op=index-grid-dim/dim={desc['dim']}{how_}/path={path}/stale-grid"
                    what = (f"indexing {desc['dim']} through xarray's own entry point `{desc['how']}` changes its length but the result "
                            f"keeps the un-sliced grid: dims {post['dims']} vs grid counts {post['heap'][post['grid']][0]}")
                else:
                    sig = f"C10/op={name}/path={path}/stale-grid"
                    what = (f"{name} ({desc.get('how')}) changes the length of {gd} but the result keeps the un-sliced grid: "
                            f"dims {post['dims']} vs grid counts {post['heap'][post['grid']][0]}")
            elif c0 == "same_grid":
                sig = f"C10/op={name}/path={path}/other-grid"
                what = f"{name} returns an array attached to a different grid object"
            elif c0 == "deep_copy_equal_independent":
                if post["grid"] == state["grid"] or post["grid"] < len(state["heap"]):
                    sig = f"C10/op=deepcopy/api={desc['how']}/same-grid-object"
                    what = (f"the deep copy {desc['how']} (deep per UxdaAlgebra.CopyApi.deep) is attached to a grid OBJECT that "
                            "existed before the copy instead of an equal, independent one")
                elif post["heap"][post["grid"]][0] != state["heap"][state["grid"]][0]:
                    sig = f"C10/op=deepcopy/api={desc['how']}/grid-counts-differ"
                    what = f"the deep copy {desc['how']}: its grid has other element counts than the original"
                else:
                    sig = "C10/op=deepcopy/grid-shares-store"
                    what = ("a deep copy's grid is a new Grid object that shares its backing arrays (Grid._ds) with the "
                            "original (Grid.copy passes self._ds on; repaired by fixes/C19-copy-shares-dataset.patch)")
            elif c0 == "deep_copy_grid_equal":
                sig = "C10/op=deepcopy/grid-not-equal"
                what = "a deep copy's grid does not compare equal (Grid.__eq__) to the original grid"
            elif c0 == "remap_destination_grid":
                sig = f"C10/op=remap/path={path}/not-the-destination-grid"
                what = "remap returns an array that is not attached to the destination grid"
            elif c0 == "shape_as_xarray":
                sig = f"C10/op={name}/shape-differs-from-xarray"
                what = f"{name}: result dims {post['dims']} but plain xarray gives {post_dims}"
            elif c0 == "grid_is_the_selection" and m == "index" and not grid_aware:
                via_ = "isel" if desc["how"] in ("getitem", "getitem_dict", "isel_indexers", "isel_dict", "isel_kw") else "temp-dataset"
                how_ = f"/via={via_}" if desc["dim"] == "n_face" else ""
                sig = f"C10/op=index-grid-dim/dim={desc['dim']}{how_}/path={path}/stale-grid"
                what = f"indexing {desc['dim']} through `{desc['how']}` ({desc.get('form') or 'slice/list'}): {grid_sel}"
            elif c0 == "grid_is_the_selection":
                sig = f"C10/op={name}/dim={desc['dim']}/form={desc.get('form') or 'list'}/grid-is-not-the-selection"
                what = f"{name} ({desc.get('how') or 'isel keyword'}, indexer form {desc.get('form') or 'list'}): {grid_sel}"
            elif c0 == "grid_isel_by_name":
                sig = f"C10/op={name}/not-by-name/dims-order-or-length"
                what = (f"{name} on a grid dimension: result dims {post['dims']} are not the input dims {pre_dims} with the grid "
                        "dimension's length replaced by the sub-grid's count")
            elif is_ux:
                sig = f"C10/op={name}" + (f"/form={desc['form']}" if desc.get("form") else "") + "/values-differ-from-isel-by-name" + (
                    "/on-sub-grid" if state["grid"] >= 0 and world.derived[state["grid"]] else "")
                what = (f"{name} on dims {pre_dims}: {bad_values} differ from indexing the grid dimension BY NAME "
                        "(plain xarray isel on the same data / the same selection on the transposed array)")
            else:
                sig = f"C10/op={name}/values-differ-from-xarray"
                what = f"{name}: {bad_values} differ from what plain xarray computes on the same data"
            if not agree:
                # a recorded finding is one the model of the code AS IT STANDS reproduces; anything else is new
                sig += "/not-what-the-model-predicts"
                what += f" [model predicted {canon_state(model_state) if model_state else model}]"
            out["failures"].append(dict(signature=sig, what=what, input=here,
                                        impl=dict(state=canon_state(post), path=path, via=detail, type=type(r).__name__),
                                        model=dict(state=canon_state(model_state) if model_state else None, op=mo,
                                                   xarray_dims=post_dims, model_agrees=agree),
                                        clauses=clauses, pre=(u, state, cur_grid)))
        elif not agree and judge:
            out["mismatches"].append(("C10/model-vs-impl/" + name, here, canon_state(post),
                                      canon_state(model_state) if model_state else model))
        if judge and t_next is not None and model_state is not None and not is_ux:
            # the model's shape must be plain xarray's
            if [list(x) for x in canon_state(model_state)["dims"]] != [[dim_code(a), b] for a, b in post_dims]:
                out["mismatches"].append(("C10/model-shape-vs-xarray/" + name, here, post_dims, canon_state(model_state)))
        # ---- continue: from the result if it satisfies the invariant, else from a repaired / the previous state
        done.append(desc)
        if not clauses or clauses == ["deep_copy_equal_independent"]:
            u, state = r, post
            t = t_next if t_next is not None else plain_of(xr, r)
        elif t_next is not None and cur_grid is not None and all(
                (dd not in GRID_DIMS) or n == counts_of(cur_grid)[GRID_DIMS[dd]] for dd, n in post_dims):
            # re-attach by hand (what the property asks the library to do) and carry on
            u = ux.UxDataArray(t_next.variable, coords={kk: (v.dims, v.values) for kk, v in t_next.coords.items()},
                               name=t_next.name, uxgrid=cur_grid)
            t = t_next
            state = dict(heap=world.heap(), isUx=True, grid=state["grid"], dims=post_dims)
            done.append(dict(m="_reattach"))
        else:
            done.pop()
            done.append(dict(m="_skip", skipped=desc))
            state = dict(state, heap=world.heap())
    return done


def strip(inp):
    return {k: v for k, v in inp.items() if not k.startswith("_")}


def clean_program(p):
    """programs as stored in replays: the bookkeeping markers are dropped (a `_skip` marks an operation
    whose result was not carried on; `_reattach` marks a manual re-wrap — both are re-derived on replay)"""
    return [x for x in p if not x.get("m", "").startswith("_")]


# ----------------------------------------------------------------------------------------------
# generators
# ----------------------------------------------------------------------------------------------

DTYPES = ["float64", "float64", "float32", "int64", "int32", "bool"]


def gen_start(rng, world_counts, gid, centre=None, nlead=None, dtype=None, gcoord=None, lead=None):
    centre = centre or rng.choice(["n_face", "n_node", "n_edge"])
    nlead = rng.choice([0, 1, 1, 2]) if nlead is None else nlead
    lead = [[OTHER[i], rng.randint(2, 4)] for i in range(nlead)] if lead is None else [list(x) for x in lead]
    n = world_counts[gid][GRID_DIMS[centre]]
    size = n
    for _, l in lead:
        size *= l
    dtype = dtype or rng.choice(DTYPES)
    if dtype.startswith("float"):
        pool = [-2.5, -1.0, 0.0, 0.5, 1.25, 3.0, 7.75, None]
        data = [rng.choice(pool) if rng.random() < 0.9 else rng.uniform(-5, 5) for _ in range(size)]
        if dtype == "float32":
            data = [None if v is None else float(np.float32(v)) for v in data]
    elif dtype == "bool":
        data = [rng.random() < 0.6 for _ in range(size)]
    else:
        data = [rng.randint(-3, 5) for _ in range(size)]
    coords = {}
    for dname, l in lead:
        r = rng.random()
        if r < 0.5:
            coords[dname] = (dname, [10 * (i + 1) for i in range(l)])
        elif r < 0.7:
            coords[dname] = (dname, [0.5 * i for i in range(l)])
        elif r < 0.8:
            coords[dname + "_lab"] = (dname, list(range(l)))
    if rng.random() < 0.2:
        coords["height"] = ("", 2.0)
    if gcoord if gcoord is not None else rng.random() < 0.15:
        coords["elem_id"] = (centre, list(range(n)))
    return dict(grid=gid, centre=centre, lead=lead, dtype=dtype, data=data, coords=coords,
                name=rng.choice(["v", "psi", None]), attrs={})


def gen_index(rng, n):
    """an index key for a dimension of length n: int, slice, list"""
    r = rng.random()
    if r < 0.3:
        return rng.randrange(n)
    if r < 0.7:
        a = rng.randrange(n)
        b = rng.randint(a + 1, n)
        return dict(a=a, b=b, s=rng.choice([None, None, 2]))
    k = rng.randint(1, n)
    return sorted(rng.sample(range(n), k)) if rng.random() < 0.7 else [rng.randrange(n) for _ in range(k)]


def gen_form(rng, n, t=None, dim=None, allow_empty=True):
    """(idx, extra) — a selection along a dimension of length n together with the FORM it is written in: integer list (Python /
    int64 / int32, negative entries, duplicates, a full-length permutation), slice (any step, negative step, negative bounds),
    boolean mask (NumPy / list of bools / boolean DataArray on the same dim / the comparison `array > c` itself), empty"""
    r = rng.random()
    if r < 0.22:        # slices
        kind = rng.random()
        if kind < 0.3:
            return dict(a=None, b=None, s=rng.choice([-1, -2, 2, 3])), {}
        if kind < 0.6:
            a = rng.randrange(n)
            return dict(a=a, b=rng.randint(a + 1, n), s=rng.choice([None, 1, 2])), {}
        if kind < 0.8:
            return dict(a=-rng.randint(1, n), b=None, s=None), {}
        b = rng.randrange(n)
        return dict(a=rng.randint(b, n - 1), b=(b - 1 if b > 0 else None), s=-rng.choice([1, 2])), {}
    if r < 0.50:        # masks: sorted, duplicate-free positions
        k = rng.randint(1, n)
        idx = sorted(rng.sample(range(n), k))
        if rng.random() < 0.3 and n >= 2:
            idx = list(range(n // 2, n))         # the shape of the C10f witness: a run of False then a run of True
        return idx, dict(form=rng.choice(FORMS_MASK))
    if r < 0.58 and t is not None and t.ndim == 1 and t.dtype.kind in "fiu":
        vals = np.asarray(t.values, dtype=float)
        vals = vals[~np.isnan(vals)]
        if vals.size and vals.min() < vals.max():
            c = float(np.sort(np.unique(vals))[max(0, len(np.unique(vals)) // 2 - 1)])
            return [0], dict(form="cmp", c=c)
    if r < 0.62 and allow_empty:
        return [0], dict(form=rng.choice(["empty", "empty_slice"]))
    if r < 0.72:        # a full-length permutation
        perm = list(range(n))
        rng.shuffle(perm)
        return perm, dict(form=rng.choice(FORMS_LIST))
    k = rng.randint(1, min(n, 6))
    idx = [rng.randrange(n) for _ in range(k)] if rng.random() < 0.4 else rng.sample(range(n), k)   # duplicates / unsorted
    return idx, dict(form=rng.choice(FORMS_LIST))


def candidates(rng, t, state, world_counts, closed, derived, heap_n):
    """operation descriptors applicable to the twin `t` (shape-wise); weights by repetition"""
    dims = [str(x) for x in t.dims]
    sizes = dict(zip(dims, t.shape))
    if any(n == 0 for n in t.shape):
        return []        # an empty array: nothing left to operate on (the program ends here)
    other = [x for x in dims if x not in GRID_DIMS]
    gdims = [x for x in dims if x in GRID_DIMS]
    free = [x for x in OTHER[:9] if x not in dims and x not in t.coords]
    kind = t.dtype.kind
    out = []
    out += [dict(m="arith", f=f) for f in ARITH]
    out += [dict(m="ufunc", f=f) for f in UFUNC]
    out += [dict(m="where", c=rng.choice([0, 1, -1]), other=rng.choice([None, None, 0]))] * 3
    out += [dict(m="clip", lo=rng.choice([-1, 0]), hi=rng.choice([1, 2, 3]))] * 2
    out += [dict(m="fillna", v=rng.choice([0, -1]))] * 2
    out += [dict(m="astype", dt=rng.choice(["float32", "float64", "int64", "int32", "bool"]))] * 3
    out += [dict(m="assign_attrs")]
    for x in dims:
        if free:
            out.append(dict(m="assign_coords", dim=x, name=(x if x not in t.coords and rng.random() < 0.5 else free[0] + "_c"),
                            scale=rng.choice([1, 2])))
    for c in list(t.coords):
        if rng.random() < 0.3:
            out.append(dict(m="drop_vars", name=str(c)))
    for x in other:
        n = sizes[x]
        out += [dict(m="cum", f=f, dim=x) for f in ("cumsum", "cumprod", "shift", "roll")]
        if n >= 2:
            out += [dict(m="rolling", f=rng.choice(["mean", "sum", "max", "min"]), dim=x, w=2, center=rng.random() < 0.3,
                         minp=rng.choice([None, 1]))] * 3
        out.append(dict(m="cumulative", f=rng.choice(["sum", "max"]), dim=x))
        hows = ["isel_kw", "isel_indexers", "isel_dict", "getitem", "getitem_dict", "head", "tail", "thin"]
        for _ in range(3):
            how = rng.choice(hows)
            if how in FORM_HOWS and rng.random() < 0.4:
                idx, ex = gen_form(rng, n, None, x)
                out.append(dict(m="index", how=how, dim=x, idx=idx, **ex))
                continue
            idx = gen_index(rng, n) if how not in ("head", "tail", "thin") else rng.randint(1, n)
            out.append(dict(m="index", how=how, dim=x, idx=idx))
        if x in t.indexes:
            labs = [v.item() for v in t[x].values]
            out.append(dict(m="index", how=rng.choice(["sel", "loc"]), dim=x,
                            idx=rng.choice(labs) if rng.random() < 0.5 else sorted(rng.sample(labs, rng.randint(1, len(labs))))))
        out.append(dict(m="concat", how="along", dim=x, partial=rng.random() < 0.5))
        if free:
            out.append(dict(m="rename", how="dim", old=x, new=free[-1]))
    for x in gdims:
        n = sizes[x]
        hows = ["isel_indexers", "isel_dict", "getitem", "getitem_dict", "head", "tail", "thin"]
        for _ in range(4):
            how = rng.choice(hows)
            if how in ("head", "tail", "thin"):
                out.append(dict(m="index", how=how, dim=x, idx=rng.randint(1, n)))
            elif rng.random() < 0.15:
                out.append(dict(m="index", how=how, dim=x, idx=rng.randrange(n)))           # a scalar: the dim disappears
            else:
                idx, ex = gen_form(rng, n, t, x)
                if ex.get("form") == "cmp" and how not in ("getitem", "isel_indexers", "isel_dict"):
                    ex = {}
                out.append(dict(m="index", how=how, dim=x, idx=idx, **ex))
        if x in t.indexes:
            labs = [v.item() for v in t[x].values]
            out.append(dict(m="index", how="sel", dim=x, idx=sorted(rng.sample(labs, rng.randint(1, len(labs))))))
    reds = ["sum", "mean", "max", "min", "std", "prod", "count", "any", "all", "argmax", "median", "var"]
    for x in dims:
        out.append(dict(m="reduce", f=rng.choice(reds), dims=[x]))
    if len(dims) >= 2:
        out.append(dict(m="reduce", f=rng.choice(reds[:9]), dims=rng.sample(dims, 2)))
    out.append(dict(m="reduce", f=rng.choice(reds[:9]), dims=None))
    if len(dims) >= 2:
        perm = dims[:]
        rng.shuffle(perm)
        out += [dict(m="transpose", how="T"), dict(m="transpose", how="noargs"), dict(m="transpose", how="names", order=perm),
                dict(m="transpose", how="ellipsis", order=perm)]
    out.append(dict(m="rename", how="name", new=rng.choice(["w", "q"])))
    if free:
        out.append(dict(m="concat", how="new", dim=free[0], n=rng.choice([2, 3])))
    if free:
        out += [dict(m="expand_dims", dim=free[0], last=True), dict(m="expand_dims", dim=free[0], last=rng.random() < 0.5)]
    out += [dict(m="copy", how=h) for h in COPY_APIS]
    # ---- uxarray's own operations (only where the model says they are defined: one grid dimension, last)
    if state["isUx"] and state["grid"] >= 0 and len(gdims) == 1 and min(world_counts[state["grid"]]) < 1:
        ZERO_COUNT_GRIDS.append(tuple(world_counts[state["grid"]]))   # e.g. the dual of a mesh without interior nodes
    elif state["isUx"] and state["grid"] >= 0 and len(gdims) == 1:
        g = state["grid"]
        cnt = world_counts[g]
        gcoord = any(set(map(str, v.dims)) & set(GRID_DIMS) for v in t.coords.values())
        if not gcoord:
            # indexing a grid dimension is BY NAME: generated for every layout (element dimension last or not).  When
            # it is not last, element indices both below and above the length of the last axis are wanted (a
            # positional implementation raises on the latter and silently slices the wrong axis on the former).
            last_len = sizes[dims[-1]]
            reps = 3 if dims[-1] == gdims[0] else 6
            if derived[g]:
                reps += 6    # chained selections: a selection applied to the result of a selection
            for _ in range(reps):
                dim = rng.choice(["n_face", "n_face", "n_node", "n_edge"])
                n = cnt[GRID_DIMS[dim]]
                if n < 1:
                    ZERO_COUNT_GRIDS.append(tuple(cnt))   # a grid without elements of some kind: nothing to select
                    continue
                r0 = rng.random()
                if r0 < 0.45:
                    idx_, ex_ = gen_form(rng, n, t if dim == gdims[0] else None, dim)
                    out.append(dict(m="ux_isel", dim=dim, idx=idx_, **ex_))
                    continue
                if r0 < 0.55:
                    idx, arr = rng.randrange(n), False
                elif r0 < 0.5 and dims[-1] != gdims[0]:
                    lim = max(1, min(n, last_len))
                    idx = sorted(rng.sample(range(lim), rng.randint(1, min(lim, 3))))
                    arr = rng.random() < 0.5
                else:
                    idx = sorted(rng.sample(range(n), rng.randint(1, min(n, 6))))
                    arr = rng.random() < 0.5
                out.append(dict(m="ux_isel", dim=dim, idx=idx, as_array=arr))
            if not derived[g]:
                out.append(dict(m="ux_subset", how=rng.choice(["circle", "box", "const_lat"]),
                                element=rng.choice(list(ELEMENT_DIM))))
            if True:
                out.append(dict(m="ux_subset", center=[rng.choice([-20.0, 0.0, 35.0, 150.0]), rng.choice([-30.0, 0.0, 25.0, 60.0])],
                                k=rng.randint(1, min(4, cnt[2])), element=rng.choice(["nodes", "face centers", "edge centers"])))
        if dims[-1] == gdims[0] and not derived[g]:
            c = dims[-1] if kind in "fiu" else "-"   # the numeric operators are not defined on bool / object data
            if c == "n_face":
                out += [dict(m="integrate"), dict(m="gradient", normalize=rng.random() < 0.3), dict(m="difference")] * 2
            if c == "n_node":
                out += [dict(m="difference"),
                        dict(m="topo", f=rng.choice(AGG_NAMES), dest=rng.choice(["face", "edge"])),
                        dict(m="topo", f=rng.choice(AGG_NAMES), dest=rng.choice(["face", "edge"]))]
            if not gcoord:
                for _ in range(2):
                    g2 = rng.randrange(heap_n)
                    out.append(dict(m="remap", how=rng.choice(["nn", "nn", "idw"]) if kind in "fiu" else "nn", grid=g2,
                                    to=rng.choice(list(REMAP_TO)), k=2, coord=rng.choice(["spherical", "cartesian"])))
            out += [dict(m="get_dual")] * 2
    return out


# ----------------------------------------------------------------------------------------------
# the check
# ----------------------------------------------------------------------------------------------


def choose_meshes(rng):
    closed = rng.choice([meshes.cube_sphere(2), meshes.prism(rng.choice([5, 6, 7])), meshes.icosa(),
                         meshes.antiprism(rng.choice([4, 5]))])
    part = meshes.patch(rng.choice([2, 3]), rng.choice([2, 3]), lon0=rng.choice([-30, 150, -5]), lat0=rng.choice([-20, 40]))
    if rng.random() < 0.5:
        part = part.split_some(rng)
    mixed = meshes.hull(rng.choice([10, 12, 14]), rng).merge_some(rng)
    ms = [closed, part, mixed]
    # distinct element counts within every grid: a dimension named for one kind of element but carrying another kind's
    # count can then never pass for consistent (and "which centring" stays unambiguous for size-dispatching code)
    for _ in range(20):
        bad = [i for i, m in enumerate(ms) if len(set(mesh_counts(m))) < 3]
        if not bad:
            break
        for i in bad:
            ms[i] = (meshes.prism(rng.choice([5, 6, 7, 8])) if i == 0 else
                     meshes.patch(rng.choice([2, 3, 4]), rng.choice([2, 3]), lon0=rng.choice([-30, 150, -5]), lat0=rng.choice([-20, 40]))
                     if i == 1 else meshes.hull(rng.choice([10, 12, 14, 16]), rng).merge_some(rng))
    return ms


def mesh_counts(m):
    edges = set()
    for f in m.faces:
        for a, b in zip(f, f[1:] + f[:1]):
            edges.add((min(a, b), max(a, b)))
    return (m.n_node, len(edges), m.n_face)


# ----------------------------------------------------------------------------------------------
# constructor sites: a mechanical enumeration of the code, compared with the table below on every run
# ----------------------------------------------------------------------------------------------

SITE_DIRS = ["core", "remap", "subset", "cross_sections"]
SITE_CALLS = {"UxDataArray", "UxDataset", "_slice_from_grid", "_uxda_grid_aggregate", "_construct_direct", "cls"}

_DS = "UxDataset cannot be constructed under the installed xarray (Dataset(Dataset) is rejected): not exercisable here"
# site -> the harness operations that go through it (each is generated with every value of its kind-selecting keywords
# by `constructors()`), or the reason it cannot be exercised.  `call` names the entry of the Lean table UxdaAlgebra.UxCall.
SITES = {
    "core/dataarray.py:UxDataArray._construct_direct": dict(skip="override point; no xarray 2026.7 code path calls it on a DataArray subclass (wrapped by the tracer, path `classCtor`)"),
    "core/dataarray.py:UxDataArray._replace": dict(ops=["every xarray operation of path `replace` / `copy`"], seen="_replace"),
    "core/dataarray.py:UxDataArray.to_dataset": dict(skip=_DS + " (probed once per run, see `to_dataset_probe`)"),
    "core/dataarray.py:UxDataArray.integrate": dict(ops=["integrate"], call="integrate", seen="integrate"),
    "core/dataarray.py:UxDataArray.gradient": dict(ops=["gradient"], call="gradient", seen="gradient"),
    "core/dataarray.py:UxDataArray.difference": dict(ops=["difference"], call="difference", seen="difference"),
    "core/dataarray.py:UxDataArray.isel": dict(ops=["ux_isel"], call="isel", seen="_slice_from_grid"),
    "core/dataarray.py:UxDataArray._slice_from_grid": dict(ops=["ux_isel", "ux_subset"], call="isel", seen="_slice_from_grid"),
    "core/dataarray.py:UxDataArray.get_dual": dict(ops=["get_dual"], call="get_dual", seen="get_dual"),
    "core/aggregation.py:_node_to_face_aggregation": dict(ops=["topo dest=face"], call="topological_*", seen="_node_to_face_aggregation"),
    "core/aggregation.py:_node_to_edge_aggregation": dict(ops=["topo dest=edge"], call="topological_*", seen="_node_to_edge_aggregation"),
    "remap/nearest_neighbor.py:_nearest_neighbor_uxda": dict(ops=["remap nn"], call="remap.nearest_neighbor", seen="_nearest_neighbor_uxda"),
    "remap/inverse_distance_weighted.py:_inverse_distance_weighted_remap_uxda": dict(ops=["remap idw"], call="remap.inverse_distance_weighted", seen="_inverse_distance_weighted_remap_uxda"),
    "subset/dataarray_accessor.py:DataArraySubsetAccessor.nearest_neighbor": dict(ops=["ux_subset nn"], call="subset.nearest_neighbor", seen="_slice_from_grid"),
    "subset/dataarray_accessor.py:DataArraySubsetAccessor.bounding_circle": dict(ops=["ux_subset circle"], call="subset.bounding_circle", seen="_slice_from_grid"),
    "subset/dataarray_accessor.py:DataArraySubsetAccessor.bounding_box": dict(ops=["ux_subset box"], call="subset.bounding_box", seen="_slice_from_grid"),
    "cross_sections/dataarray_accessor.py:UxDataArrayCrossSectionAccessor.constant_latitude": dict(ops=["ux_subset const_lat"], call="cross_section.constant_latitude", seen="_slice_from_grid"),
    "cross_sections/grid_accessor.py:GridCrossSectionAccessor.constant_latitude": dict(skip="Grid.isel: returns a Grid, not a UxDataArray"),
    "subset/grid_accessor.py:GridSubsetAccessor._index_grid": dict(skip="Grid.isel: returns a Grid, not a UxDataArray"),
    "subset/grid_accessor.py:GridSubsetAccessor.bounding_box": dict(skip="Grid.isel: returns a Grid, not a UxDataArray"),
    "core/api.py:open_dataset": dict(skip=_DS),
    "core/api.py:open_mfdataset": dict(skip=_DS),
    "core/dataset.py:UxDataset.__getitem__": dict(skip=_DS),
    "core/dataset.py:UxDataset._calculate_binary_op": dict(skip=_DS),
    "core/dataset.py:UxDataset._construct_dataarray": dict(skip=_DS),
    "core/dataset.py:UxDataset._construct_direct": dict(skip=_DS),
    "core/dataset.py:UxDataset._replace": dict(skip=_DS),
    "core/dataset.py:UxDataset.from_dataframe": dict(skip=_DS),
    "core/dataset.py:UxDataset.from_dict": dict(skip=_DS),
    "core/dataset.py:UxDataset.to_array": dict(skip=_DS),
    "core/dataset.py:UxDataset.get_dual": dict(skip=_DS),
    "remap/nearest_neighbor.py:_nearest_neighbor_uxds": dict(skip=_DS),
    "remap/inverse_distance_weighted.py:_inverse_distance_weighted_remap_uxds": dict(skip=_DS),
}
for _agg in AGG_NAMES:
    SITES[f"core/dataarray.py:UxDataArray.topological_{_agg}"] = dict(ops=[f"topo f={_agg}"], call="topological_*",
                                                                      seen="_node_to_face_aggregation")


def enumerate_sites(root):
    """every function of uxarray/{core,remap,subset,cross_sections} whose body constructs a UxDataArray / UxDataset, calls
    `_slice_from_grid` / `_uxda_grid_aggregate` / `_construct_direct`, instantiates `cls(...)` inside one of the two classes,
    or calls `.isel(n_node=|n_edge=|n_face=)` — found with `ast` in the tree under test"""
    import ast

    def cname(f):
        return f.id if isinstance(f, ast.Name) else f.attr if isinstance(f, ast.Attribute) else None

    found = {}
    for d in SITE_DIRS:
        base = root / "uxarray" / d
        if not base.is_dir():
            continue
        for path in sorted(base.rglob("*.py")):
            try:
                tree = ast.parse(path.read_text())
            except Exception:
                continue
            rel = str(path.relative_to(root / "uxarray"))

            def walk(node, stack):
                for ch in ast.iter_child_nodes(node):
                    if isinstance(ch, ast.ClassDef):
                        walk(ch, stack + [ch.name])
                    elif isinstance(ch, (ast.FunctionDef, ast.AsyncFunctionDef)):
                        hits = set()
                        for c in ast.walk(ch):
                            if isinstance(c, ast.Call):
                                nm = cname(c.func)
                                if nm in SITE_CALLS and (nm != "cls" or (stack and stack[0] in ("UxDataArray", "UxDataset"))):
                                    hits.add(nm)
                                if nm == "isel" and any(k.arg in GRID_DIMS for k in c.keywords):
                                    hits.add("isel(grid-dim)")
                        if hits:
                            found[f"{rel}:{'.'.join(stack + [ch.name])}"] = sorted(hits)
                        walk(ch, stack + [ch.name])

            walk(tree, [])
    return found


def check_sites(env, out):
    ctx = env.ctx
    found = enumerate_sites(common.REPO)
    unlisted = sorted(k for k in found if k not in SITES)
    gone = sorted(k for k in SITES if k not in found)
    names = ctx.driver.ask("C10.uxcalls").split()
    bad_calls = sorted({v["call"] for v in SITES.values() if v.get("call") and v["call"] not in names})
    ctx.extra["constructor_sites_found"] = found
    ctx.extra["constructor_sites_table"] = {k: (v.get("ops") or ("not exercised: " + v["skip"])) for k, v in SITES.items()}
    ctx.extra["lean_uxcall_table"] = names
    for k in unlisted:
        # a constructor site the model does not know: the correspondence is broken until it is listed (and exercised)
        out["mismatches"].append(("C10/unlisted-constructor-site", dict(site=k, constructs=found[k]),
                                  "found in the source of the tree under test", "not in harness/c10.py SITES / UxdaAlgebra.UxCall"))
    for c in bad_calls:
        out["mismatches"].append(("C10/site-table-names-unknown-lean-call", dict(call=c), None, names))
    if gone:
        ctx.notes.append(f"constructor sites of the table no longer found in the source (renamed / removed): {gone}")
    return found


def sites_exercised(env):
    """which listed sites built at least one result during this run (from the tracer's constructor callers)"""
    ctx = env.ctx
    never = sorted(k for k, v in SITES.items() if v.get("seen") and v["seen"] not in env.tr.callers)
    ctx.extra["constructor_callers_seen"] = sorted(env.tr.callers)
    if never:
        ctx.notes.append(f"listed constructor sites that built no result in this run: {never}")
        ctx.hit("constructor-site-not-exercised", len(never))


def to_dataset_probe(env, u):
    ctx = env.ctx
    try:
        ds = u.to_dataset(name="v")
    except Exception as e:
        ctx.extra["to_dataset_probe"] = f"unusable: {type(e).__name__}: {str(e)[:120]}"
        return
    ok = type(ds).__name__ == "UxDataset" and getattr(ds, "uxgrid", None) is u.uxgrid
    ctx.extra["to_dataset_probe"] = "UxDataset on the same grid" if ok else f"{type(ds).__name__}, same grid: {getattr(ds, 'uxgrid', None) is u.uxgrid}"
    if not ok:
        ctx.fail("C10/op=to_dataset/result", "to_dataset() does not return a UxDataset attached to the same grid",
                 dict(probe="to_dataset"), dict(type=type(ds).__name__), None, ["is_uxdataarray"])


def constructors(env, rng, base, wc):
    """EVERY public call that returns a UxDataArray, with every value of its kind-selecting keyword arguments, from every
    source kind it accepts, on a destination grid different from the source — each followed (in `run`) by a random program
    of xarray operations, so that an inconsistent attachment is also seen to be carried along"""
    progs = []
    for gid in (0, 1):
        others = [g for g in (0, 1, 2) if g != gid]
        for centre in ("n_face", "n_node", "n_edge"):
            for lead in ([], [["t", 2]]):
                sp = gen_start(rng, wc, gid, centre=centre, dtype=rng.choice(["float64", "float32", "int64"]), gcoord=False,
                               lead=lead)
                sp["coords"] = {"t": ("t", [10, 20])} if lead and rng.random() < 0.5 else {}
                ops = []
                i = 0
                for how in ("nn", "idw"):
                    for to in REMAP_TO:
                        for coord in ("spherical", "cartesian"):
                            ops.append(dict(m="remap", how=how, to=to, coord=coord, grid=others[i % 2], k=2))
                            i += 1
                if centre == "n_node":
                    ops += [dict(m="topo", f=f, dest=dst) for f in AGG_NAMES for dst in ("face", "edge")]
                    ops += [dict(m="difference")]
                if centre == "n_face":
                    ops += [dict(m="gradient", normalize=False), dict(m="gradient", normalize=True), dict(m="difference"),
                            dict(m="integrate")]
                for dim in GRID_DIMS:
                    n = wc[gid][GRID_DIMS[dim]]
                    ops.append(dict(m="ux_isel", dim=dim, idx=[n - 1, 1]))
                for el in ELEMENT_DIM:
                    ops += [dict(m="ux_subset", how="nn", center=[10.0, 5.0], k=2, element=el),
                            dict(m="ux_subset", how="circle", element=el), dict(m="ux_subset", how="box", element=el)]
                ops += [dict(m="ux_subset", how="const_lat"), dict(m="get_dual")]
                for op in ops:
                    progs.append(dict(base, start=sp, program=[op]))
    return progs



def flush(ctx, out):
    for f in out["failures"]:
        f = dict(f)
        f.pop("pre", None)
        inp = dict(f["input"])
        inp["program"] = clean_program(inp["program"])
        ctx.fail(f["signature"], f["what"], strip(inp), f["impl"], f["model"], f["clauses"])
    for rel, inp, impl, model in out["mismatches"]:
        inp = dict(inp)
        if "program" in inp:
            inp["program"] = clean_program(inp["program"])
        ctx.mismatch(rel, strip(inp), impl, model)
    out["failures"].clear()
    out["mismatches"].clear()


def minimise(env, out):
    """for each failure whose pre-state sits on a base grid, try the single failing step from a fresh array
    carrying the pre-state's data; keep it when it fails with the same signature"""
    extra = []
    seen = set()
    for f in out["failures"]:
        pre = f.get("pre")
        if pre is None or f["signature"] in seen:
            continue
        u, state, g = pre
        prog = clean_program(f["input"]["program"])
        if len(prog) <= 1 or state["grid"] < 0 or state["grid"] >= len(f["input"]["grids"]):
            continue
        sp = start_from(u, state["grid"])
        if sp is None:
            continue
        cand = dict(grids=f["input"]["grids"], start=sp, program=[prog[-1]], warm=bool(f["input"].get("warm")))
        o2 = dict(failures=[], mismatches=[], skipped=[])
        try:
            run_program(env, cand, o2, tag="min")
        except Exception:
            continue
        for f2 in o2["failures"]:
            if f2["signature"] == f["signature"]:
                f2.pop("pre", None)
                extra.append(f2)
                seen.add(f["signature"])
                break
    out["failures"] += extra


def make_chooser(env, rng, nbase, xarray_only=False):
    xr = env.xr

    def chooser(t, state, world):
        wc = [c for c, _ in world.heap()]
        cands = candidates(rng, t, state, wc, world.closed, world.derived, nbase)
        if xarray_only:
            cands = [c for c in cands if c["m"] not in UX_OPS]
        rng.shuffle(cands)
        for desc in cands[:12]:
            if desc["m"] in UX_OPS:
                return desc
            try:
                r = apply_x(desc, t, xr)
                if isinstance(r, xr.DataArray) and r.size > 0:
                    return desc
            except Exception:
                continue
        return None

    return chooser


def directed(env, rng, base, wc, closed):
    """one single-step program per method variant and centring (coverage does not depend on luck)"""
    ux, xr = env.ux, env.xr
    progs = []
    world = World(ux, xr, base["_grids_cache"], closed)
    for centre in ("n_face", "n_node", "n_edge"):
        for gid in (0, 1):
            sp = gen_start(rng, wc, gid, centre=centre, nlead=1, dtype="float64", gcoord=False)
            sp["coords"] = {"t": ("t", [10 * (i + 1) for i in range(sp["lead"][0][1])])}
            u, t = make_start(ux, xr, world, sp)
            state = world.observe(u)
            seen = set()
            for rep in range(6):
                for desc in candidates(rng, t, state, wc, world.closed, world.derived, len(base["grids"])):
                    v = (desc["m"], desc.get("f"), desc.get("how"), (desc.get("dim") in GRID_DIMS) if "dim" in desc else None,
                         desc.get("dest"), desc.get("to"), isinstance(desc.get("idx"), int))
                    if v in seen:
                        continue
                    seen.add(v)
                    progs.append(dict(base, start=sp, program=[desc]))
        # the same with an index coordinate along the grid dimension (needed for `.sel` on a grid dimension)
        sp = gen_start(rng, wc, 0, centre=centre, nlead=1, dtype="int64", gcoord=False)
        n = wc[0][GRID_DIMS[centre]]
        sp["coords"] = {centre: (centre, list(range(100, 100 + n)))}
        progs.append(dict(base, start=sp, program=[dict(m="index", how="sel", dim=centre, idx=[100, 101])]))
        progs.append(dict(base, start=sp, program=[dict(m="index", how="sel", dim=centre, idx=100)]))
    return progs


def layouts(env, rng, base, wc):
    """grid-dimension isel / subset on arrays whose element dimension is NOT last (after transpose / expand_dims), with
    leading sizes both smaller and larger than the number of selected elements and than the selected indices"""
    progs = []
    for centre in ("n_face", "n_node", "n_edge"):
        for gid in (0, 1):
            big = max(wc[gid]) + 1
            for lead, with_coords in (([["t", 2]], False), ([["t", 2]], True), ([["t", big]], False),
                                      ([["t", 2], ["lev", 3]], False)):
                if gid == 1 and lead[0][1] == big:
                    continue
                sp = gen_start(rng, wc, gid, centre=centre, dtype=rng.choice(["float64", "int64"]), gcoord=False, lead=lead)
                sp["coords"] = {"t": ("t", [10 * (i + 1) for i in range(lead[0][1])])} if with_coords else {}
                names = [d for d, _ in lead]
                if len(lead) == 1:
                    movers = [[dict(m="transpose", how="T")], [dict(m="expand_dims", dim="aux", last=True)],
                              [dict(m="concat", how="new", dim="ens", n=2), dict(m="transpose", how="ellipsis", order=["ens"])]]
                else:
                    movers = [[dict(m="transpose", how="names", order=[names[0], centre, names[1]])],
                              [dict(m="transpose", how="names", order=[centre] + names)]]
                ops = []
                for dim in ("n_face", "n_node", "n_edge"):
                    n = wc[gid][GRID_DIMS[dim]]
                    for idx in ([0, 1], [0, 1, 2], 0, [n - 1], [1, n - 2]):
                        ops.append(dict(m="ux_isel", dim=dim, idx=idx, as_array=isinstance(idx, list) and rng.random() < 0.5))
                ops.append(dict(m="ux_subset", center=[0.0, 0.0], k=2, element="face centers"))
                ops.append(dict(m="ux_subset", center=[30.0, 10.0], k=1, element="nodes"))
                for mv in movers:
                    chosen = ops if (lead[0][1] != 2 or not with_coords) else ops[:5]
                    for op in chosen:
                        progs.append(dict(base, start=sp, program=mv + [op]))
    return progs


def selection_chains(env, rng, base, wc):
    """two or three grid-dimension selections in a row (isel on n_face / n_node / n_edge, subset), the first never a prefix
    [0..k], with nothing / xarray operations / copies / a transposition between them, for every centring"""
    progs = []
    between = [[], [dict(m="arith", f="add1")], [dict(m="copy", how="copy_default")], [dict(m="transpose", how="T")],
               [dict(m="arith", f="rmul2"), dict(m="copy", how="copy_shallow")]]
    for centre in ("n_face", "n_node", "n_edge"):
        for gid in (0, 1, 2):
            cnt = wc[gid]
            nf = cnt[2]
            firsts = [dict(m="ux_isel", dim="n_face", idx=[nf - 1, 1, nf - 2][: min(3, nf)]),
                      dict(m="ux_isel", dim="n_face", idx=sorted(rng.sample(range(1, nf), min(3, nf - 1)))),
                      dict(m="ux_isel", dim="n_node", idx=[cnt[0] - 1]),
                      dict(m="ux_isel", dim="n_edge", idx=[cnt[1] - 1, 2], as_array=True),
                      dict(m="ux_subset", center=[rng.choice([-20.0, 35.0, 150.0]), rng.choice([-30.0, 25.0])], k=3,
                           element="face centers")]
            seconds = [dict(m="ux_isel", dim="n_face", idx=[1], wrap=True), dict(m="ux_isel", dim="n_face", idx=[1, 0], wrap=True),
                       dict(m="ux_isel", dim="n_node", idx=[2], wrap=True),
                       dict(m="ux_isel", dim="n_edge", idx=[1, 0], as_array=True, wrap=True),
                       dict(m="ux_subset", center=[0.0, 0.0], k=1, element="nodes")]
            sp = gen_start(rng, wc, gid, centre=centre, dtype=rng.choice(["float64", "int64"]), gcoord=False,
                           lead=rng.choice([[], [["t", 2]], [["t", 3]]]))
            for a in firsts:
                for b in seconds:
                    mid = rng.choice(between)
                    if mid and mid[0].get("m") == "transpose" and not sp["lead"]:
                        mid = []
                    progs.append(dict(base, start=sp, program=[a] + mid + [b]))
            # three selections
            progs.append(dict(base, start=sp, program=[firsts[0], seconds[1], dict(m="ux_isel", dim="n_face", idx=[1], wrap=True)]))
            progs.append(dict(base, start=sp, program=[firsts[1], dict(m="arith", f="add1"), seconds[1],
                                                       dict(m="copy", how="copy_data"),
                                                       dict(m="ux_isel", dim="n_node", idx=[0], wrap=True)]))
    return progs


def indexer_forms(env, rng, base, wc):
    """every FORM of indexer of a grid dimension × every entry that takes positions (`[]`, `[{…}]`, isel(indexers=…),
    isel({…}), isel(n_*=…) — which is Grid.isel), on 1-D and 2-D arrays of every centring"""
    progs = []
    for centre in ("n_face", "n_node", "n_edge"):
        for gid in (0, 1):
            n = wc[gid][GRID_DIMS[centre]]
            for lead in ([], [["t", 2]]):
                sp = gen_start(rng, wc, gid, centre=centre, dtype=rng.choice(["float64", "int64"]), gcoord=False, lead=lead)
                sp["coords"] = {}
                data = [v for v in sp["data"][:n] if v is not None]
                half = list(range(n // 2, n))
                some = sorted(rng.sample(range(n), max(1, n // 3)))
                perm = list(range(n))
                rng.shuffle(perm)
                sels = [(some, dict(form=f)) for f in FORMS_LIST + FORMS_MASK]
                sels += [(half, dict(form=f)) for f in FORMS_MASK]
                sels += [([n - 1, 0, 0, 1], dict(form="list")), ([n - 1, 0, 0, 1], dict(form="np32")), (perm, dict(form="np64")),
                         (dict(a=None, b=None, s=-1), {}), (dict(a=1, b=n - 1, s=2), {}), (dict(a=-3, b=None, s=None), {}),
                         (dict(a=n - 1, b=0, s=-2), {}), ([0], dict(form="empty")), ([0], dict(form="empty_slice")),
                         (rng.randrange(n), {})]
                # every combination of None / int for start, stop and step ∈ {None, 1, 2, 3, -1, -2} (bounds None with a
                # step other than 1 — `::2`, `::3`, `::-1`, `::-2` — are selections too)
                for a_ in (None, 1, -2):
                    for b_ in (None, n - 1, -1):
                        for s_ in (None, 1, 2, 3, -1, -2):
                            if a_ is None and b_ is None and s_ in (None, 1):
                                continue                      # the full slice: not a selection
                            if gid == 1 and lead and s_ in (1, 3):
                                continue
                            sels.append((dict(a=a_, b=b_, s=s_), {}))
                if not lead and data and min(data) < max(data):
                    sels.append(([0], dict(form="cmp", c=float(sorted(set(data))[len(set(data)) // 2 - 1]))))
                for idx, ex in sels:
                    for how in ("getitem", "getitem_dict", "isel_indexers", "isel_dict"):
                        progs.append(dict(base, start=sp, program=[dict(m="index", how=how, dim=centre, idx=idx, **ex)]))
                    for dim in GRID_DIMS:
                        nd = wc[gid][GRID_DIMS[dim]]
                        if dim != centre and (ex.get("form") in ("cmp",) or (isinstance(idx, list) and idx and max(idx) >= nd)
                                              or (isinstance(idx, int) and idx >= nd)):
                            continue
                        if dim != centre and ex.get("form") in FORMS_MASK:
                            idx2 = [i for i in range(wc[gid][GRID_DIMS[dim]]) if i % 3 == 1]
                            progs.append(dict(base, start=sp, program=[dict(m="ux_isel", dim=dim, idx=idx2, **ex)]))
                            continue
                        progs.append(dict(base, start=sp, program=[dict(m="ux_isel", dim=dim, idx=idx, **ex)]))
    return progs


def copy_chains(env, rng, base, wc):
    """every way of copying, after 0, 1 and 2 other operations (incl. uxarray's own), for every centring"""
    progs = []
    prefixes = [[], [dict(m="arith", f="add1")], [dict(m="arith", f="add1"), dict(m="transpose", how="T")],
                [dict(m="index", how="isel_kw", dim="t", idx=0), dict(m="copy", how="copy_shallow")],
                [dict(m="ux_isel", dim="n_face", idx=[0, 1]), dict(m="arith", f="rmul2")]]
    for centre in ("n_face", "n_node", "n_edge"):
        for gid in (0, 1):
            sp = gen_start(rng, wc, gid, centre=centre, dtype=rng.choice(["float64", "int32", "bool"]), gcoord=False,
                           lead=[["t", 3]])
            for pre in prefixes:
                for api in COPY_APIS:
                    progs.append(dict(base, start=sp, program=pre + [dict(m="copy", how=api)]))
            # a copy of a copy
            progs.append(dict(base, start=sp, program=[dict(m="copy", how="copy_data"), dict(m="copy", how="copy_deep_data"),
                                                       dict(m="copy", how="deepcopy")]))
    return progs


def run(ctx):
    ctx.rule = ("3 grids per run (closed / partial / mixed, from harness/meshes) × start arrays (face-, node-, edge-centred, 0..2 leading "
                "dims, index / non-index / scalar / grid-dimension coordinates, float64/float32/int64/int32/bool, NaNs) × [one directed "
                "single-step program per method variant and centring] + random programs of depth ≤ 6 over ~70 method variants "
                "(xarray: arithmetic, NumPy ufuncs, where/clip/fillna/astype, 10 ways of indexing on grid and non-grid dims, "
                "reductions, cumulative, rolling, transpose, rename, assign_coords, concat, 5 ways of copying; uxarray: isel on "
                "n_node/n_edge/n_face, integrate, gradient, difference, topological_*, remap nn/idw onto any of the grids, get_dual); "
                "+ [constructors: EVERY public call returning a UxDataArray × every value of its kind-selecting keywords (remap nn/idw × "
                "remap_to × coord_type onto a DIFFERENT grid, 10 topological_* × destination, gradient, difference, integrate, isel × "
                "dim, subset nn/circle/box × element, cross_section.constant_latitude, get_dual) from every source kind, each followed "
                "by a random program of xarray ops]; all grids have n_node ≠ n_edge ≠ n_face; the constructor sites found by an ast walk "
                "of the tree under test are compared with the table (harness SITES / Lean UxCall) — an unlisted site is a mismatch; "
                "every prefix is judged; distinct = distinct (method, variant, dtype, pre-dims, model op, on-derived-grid)")
    ctx.assumptions = [
        "which constructor path a public xarray method takes is OBSERVED per run (table in the evidence), not proved",
        "values/dtype/dims are compared with the same program on a plain xarray.DataArray (NumPy equality): differential test",
        "grid independence is observed through np.shares_memory on every coordinate / connectivity / descriptor array both "
        "Grid objects hold (node_lon, node_lat, face_node_connectivity always)",
        "all 8 public ways of copying are generated (copy(), copy(deep=True|False), copy(data=x), copy(deep=True|False, data=x), "
        "copy.copy, copy.deepcopy); WHICH are deep is the Lean model's CopyApi.deep (asked from the driver), `data=` is not",
        "UxDataset half of the anchors (core/dataset.py) cannot be exercised: the installed xarray rejects Dataset(Dataset)",
        "isel on a grid dimension and subset.nearest_neighbor are generated for EVERY layout (element dimension last or not: after "
        "transpose / expand_dims / concat+transpose), their result is judged by the Lean step spec (by-name clause), values are "
        "compared with plain xarray's isel by name (face data, n_face) and with isel-then-transpose; a raise is a failure",
        "grid-dimension selections are also generated ON SUB-GRIDS (two or three selections in a row, first one not a prefix, "
        "arbitrary operations between them); their values are judged for every centring against plain xarray's isel by name at "
        "the indices obtained by identifying each element of the attached sub-grid in the current grid by its node coordinates "
        "(public API; independent of the index lists the library records)",
        "integrate / gradient / difference / topological_* / remap / get_dual are only generated where the model defines them (one "
        "grid dimension, LAST — DESIGN 'Interpretation choices'; no coordinate along it; not on a sub-grid produced by Grid.isel) — "
        "raises outside that domain are counted in `ux_ops_raising_outside_model_domain`, not judged",
    ]
    env = Env(ctx)
    out = dict(failures=[], mismatches=[], skipped=[])
    try:
        rng = ctx.rng
        # ---- corpus first
        cdir = common.CORPUS / "C10"
        if cdir.is_dir():
            for f in sorted(cdir.glob("*.json")):
                import json

                j = json.loads(f.read_text())
                run_program(env, j["input"], out, tag="corpus")
                ctx.hit("corpus")
        check_sites(env, out)
        rounds = ctx.n(1, 6)
        for rnd in range(rounds):
            ms = choose_meshes(rng)
            grids = [warm_grid(meshes.to_grid(m, env.ux)) for m in ms]
            warm_vars = [grid_vars(g) for g in grids]
            wc = [counts_of(g) for g in grids]
            closed = [m.closed for m in ms]
            # programs share the WARM grids of the round; `cold` programs build their own fresh grids
            base = dict(grids=[mesh_to_json(m) for m in ms], _grids_cache=grids, warm=True)
            cold = dict(grids=base["grids"], warm=False)
            if rnd == 0:
                w0_ = World(env.ux, env.xr, grids, closed)
                to_dataset_probe(env, make_start(env.ux, env.xr, w0_, gen_start(rng, wc, 0, centre="n_face", nlead=1,
                                                                                 dtype="float64", gcoord=False))[0])
            for i, m in enumerate(ms):
                ctx.hit(f"grid:{m.kind or 'mesh'}:{'closed' if m.closed else 'partial'}")
            for inp in directed(env, rng, base, wc, closed):
                run_program(env, inp, out, tag="directed")
            chooser = make_chooser(env, rng, 3, xarray_only=True)
            for inp in constructors(env, rng, base, wc):
                # the call itself, then a random program of xarray operations on its result
                run_program(env, inp, out, tag="constructors", chooser=chooser, depth=rng.randint(1, 3))
            for inp in layouts(env, rng, base, wc):
                run_program(env, inp, out, tag="layout")
            for inp in copy_chains(env, rng, base, wc):
                run_program(env, inp, out, tag="copies")
            for inp in indexer_forms(env, rng, base, wc):
                run_program(env, inp, out, tag="forms")
            for inp in selection_chains(env, rng, base, wc):
                run_program(env, inp, out, tag="chains")
                if rng.random() < 0.25:
                    run_program(env, dict(inp, warm=False), out, tag="chains-cold")
                    ctx.hit("cold-grids")
            nprog = ctx.n(150, 1500)
            chooser = make_chooser(env, rng, 3)
            for _ in range(nprog):
                sp = gen_start(rng, wc, rng.randrange(3))
                depth = rng.randint(2, 6)
                if rng.random() < 0.15:
                    ctx.hit("cold-grids")
                    done = run_program(env, dict(cold, start=sp), out, tag="random-cold", chooser=chooser, depth=depth)
                else:
                    done = run_program(env, dict(base, start=sp), out, tag="random", chooser=chooser, depth=depth)
                ctx.hit("program-length:%d" % len(clean_program(done)))
            minimise(env, out)
            flush(ctx, out)
            grew = {i: sorted(set(grid_vars(g)) - set(v)) for i, (g, v) in enumerate(zip(grids, warm_vars))
                    if set(grid_vars(g)) - set(v)}
            if grew:
                ctx.notes.append(f"shared warm grids gained variables during the round (replays may see a colder grid): {grew}")
                ctx.hit("warm-state-not-a-fixed-point")
        sites_exercised(env)
        if ZERO_COUNT_GRIDS:
            ctx.extra["grids_with_a_zero_element_count_met"] = sorted(set(ZERO_COUNT_GRIDS))[:10]
        # ---- the observed table vs the table the as-is theorems are about
        asis = common.Tok(ctx.driver.ask("C10.asis")).ints()
        obs = {k: env.table.get(k) for k in KINDS}
        drift = {k: (PATHS[asis[i]], obs[k]) for i, k in enumerate(KINDS) if obs[k] is not None and PATHS[asis[i]] != obs[k]}
        ctx.extra["path_table_observed"] = obs
        ctx.extra["path_table_variants"] = dict(sorted(env.variants.items()))
        ctx.extra["path_table_differs_from_lean_asIs"] = drift
        ctx.extra["ux_ops_raising_outside_model_domain"] = env.ux_raises
        ctx.extra["xarray_version"] = env.xr.__version__
        sk = {}
        for nme, e in out["skipped"]:
            sk[f"{nme}:{e}"] = sk.get(f"{nme}:{e}", 0) + 1
        ctx.extra["ops_plain_xarray_rejects"] = sk
        if drift:
            ctx.notes.append(f"observed path table differs from UxdaAlgebra.asIs (the as-is theorems speak about another table): {drift}")
        missing = [k for k in KINDS if obs[k] is None]
        if missing:
            ctx.notes.append(f"kinds never executed: {missing}")
    finally:
        env.close()


def replay(ctx, rp):
    env = Env(ctx)
    out = dict(failures=[], mismatches=[], skipped=[])
    try:
        run_program(env, rp["input"], out, tag="replay")
        flush(ctx, out)
    finally:
        env.close()
