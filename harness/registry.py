"""Per-property texts for MANIFEST.json (regenerate with `python3 tools_manifest.py`)."""

HOOK_COMMITS = []

_TB = ("Trusted: Lean 4.33 kernel; axioms propext/Classical.choice/Quot.sound only (audited by #print axioms each run, no "
       "native_decide/bv_decide/sorry); harness/translate.py; the correspondence harness (differential testing, sound only "
       "for what it generates). ")

CHECKS = {
    "C02": dict(
        text=("Lean theorem UxVerif.C02.build_meets_spec: for EVERY standard-form face-node table (any number of faces, width, "
              "padding layout, numbering) the model of close_face_nodes/_build_edge_node_connectivity/_build_face_edge_connectivity/"
              "_build_n_nodes_per_face satisfies the decidable specification Edges.Spec (each boundary segment exactly once, no "
              "padding, face_edge[f,j] joins corners j,j+1, padding exactly where there is no corner, n_nodes_per_face). The model is "
              "tied to the code by a differential run on generated meshes (identical outputs entry for entry, including the edge numbering, on built grids; up to edge numbering on derived grids), and the same Lean "
              "predicate is evaluated on the implementation's own output. handshake / handshake_closed: the (face, slot) incidences summed over the derived edges equal the sum of n_nodes_per_face, and 2*n_edge = that sum when every edge bounds two face slots. "
              "spec_unique: any output meeting Spec equals the model's up to the numbering of the edges (justifies the canonicalised comparison). "
              "edges_sorted / edges_strictly_increasing / uniqPair_eq_of_sorted: np.unique(axis=0) is modelled as sort + dedup and the model numbers the edges in the lexicographic order of their sorted pairs; spec_sorted_unique: an output meeting Spec whose edges are sorted pairs in that order IS the model's output, so a different numbering is reported as correspondence mismatch C02/edge-numbering/... while the Spec verdict stands. "
              "face_lists_each_edge_once / edge_fed_each_face_once / edge_faces_distinct: on EVERY standard-form table whose faces have pairwise distinct corners, at least three (SimpleFaces), in ANY output meeting Spec no face-edge row repeats an edge, hence C03's edge-face loop never writes a face twice into an edge's row (no manifold hypothesis; both hypotheses shown necessary). "
              "nPerFace_ok_any / edges_complete_any / edges_once_any: three of the five clauses hold of the model on EVERY table; asis_midfill_unsound / asis_leadfill_faceEdges: the other two need the standard form. The builders validate nothing; a malformed-input stream (fill inside/at the start of a row, empty rows, out-of-range/negative indices) compares code and model entry for entry (all identical) and is reported without verdict. Degenerate standard-form faces (repeated corner, 1-2 corners) are generated. "
              "The same verdict is asked of grids DERIVED from the generated ones (random reads on the parent first, then 1-2 isel(n_face=...) selections "
              "in any order and shape - non-adjacent, notched, single - and copy()): Edges.Spec on the derived grid's own face table. "
              "Euler's formula itself (topology of the sphere) is tested on generated sphere tilings only."),
        note=_TB + "Modelled, not verified: that NumPy's np.unique(axis=0) is sort + dedup in lexicographic row order and NumPy's argmax/np.put/searchsorted/reshape semantics (the model's side is proved: edges_sorted, uniqPair_eq_of_sorted, filter_index; NumPy's side is tied by the differential run with identical tables, also on non-standard tables), xarray storage; Euler count.",
        technique="Lean 4 theorem over a hand model + differential correspondence with Lean-evaluated spec",
    ),
}

CHECKS["C03"] = dict(
    text=("Lean theorem UxVerif.C03.build_meets_spec: for EVERY input meeting the decidable precondition Incidence.Pre (valid "
          "entries, every edge in one or two faces; any size mix, numbering, coverage, isolated faces, any valence) the models of "
          "_build_node_faces_connectivity, _build_edge_face_connectivity, _build_face_face_connectivity and "
          "_construct_hole_edge_indices satisfy Incidence.Spec: node_face and edge_face are exact transposes of face_node / "
          "face_edge, a boundary edge is [face, FILL], face_face lists each neighbour once per shared edge, hole edges are "
          "exactly the single-incidence edges. All three loops are instances of one proved fact about table-updating loops "
          "(keyedFold_get). sub_pre / sub_manifold / sub_incidence_le / sub_distinct_faces / sub_meets_spec: for EVERY sub-mesh given by a duplicate-free face selection, the duplicate-free list of the selected faces' real edges and a renumbering (SubMesh), each face-slot incidence of a sub-edge is an incidence of its source edge in a selected face, so manifoldness, the whole precondition Pre and 'the two faces of an edge are distinct' (= no face lists an edge twice) are inherited: sub-grids of a grid meeting Pre satisfy the spec with no precondition left to evaluate on the subset. nodeFace_rectangular / nodeFace_width_is_max_valence / faceFace_rectangular: the tables are rectangular, n_max_node_faces is the largest valence, a face never has more neighbour entries than real edge slots (np.pad is never asked for a negative width); nodeFace_row_ascending / edgeFace_row_ordered / holes_ascending / faceFace_row_by_edge: the order inside the rows the loops produce. pre_of_edges_build / pipeline_meets_spec compose C02 and C03: on EVERY manifold standard-form face table the "
          "edge tables derived by the C02 model meet Pre (manifoldness is the only hypothesis left, a fact about the mesh), so the incidence "
          "tables built from them satisfy the spec end to end. The model is tied to the code by a differential run (outputs identical, 152/152 in quick) and the "
          "same Lean predicate is evaluated on the implementation's output of EVERY case of any size: the driver decides Pre and Spec with preFast / failingFast (one run of each builder + row-by-row comparison up to what the spec leaves free), PROVED equal to the specification's own Booleans (preFast_eq, no hypothesis; specFast_eq_spec, under Pre, for every candidate output; failingFast_eq, unconditional) and cross-checked against the specification's own cubic decision procedure on every case of <= 12 faces; dtype and _FillValue are run-time assertions. Grids DERIVED from the "
          "generated ones (random reads on the parent first - incl. the incidence tables themselves - then isel by faces in any order / nodes / "
          "edges, chains, copy()) are judged by the same spec against their own face table. File-supplied tables (MPAS sample primal and dual; synthetic ICON-style sources, closed and with holes, one-based int32 tables with 0/-1 for a missing neighbour) and the suite's larger sample grids (up to 3840 faces in quick, 5400 in thorough) are judged by the same Lean spec."),
    note=_TB + "Modelled, not verified: Python dict/list/np.pad semantics, numba compilation of the edge_face loop; "
         "face_edge/n_nodes_per_face are inputs (their correctness is C02). Sample data files are read from /repo when the tree under test carries none.",
    technique="Lean 4 theorem over a hand model + differential correspondence with Lean-evaluated spec",
)

CHECKS["C17"] = dict(
    text=("Lean theorem UxVerif.C17.agg_face_eq: for EVERY reduction `red`, node data, face-node table and partition data "
          "meeting PartsOK (faces grouped by size, every face in a slice) the scatter/gather loop of "
          "_apply_node_to_face_aggregation_numpy equals, face by face, `red` over exactly that face's corner nodes; "
          "agg_no_padding (the gathered indices are the real corners, never FILL, on any standard-form table), agg_edge_eq, "
          "agg_leading (lifts to any rank), agg_rejects (dispatch decision table). parts_ok_any_argsort / agg_face_eq_any_argsort: the "
          "partition data computed as get_face_node_partitions does (np.unique sizes, cumulative counts) meet PartsOK for EVERY "
          "permutation that sorts the face sizes, i.e. for any argsort tie-breaking, so the end-to-end statement has no run-time "
          "hypothesis left except that argsort sorts (SortsBy, evaluated BY LEAN on the real argsort output of every generated case, "
          "together with PartsOK on the real partitions). agg_face_real_corners composes C02 and C17: on every standard-form table the "
          "aggregation of face f is the reduction over exactly the real corners of row f, for any sorting permutation of the derived counts. The model loop is run by the driver with exact integer reductions and must "
          "equal the implementation; The ten reductions are explicit exact functions over Q (Aggregate.core; std by its square, ddof as passed): red_perm_invariant / accepts_perm_invariant (value and verdict depend only on the multiset of the row, hence agg_corner_order_irrelevant and agg_edge_orientation_irrelevant), red_min_max_sort_spec, judge_accepts_exact, judge_exact_ops (exact equality for min/max/all/any), judgeRows_iff, loop_rows_are_corner_rows, agg_face_local (no other node contributes), agg_edge_real_endpoints (C02 o C17 for edges), agg_subgrid_commutes(_std). THE VERDICT on every output of every reduction is Lean's: inputs and outputs cross as exact rationals, the driver reduces exactly the element's corner values and decides accepts (rounding allowance from the row length and Sum|x|); NumPy on the element's own nodes only cross-checks that model. std/var are run with ddof 0 and 1 (kwargs), sources NumPy- and dask-backed; StdForm/EdgesSound are decided by Lean on the real tables; the dispatch table and the method->np.<f> table are regenerated from the source by ast and compared with the Lean tables."),
    note=_TB + "Modelled, not verified: NumPy fancy indexing (Lean gathers the rows itself; tied differentially); float64 evaluation of the reductions (bounded by the allowance `tol`, a standard forward-error bound with spare room, not proved against IEEE semantics; measured worst deviation/allowance 0.30 over 60 000 random rows); NaN/inf data are outside the rational model; np.argsort/np.unique/np.cumsum as before (PartsOK/SortsBy decided per case). The ast table check fails (correspondence) on any refactor of _uxda_grid_aggregate / NUMPY_AGGREGATIONS / topological_* it cannot read, np.argsort/np.unique/"
         "np.cumsum inside get_face_node_partitions (validated per case by the Lean predicate PartsOK).",
    technique="Lean 4 theorems (any reduction; ten reductions exact over Q, permutation-invariant) + Lean-decided float clause on exact rationals + differential correspondence",
)

NOT_APPLICABLE = {}

CHECKS["C20"] = dict(
    text=("Lean theorems (Props/C20.lean) over the model of Grid.__eq__/__ne__ for ALL pairs of grids — any format string, unbounded "
          "coordinate arrays given as IEEE-754 bit patterns (NaN, ±0, inf), any connectivity shape: eq_sound (a == b ⇒ same format and "
          "identical node_lon, node_lat, face_node_connectivity), hence single_change_detected (any one changed longitude / latitude / "
          "connectivity entry at any position by any different value, or another n_node / n_face / width / format ⇒ unequal in both "
          "orders and != True) and any_difference_detected; eq_refl (also with NaN), eq_symm, eq_trans, ne_iff_not_eq, copy_eq, "
          "non_grid_false; gridEq_iff / impl_meets_spec prove the whole Spec (equal <=> same format and identical arrays) for ALL pairs without "
          "hypotheses, eq_ignores_coord_storage; the model is Grid.__eq__ with `and` (fix c9c5774d) comparing the variables (fix 0a4a6cbd); "
          "coords_structure_violates_spec / gridEqCoords_iff (the DataArray.equals version) and asis_violates_spec (the snapshot's `or`) are kept as proved regression witnesses of the two earlier versions. Tie (differential test): ~4k quick / ~39k thorough "
          "generated pairs through the public constructors, the UGRID reader and sample files of 6 formats, all ordered pairs of a small "
          "family (every combination of differing fields), g==g, copies, 16 kinds of non-Grid operands; the Lean driver evaluates the "
          "decidable Spec (specB_iff) on observed arrays and outputs. Backing state: gridEqB transcribes xarray's lazy shortcut on dask-backed variables; backing_irrelevant / eqB_values_only prove that with faithful dask names (equal name => equal values, evaluated by Lean on the names observed for every pair) the result is the value-level gridEq, so chunk()/re-chunk/one-sided chunk/copy/isel/lazy open cannot change ==; unfaithful_names_break is the proved counterexample otherwise. The differential run repeats identical and one-entry-mutated pairs (both orders, == and !=) in all these backing states (Grid.chunk with random n_node/n_edge/n_face on both sides with the same or different arguments or on one side, copy, isel, derived tables, open_grid(chunks={})) with the value-level Spec as oracle (~780 dask pairs quick, ~6.5k thorough). eq_implies_same_shape / eqB_implies_same_shape (equal => same n_face and width, in every backing state), reshape_detected (same flattened connectivity incl. fills, other shape => unequal), flatten_blind_wrong (a flattened comparison calls 4 triangles / 3 quads / 2 hexagons over the same 12 nodes equal and violates the Spec). The differential run adds pairs equal under projections of the arrays: reshapes a x b / b x a / (ab/c) x c of the same flattening (ring families, every generated table, trailing fills), permuted / reversed rows, transposed tables, same multiset, same sum, middle-row / middle-entry changes, reversed coordinates, lengths only."),
    note=_TB + "Modelled, not verified: DataArray.equals (dims, NaN-aware elements, coordinates), IEEE == on bit patterns (compared "
         "per run with Lean Float, NumPy and xarray on special/random doubles), Python's reflected-comparison fallback, canonical "
         "dimension names. 'Identical' is array identity (shape, NaN-in-place, +0 = -0, dtype ignored). No known finding left (coords-structure repaired by fix 0a4a6cbd). dask's content tokenisation is not proved (namesFaithful is checked per observed pair); name collisions inside merged dask graphs are seen only through the value-level Spec. Reshaped / shuffled tables may be malformed faces; they are valid inputs of == (constructors accept them), calls that raise on them (isel) drop the pair.",
    technique="Lean 4 theorems over a hand model (bit-level IEEE equality, backing-independence under faithful dask names) + differential correspondence with Lean-evaluated spec",
)

CHECKS["C16"] = dict(
    text=("Lean theorems UxVerif.C16.*: over ℝ the law-of-cosines expression the code evaluates is the dot product of the two unit "
          "vectors and its arccos equals the independent atan2 oracle (lawcos_eq_dot, gcDist_eq_oracle); the distance model carries an explicit normalisation step and depends only on directions - dist(c*a, d*b) = dist(a, b) for c, d > 0, for the model and for the oracle, and on Cartesian images of any radii it equals the lon/lat distance (dirDist_scale_invariant, oracleAngle_scale_invariant, dirDist_xyz_eq_gcDist, edgeFaceDistXYZ_scale_invariant, edgeFaceDistXYZ_eq_edgeFaceDist); with typed node/face indices "
          "edge_node_distances reads node arrays at the edge's nodes and edge_face_distances reads face-centre arrays at "
          "the edge's faces, 0 on boundary edges (edgeFaceDist_uses_face_centres, _boundary_zero); for EVERY edge table, data, distance "
          "table and number of leading slices over any ordered field: difference = |a-b| over the edge's own faces/nodes, zero on "
          "boundary edges and for constant fields, gradient = difference / distance, zero on boundary/constant, a normalised slice has "
          "unit Euclidean norm, every operator is a map over leading slices, result shape (diff_*, grad_*, normalized_unit_norm, "
          "leading_independent, result_dims); source-supplied MPAS tables follow the mesh's own node/face roles (mpas_supplied_roles). "
          "The three defects of the snapshot (repaired by fix commits 859be677, d402cfa7, 1559d829) stay as proved counterexamples "
          "(asis_edge_face_dist_wrong, asis_normalize_global_norm, asis_mpas_dual_swapped). Tie: differential run on generated grids "
          "(n_face>n_node and <n_node, boundary edges; coordinates supplied as lon/lat or Cartesian of unit / one / mixed radii, face centres absent / lon-lat / Cartesian of any radius / un-normalised corner mean, source-supplied edge tables with the two faces in either order, random access history incl. normalize_cartesian_coordinates() and distances-first; synthetic MPAS primal/dual, MPAS/Exodus/UGRID samples) where the oracle measures between the positions the source supplied and the Lean "
          "driver evaluates the specs on the implementation's output: differences/gradients bit-exactly, distances against the atan2 "
          "oracle under a conditioning-aware tolerance, unit norm 1e-12. The angle the oracle returns lies in [0, pi] and a one-argument arctan(sin/cos) is negative, hence wrong, for every obtuse arc (oracleAngle_range, arctan_form_wrong); the exact cosine never leaves [-1, 1] (lawcos_mem_Icc, arccos_clamp_lawcos); the tolerance of the float clause is a theorem: an error delta in the cosine of an arc in [a, pi-a] moves arccos by at most delta / sin a (angle_conditioning, arccos_error_bound). Generators include coarse grids with supplied centres 90 deg / obtuse / almost and exactly 180 deg apart (incl. pairs searched so that the cosine sum rounds below -1; this exposed nan distances for antipodal centres, repaired by fix 48f4ea17), sub-grids (Grid.isel, parent tables computed first or not) and dask-chunked grids; a zero-gradient slice under normalize=True must be all-NaN or all-zero."),
    note=_TB + "Modelled, not verified: IEEE rounding/libm: the tolerance's conditioning term is proved (arccos_error_bound), the constant 64 eps for the rounding of the cosine sum itself is assumed, NumPy fancy indexing and xarray dims, "
         "numba kernels; centres are the source-supplied positions as directions; where the source supplies none, the grid's own face_lon/face_lat (C04). A zero-gradient slice (0/0) is judged to be all-NaN (the model's IEEE value) or all-zero. Driver/harness command names are cross-checked at start-up (C16.commands).",
    technique="Lean 4 theorems (ℝ geometry + ordered-field operator laws, typed indices) + differential correspondence with Lean-evaluated spec and geodesic oracle",
)

CHECKS["C06"] = dict(
    text=("Lean theorems UxVerif.C06.integrate_add / integrate_smul (linearity), integrate_one (∫1 = Σ areas), integrate_shape "
          "(exactly the last, face, dimension is removed at any rank; name and grid kept), integrate_index (for EVERY multi-index of "
          "the leading dimensions the value is Σ_f area[f]·data[idx,f]), integrate_perm (invariance under any relabelling of the "
          "faces) and dispatch_rejects (an array whose element dimension is n_node/n_edge is rejected on every grid, also when "
          "n_node = n_face or n_edge = n_node) hold for the model of UxDataArray.integrate over every commutative semiring, every "
          "grid, area list, rank and data; integrate_meets_spec proves that the model satisfies the decidable Integrate.Spec. The "
          "model is tied to the code by a differential run: for every generated call (15 rule/order pairs, 5 dtypes, 0..3 leading "
          "dims, histories of calls on one grid) the Lean driver converts the input, the areas of an independent "
          "compute_face_areas(rule, order) call and the observed output EXACTLY to rationals and evaluates Spec (dims, shape, name, "
          "grid identity, each value within n_face·2^-52·Σ|terms| of the exact sum, rejection). The snapshot's size-based dispatch has "
          "the proved counterexample asis_integrates_node_data (tetrahedron) and was repaired by fix 34c6c352; the deprecated "
          "UxDataset.integrate is a known finding (no dispatch, 1-D only). rounded_err bounds the error of ANY summation tree by ((1+u)^(depth+1)-1)*Sum|terms| and close_of_rounded shows that tolerance is met by every summation order, so a `values` verdict cannot be a rounding artefact."),
    note=_TB + "The float tolerance is a theorem (close_of_rounded / spec_values_of_rounded): every bracketing of every permutation of the terms, evaluated in the standard model of binary64 arithmetic (relative error <= 2^-53 per product and addition, FMA included), lies within n_face*2^-52*Sum|terms| for n_face <= 2^53. Assumed, not proved: that np.einsum/np.dot obey that standard model (no underflow/overflow, no reduced-precision accumulation); xarray's constructor; face "
         "areas are inputs (C05). Values are differential tests, the algebraic laws and the decision table are theorems. The element "
         "dimension is the last one; arrays with a non-grid last dimension are not judged.",
    technique="Lean 4 theorems over a semiring-generic model + differential correspondence with Lean-evaluated spec at exact rationals",
)

CHECKS["C18"] = dict(
    text=("Lean theorems over the model of construct_faces/_order_nodes, for EVERY node-face table and EVERY key type with a strict "
          "total order: construct_eq_kept/dual_face_count (one dual face per node of valence>=3, in node order: the `correction` "
          "bookkeeping), order_is_sort/ring_of_monotone_keys (the selection loop returns the first entry, the others sorted by key, "
          "then padding, for lists of any length), dual_rows_are_node_faces/model_meets_discrete_spec (rows are exactly the node's "
          "faces wherever the padding of the node_face row sits, padding at the end of the dual row; gather_asis_eq_of_endPadded / "
          "asis_prefix_gather_drops_face witness the prefix gather fixed by b97cc1ce), side_sign_ccw/side_tproj/tri_tproj/tproj_orth (side test = sign of -c.(t0 x d), unchanged by "
          "the tangent projection), kept_all_of_closed/dual_row_of_node/dual_data_identity/dual_dims_swap (closed grids: dual face k "
          "is node k, data untouched, dims swapped). asis_chord_angle_misorders/asis_order_wrong_ring keep the snapshot's defect "
          "(chord angle instead of tangent-plane angle, fixed by c1960934) as an exact regression witness over the reals. "
          "TESTED ONLY (Lean driver evaluates on the implementation's output, differential run): ring clause (consecutive corners "
          "share an edge at the node, C03 incidence model), counter-clockwise clause on the implementation's Float output (proved for the model over exact reals: model_row_ccw), both "
          "judged where the face centres are angularly ordered like the face ring; exact table = Float model; dual node = face "
          "centre; UxDataArray.get_dual dims/values/grid; interpreted vs JIT; chains get_dual->get_dual->get_dual on irregular partial and closed "
          "meshes, each grid judged against its own parent (the parent's node_face checked against C03's Lean transpose); source-supplied "
          "node_face_connectivity with padding anywhere. order_scale_invariant (the repaired key depends only on directions: any positive scaling of the central node and of each centre - Earth radius in km/m, mixed radii - leaves every key, hence the ring, unchanged; asis_unit_normal_helper_wrong: a projection v-(v.c)c without the division by |c|^2 misorders the witness at radius 2). Coordinate form randomised per case (lon/lat only, Cartesian at unit radius / a radius in 1e-3..1e7 incl. 6371.229 and 6371229 / mixed radii, face centres unsupplied / lon-lat / Cartesian at their own radius, with/without normalize_cartesian_coordinates()); the ring and counter-clockwise oracle works on directions. construct_faces_row_local / construct_faces_schedule_independent (row j depends only on the j-th kept node; with the input-only write position the per-node iterations give the same table in any order - thread-count independence; numba thread count 1/2/7/16 is a per-case dimension); model_row_ccw with key_lt_iff_before (over exact reals and for ANY valence the ring returned by the repaired algorithm satisfies the specification's own ccwSorted predicate, under general position only - every centre in a defined half turn from the first, no two in the same direction; distinct keys and keys in (0,2pi) are consequences: keyWith_range, key_ne_of_before)."),
    note=_TB + "Not proved: that the counter-clockwise order of the face centres around a node is the ring of edge-sharing faces (mesh geometry; decided per node by the Lean driver), IEEE rounding (model_row_ccw is over exact reals), numba's actual thread schedules (any schedule is covered at the model level by construct_faces_schedule_independent), IEEE "
         "rounding / libm arccos, numba compilation, from_topology/xarray storage, face centres themselves (C04). UxDataset.get_dual "
         "cannot run under the installed xarray.",
    technique="Lean 4 theorems (any table, any ordered key type) + differential correspondence with Lean-evaluated discrete and sign-test spec",
)

CHECKS["C01"] = dict(
    text=("Lean theorems over executable reader models (Model/Readers.lean), for meshes of ANY size/width/node count: "
          "UxVerif.C01.ugrid_roundtrip / topology_roundtrip (decode (encode d w m) = ok (pad w m) for every dialect meeting the decidable "
          "DialectOK/TopoOK: start_index 0/1/absent, fill int/NaN/NaN-attr/none, any dtype, extra width), decodeUgrid_table_local + ugrid_dataset_roundtrip (every connectivity table of a UGRID dataset - face_node and the optional edge_node/edge_face/face_edge/face_face/node_face/node_edge - decodes from its OWN variable only; a dataset whose tables are each written in an independently drawn dialect decodes table by table to the standard table of that table's element lists), ugrid_undeclared_decodes (a table without start_index decodes to its element lists counted from the lowest index it uses) and undeclared_base_unambiguous_iff (it decodes to its element lists iff it uses index 0: the last clause of DialectOK is the exact boundary of decodability, not an assumption); sniff_rejects_iff / sniff_mpas_iff / sniff_ugrid_iff over the transcription Readers.sniff of _parse_grid_type (a dataset is rejected as unknown format iff it carries no marker; which reader an accepted one reaches), mpas_primal_roundtrip (any padding "
          "content), mpas_dual_roundtrip, mpas_zeros_reindex / mpas_cells_reindex (supplied tables carried over entrywise, incl. per-cell tables with missing entries inside the valid prefix), esmf_roundtrip, exodus_roundtrip/"
          "exodus_count (any number/order of blocks), icon_roundtrip, geos_corners/geos_order/geos_count/geos_in_range/geos_cyclic, "
          "scrip_positions/scrip_nodes_nodup/scrip_in_range, vertices_positions, rings_positions (decoded corner positions = source positions, "
          "padding only at the end; scrip_positions covers the repeated-last-corner dialect: real corners then FILL, for faces whose last two corners differ), spec_pad/stdForm_pad (the result is C02's standard form), normLon_range/congr/idem, setRange_ok/"
          "setRange_congr over any ordered field with floor. Proved as-is counterexamples document the seven repaired reader defects. Tie: a "
          "differential run (~1500 sources quick, ~18000 thorough: in-memory datasets, NetCDF files re-opened by path, arrays, dicts, GeoJSON) "
          "in which the Lean predicate Readers.Spec is evaluated by the driver on the implementation's face_node_connectivity (node numbers "
          "mapped to source nodes by position), the Lean model must equal the implementation up to the start corner, and the harness-side "
          "encoding is compared with Lean's encodeUgrid/encodeTopology; UGRID sources carry optional tables each in its own dialect; MPAS sources include regional meshes and a cut-out of the sample file with all optional tables; every carried table is compared entry by entry with the Lean decoders; every in-memory source is opened repeatedly (primal->dual->primal) and snapshotted (signature .../source-modified-by-reading); 16 usable sample files judged against an independent raw decoding. "
          "dtype, _FillValue, lon/lat ranges, n_node, carried-over centres/tables/areas are run-time assertions (test level). A malformed-input stream (outside the quantifier, never a verdict) compares the reader reached / rejection with `sniff` and records accept/reject for malformed sources per reader; ambiguous undeclared-base tables are generated and must equal the theorem's right-hand side in both model and implementation; Exodus sources include >= 10 blocks and gapped block numbering."),
    note=_TB + "Modelled, not verified: netCDF4/xarray decoding (_FillValue masking), geopandas/pyogrio parsing, NumPy astype/np.unique/reshape, "
         "float rounding of rad2deg and xyz->lonlat (positions compared with chord tolerance 1e-7). GEOS-CS reference orientation is the "
         "lattice perimeter order. MPAS dual only for closed meshes of valence >= 3. Sample files > 3600 faces: Spec on sampled chunks in the quick tier. An undeclared-base table that does not use index 0 is outside the quantifier (proved boundary); model and implementation are compared on it, no verdict. Known model/implementation difference outside the quantifier: a NaN entry that is not the declared fill is rejected by the model and silently turned into the fill value by the implementation. Per-reader decode_rejects_iff theorems were not built.",
    technique="Lean 4 theorems (per-dialect round trips, index arithmetic, ordered-field laws) over hand models + differential correspondence with Lean-evaluated spec",
)

CHECKS["C11"] = dict(
    text=("Lean theorems over distance lists of ANY length and any total transitive comparison: the brute-force model "
          "(stable sort + take k / filter d<=r) satisfies the k-nearest and radius specifications (knn_meets_spec, "
          "radius_meets_spec: right length, valid distinct indices, nearest first, every non-returned element at least as far); "
          "the Boolean the driver evaluates on the IMPLEMENTATION's output is that specification (knnSpecB_iff, radiusSpecB_iff) "
          "; ties aside it has exactly one solution (knn_unique), and under arbitrary ties it accepts EXACTLY the valid k-nearest answers - same distance as brute force at every position (knn_ties_profile, knn_spec_of_profile); up to a tolerance eps an accepted answer has the brute-force distance profile up to eps at every position (knn_tol_profile; radius_tol_sandwich for radius queries). Over R: chord = 2 sin(theta/2) strictly increasing on [0,pi] "
          "(chord_mono), Cartesian distance of two (lat,lon) points = 2 sin(haversine/2), haversine = arccos(u.v) in [0,pi] "
          "(chord_eq_chord_of_hav, haversine_eq_angle), hence Cartesian trees rank exactly like the haversine tree "
          "(cartesian_knn_eq_haversine_knn); units: unit_roundtrip, planar_degrees, doc_* (flip/deg->rad for every tree/system/"
          "in_radians combination), radius_unit_repaired. Tree cache: tree_reflects_request — after ANY request history the "
          "wrapper handed back has the requested kind/system/metric and queries a tree built from them; "
          "asis_cache_stale / asis_kd_radius_unit are the proved counterexamples for the snapshot (repaired by fixes 44934d88, "
          "6a2163a0, 8b521b60). Tie to the code: differential run through Grid.get_ball_tree/get_kd_tree(...).query/query_radius on "
          "generated grids (antimeridian, poles, single/batched, degrees/radians, k in 1..n, r>=0 incl. >180 deg, guards, all "
          "ordered pairs + sampled longer histories of differently parameterised requests, and all A,B,A / A,B,C,A element-kind "
          "switches per (tree, system, metric) without reconstruct, with a Lean-judged k-NN and radius query after EVERY request); the Lean driver computes the model "
          "distances at Float and judges the implementation's indices with the decidable spec; reported distances are a float "
          "clause (rel. tol 1e-7); rows with near-ties (<1e-9) are judged by the same specification up to 1e-9 (the criterion of knn_tol_profile / radius_tol_sandwich), not dropped; only a haversine near-tie within 1e-6 of the antipode that fails it would be dropped and counted."),
    note=_TB + "Modelled, not verified: sklearn BallTree/KDTree (assumed = brute force, validated per case), IEEE/libm "
         "evaluation of the metrics, NumPy squeeze/shape rules (canonicalised, not judged); element coordinates are taken as "
         "the grid reports them (C04).",
    technique="Lean 4 theorems (search spec refinement + uniqueness, real-analysis chord/haversine laws, cache state machine "
              "invariant) + differential correspondence with Lean-evaluated spec",
)

CHECKS["C12"] = dict(
    text=("Lean theorems over lists of ANY length (UxVerif.C12): the brute-force k-nearest oracle is correct (kNearest_minimal/valid/nodup/"
          "length, kDists_sorted); nearest-neighbour: nn_is_argmin, nn_meets_spec (decidable spec nnSpecB reflected by nnSpecB_iff), "
          "nn_identity_on_self / nnRow_identity (distinct source points => remapping onto the source's own elements is the identity; the chord "
          "metric meets the hypotheses: chordSq_pos); IDW over every linear ordered field, every eps>0, every natural or real power>=0 "
          "(natPow_ok, rpow_ok): idw_weights_nonneg, idw_weights_sum_one, idw_antitone, idw_between_min_max, idw_const, and end to end incl. "
          "selection and gather idwAt_between_min_max / idwAt_const / idwAt_weights_meet_spec; chord_le_iff_arc_le (cartesian order = great-circle "
          "order on unit vectors); remap_dims, remap_shape, kind_by_dim (element kind by dimension NAME), k_guard; remapNN_depends_only_on_coords / remapIDW_depends_only_on_coords (a remap depends on the two grids only through the centre coordinates they report, not on identity or Grid.__eq__), remapNN_identity_of_same_points, counterexample shortcut_on_equal_grids_wrong; knnAnswerB_sound, kNearest_is_answer, nn_from_tree_meets_spec, idw_from_tree_between, answer_unique, value_from_tree_eq_model (nothing is assumed about the tree: from the Lean judgement of its per-case answer follow the NN spec, convexity and weight spec of what the code computes from it, and equality with the model when no two sources are equally far); remap_result_grid_is_destination (dims, shape and attached grid OBJECT for every size) with counterexample fastpath_keeps_source_grid; as-is counterexamples "
          "asis_kind_by_length, asis_single_destination_drops_axis, asis_idw_single_destination_raises, asis_k_guard_refuses_admissible with "
          "partial theorems (snapshot defects repaired by fixes 9bf354d9, 6e6dffe2, 52d879b4). Tie: differential run through UxDataArray.remap on "
          "generated grid pairs (n_node=n_face and n_node=n_edge grids, single-face destinations, file-supplied lon/lat and xyz centres, MPAS "
          "sample, near-coincident and polar grids, pairs of DISTINCT grids that Grid.__eq__ calls equal but that carry a supplied edge table (other edge numbering), supplied face centres, supplied edge centres, or are a copy()) x 3 source kinds x 3 destinations x 2 coordinate types x ranks 1..3 x k in 2..n x 6 powers: "
          "the Lean driver brute-forces the (k) nearest over the grids' reported points, discards near-ties (<1e-9, counted) and evaluates "
          "nnSpecB / convexity (withinB) on the implementation's output; one-hot data expose the implementation's weights, judged by weightsOkB "
          "(support = the k nearest, >=0, sum 1, non-increasing) and compared with the model. Histories (remap -> change the source's / "
          "destination's node, face or edge coordinates through the public setters or construct_face_centers -> remap again, same and other "
          "coordinate type, all three source kinds) are judged against the coordinates the grids report at each step. For every case outside the histories the tree's answer is obtained through the same public call (get_ball_tree(..., reconstruct=True).query) and judged by knnAnswerB, and the output must equal the code's formula applied to that answer (exact for NN, 1e-10 for IDW); calls omitting all optional arguments are judged against the regenerated Gen/Defaults; the eps literal is read from the source text each run."),
    note=_TB + "Modelled, not verified: haversine = great-circle angle (formula "
         "identity not proved here; see C11), IEEE rounding (tolerances 1e-9 convexity/weights, 1e-6 model agreement), NumPy fancy "
         "indexing/broadcasting, theorems hold for every eps>0; the driver uses the eps literal read from the source text and the regenerated default arguments. Two findings rooted in coordinates.py (degrees passed to a radians function) "
         "were repaired there (dae7aac7, a9b70212). Modelled, not verified: equality of remap values with the brute-force model when several sources are exactly equally far (spec-level clauses are proved without this hypothesis). Not exercisable here: the UxDataset-level remap paths (_nearest_neighbor_uxds, _inverse_distance_weighted_remap_uxds), because UxDataset construction raises under the installed xarray; they loop over the UxDataArray path judged here.",
    technique="Lean 4 theorems over a generic ordered-field model + differential correspondence with Lean-evaluated specs and Lean brute-force oracle",
)

CHECKS["C14"] = dict(
    text=("Lean theorems (UxVerif.C14, any ordered field, all direction vectors): onArc_iff_cone (the exact predicate OnArc is 'on the "
          "great circle and between the end points'), intersections_on_both / common_point_reported / disjoint_none / crossing_one / "
          "intersections_length_le_one (the exact intersection list of two arcs on different great circles is exactly their common "
          "points: none, or one), onArc_swap / meet_swap_ends / meet_swap_arcs / onArc_rotZ / meet_rotZ (answers unchanged by swapping "
          "ends, swapping arcs, rotating about the polar axis), extreme_is_max / extreme_is_min with apex_bound, apex_attained, "
          "endpoint_max (the closed form of extreme_gca_latitude selects the largest/smallest latitude over ALL points of the arc) and "
          "code_param / code_dmax_iff (the code's d_a_max branch is 'apex strictly inside', node3 is the apex). The real "
          "point_within_gca, gca_gca_intersection, extreme_gca_latitude are tied by a differential run on correctly rounded rational "
          "unit vectors (generic, equator, meridian, through/at/near a pole, antimeridian; ends swapped, arcs swapped, rotated) whose "
          "exact answer and >=1e-6 margin are computed by the Lean driver at Q; returned points are judged by Lean (nearArc, 1e-9) on "
          "the exact value of the returned doubles. The snapshot's lon/lat logic of point_within_gca failed on pole-related arcs "
          "(repaired by fix 87607001; as-is witnesses kept). Known findings: crossings missed when the candidate's plane residual "
          "exceeds MACHINE_EPSILON (~0.7%), exact on-arc points rejected by the same plane tolerance (~1e-5), end point within 1.41e-4 rad of a "
          "pole snapped in extreme_gca_latitude. Purity: session_state_const / session_answers / runWith_pure (in EVERY sequence of calls on one arc object every answer is the answer on the original values, for any step that hands its state back unchanged and answers from the values) with onArc_congr / intersections_congr / extreme_congr. The bytes of every ndarray argument of every call are compared before/after the call (signature C14/<primitive>/modifies-input/arg=k), and 2-4 primitives are run in random order on ONE arc object (88% with an interior extreme; (2,3) array, list of arrays, Fortran order, row/column-strided views of a node array, list of row views), each answer required to equal the answer on a fresh object with the original values (C14/<primitive>/answer-depends-on-call-history). Exact numeric boundaries: extreme_opposite_latitudes / extreme_equatorial (denominator of d_a_max exactly 0), apexInside_quarter_turn, intersection_at_endpoint, same_circle_not_diff, interior_sign; generated as arc classes (opposite latitudes, exact quarter turns, half turn minus 2e-3..2e-5 rad, end points on equator/poles/prime meridian/antimeridian). Floating point: plane_residual_error (in the standard model of rounding, any u <= 1/64, any per-operation rounding, the computed (a x b).p of correctly rounded unit points is within 69u of the exact value), plane_test_rejects / plane_test_accepts / margin_decides_plane_test (the 1e-6 margin decides the plane test of point_within_gca for every such arithmetic), double_plane_thresholds (MACHINE_EPSILON meets the rejection but not the acceptance condition; ERROR_TOLERANCE*|n| meets both). Three of the four tolerance findings were repaired (fixes 53a93f9b plane test relative to the lengths, 17008975 apex from the circle's normal); the end-point-snapped-to-pole finding stays listed (its patch fixes/C14-extreme-endpoint-latitude.patch needs C13's model to follow)."),
    note=_TB + "Modelled, not verified: IEEE evaluation inside the three functions other than the plane residual of point_within_gca (that one is bounded by plane_residual_error in the standard rounding model, overflow/underflow excluded; the betweenness sign tests, the intersection candidate and the latitude value are only tested, on inputs >=1e-6 rad from every decision "
         "boundary); latitude VALUE compared at ERROR_TOLERANCE / 4 ulp of sin(lat) (float clause, test level); the same-great-circle "
         "branch of gca_gca_intersection and directed arcs are outside the property. Regenerated ERROR_TOLERANCE/MACHINE_EPSILON are "
         "re-proved to lie far inside the margin each run (library_tolerances_below_margin). That the implementation behaves like a function of the values (no aliasing or in-place update of caller arrays) is test level: byte comparison plus shared-object call sequences; float32 arguments are only noted.",
    technique="Lean 4 theorems over an exact ordered-field model (executed at Q as the oracle) + differential correspondence with Lean-evaluated verdicts",
)

CHECKS["C04"] = dict(
    text=("Lean theorem UxVerif.C04.provenance_agree (+ reports_agree): for EVERY consistent source (any of the 3x4x4 provenance "
          "combinations of node / edge-centre / face-centre coordinates, either longitude convention, any radius) and EVERY history of "
          "accesses of the lazy coordinate properties (the six getters in any order and repetition, normalize_cartesian_coordinates() "
          "anywhere; induction over the access list) everything the model of coordinates.py/grid.py returns has longitudes in "
          "[-180,180], latitudes in [-90,90], and (lon,lat) and (x,y,z) denote the same direction up to the 1e-8 pole snap; xyz the "
          "source did not supply is exactly unit; unsupplied centres are the normalised corner means (edge centre = arc midpoint, "
          "edge_mid_equidistant); conversion laws xyz_unit, normalize_unit/dir/idem, xyz_of_lonlat_of_xyz, mod-2pi/±180 periodicity, "
          "deg_range over Q. Angles carry Deg/Rad types; the snapshot's algorithm is refuted by proved witnesses (asis_*; repaired by "
          "fixes bd9a8bfc, dae7aac7, 72e92fe3). Tie: the same generic definitions run at Float in the driver against the real Grid on "
          "generated sources x histories (1e-12 on directions; all 6! access orders in thorough) and the Lean Bool spec (proved to decide "
          "the Prop at tolerance 0) judges the implementation's reports, also on SCRIP/Exodus/GEOS-CS/MPAS/UGRID sample files. Round trip with the code's convention on the FULL domain (lonlat_of_xyz_of_lonlat: any real longitude, lat in [-90,90] -> (wrap180 lon, lat) outside the snap cap, (0, +-90) inside; wrap180_seam: +180 is reported as -180) and exactly which inputs snap (snap_branch_iff, snap_cap_iff_lat: |lat| within arccos(1-tol) of a pole). Derived centres read only the element's own real corners (centroid_row_local, centroid_renumber, centroid_orphans_irrelevant, edge_centre_orphans_irrelevant: unused nodes numbered first / middle / LAST and any renumbering change nothing); the truth of every unsupplied centre is that corner mean evaluated by the Lean driver (C04.centres) from the true node positions and the connectivity, on sources whose numbering/coverage is randomised (unused nodes first/middle/last, descending/shuffled ids, biggest face first/middle/last, duplicate coordinates)."),
    note=_TB + "Modelled, not verified: IEEE rounding, libm vs NumPy (compared at 1e-12), xarray storage, that readers deliver "
         "consistent sources; positions within 1e-10 of the snap threshold are dropped; normalize_cartesian_coordinates() is judged on "
         "directions only (its node-only _check_normalization leaves stored centre vectors un-normalised: recorded as a note). Model and implementation lon/lat reports are additionally compared number by number (informational counter, no verdict: the property fixes direction and range, not the representative). The generator's own Python corner mean is kept only as a 1e-13 cross-check of the Lean value (an oracle disagreement raises, it is never a verdict).",
    technique="Lean 4 theorem over a hand model (provenance state machine, induction over histories) + differential correspondence with Lean-evaluated spec",
)

CHECKS["C09"] = dict(
    text=("Lean theorems (UxVerif.C09 + C09x, 145 obligations) about the model of _slice_face_indices: "
          "slice_meets_spec — for EVERY source whose own edge tables meet C02's spec and EVERY valid duplicate-free face-index list the "
          "subset records exactly the request, every subset face has the corners of its source face in the same order (read through the "
          "recorded node indices), its nodes/edges are exactly those of the selected faces, and its re-indexed edge tables satisfy C02's "
          "Edges.Spec OF THE SUBSET (slice_functional); slice_eq_fresh — they equal a from-scratch edge construction on the subset; "
          "slice_history_independent / built_grid_end_to_end — for every history of requests on the source before slicing and every order of "
          "requests afterwards nothing raises and the same tables are reported (state machine over the variables/attributes that travel); efd_transport / efd_history_independent_of_pre — the source's edge_face_distances kept where both faces were selected and renumbered EQUAL what the subset derives from its own table, proved from C03's EdgeFaceOK on both grids plus DistinctFaces (no per-case model equation left); Props/C09x (extension module, audited with C09): slice_simple / distinctFaces_of_simple / distinctFaces_slice_of_simple / efd_history_independent_of_simple discharge both DistinctFaces hypotheses from C02's edge_faces_distinct when the faces are simple (pairwise distinct corners, at least three); Part 2 wires C03's incidence transport: subMesh_slice / pre_slice (Incidence.Pre of the subset is a THEOREM), efdTransport_of_pre' / efd_history_independent_of_pre' / subset_incidence' (the C09 theorems WITHOUT any hypothesis about the subset) and efd_history_independent_of_simple_src (from Slice.Pre, C03's Pre of the SOURCE and simple faces only); "
          "nodes_inclusive/edges_inclusive/slice_nodes_meets_spec — node and edge selections are inclusive; data_aligned_rank — sliced data are "
          "the source's at the recorded indices for any rank; crosssec_iff + mask_order_irrelevant — a face is selected iff one of its edges "
          "has end nodes strictly on opposite sides of the parallel, for any iteration order of the parallel loop; box_iff/inLon_iff/circle_iff/"
          "knn_spec — region selectors as predicates; asis_face_edge_raises/asis_face_edge_stale/asis_holes_stale — kernel-checked "
          "counterexamples for what the snapshot did before the two fix commits. Tie: differential run through Grid.isel / Grid.subset.* / "
          "Grid.cross_section.constant_latitude / get_faces_at_constant_latitude and the UxDataArray counterparts on generated meshes (25% "
          "with their own edge tables) and the MPAS sample, random materialisation histories, all index forms, antimeridian boxes, latitudes "
          "equal to a node's, and chains of 1-2 further selections on UNOBSERVED intermediate sub-grids judged step by step against their own source and against a fresh twin; 30% of the sources (roots and intermediate sub-grids of chains) are dask-backed: Grid.chunk with random arguments is applied at a random point of the materialisation history, and the un-chunked un-materialised twin is the reference (slice_backing_irrelevant / efd_backing_irrelevant: the backing - numpy or dask - is a field of the model's source state that no getter or slicer reads; Grid.chunk is a history operation, Var.chunk, covered by every history theorem); the Lean driver evaluates Slice.Spec, C03's Incidence.Spec, Touching/SameSet/CrossSpec/DataAligned on the "
          "implementation's output and the Lean state machine must reproduce every table reported."),
    note=_TB + "Modelled, not verified: xarray isel/attrs/drop_vars and NumPy unique/fancy indexing (differential only); reference-point "
         "dask / xarray lazy-array semantics themselves (what .values, .where and isel do on a dask array) are only exercised, not modelled: the model states that the backing is irrelevant and the differential run fails wherever the implementation makes it relevant; coordinates (C04) and tree distances (C11) are taken from the implementation and judged with a 1e-9 margin; numba prange "
         "scheduling is exercised with 1/2/7/16 threads (set_num_threads per case, NUMBA_NUM_THREADS sub-processes in thorough) but only the "
         "order-independence of the loop body is proved; Incidence.Pre and DistinctFaces of the subset are still evaluated per case as a cross-check, and are now also theorems (Props/C09x: pre_slice, distinctFaces_slice_of_simple); "
         "geometric quantities of the subset are compared with the source's at the recorded indices (float tolerance 1e-9). Latitudes equal "
         "to a node's are judged EXACTLY (Lean CrossExact on the implementation's own doubles, facesAt_meets_crossExact) whenever no other "
         "node lies within 1e-9; only genuinely near (unequal) nodes fall under the margin.",
    technique="Lean 4 theorems over a hand model (repaired algorithm + as-is counterexamples) + differential correspondence with Lean-evaluated specs",
)

CHECKS["C19"] = dict(
    text=("Lean theorems over a heap of references (UxVerif.C19): construct_readonly (every constructor only allocates: for EVERY heap, "
          "variable list and choice of wrapped input buffers, nothing an input can reach is modified), copy_disjoint / export_disjoint_* "
          "(Grid.copy and the exporters return objects sharing no cell with the grid), copy_caches_empty / grid_copy_independent_caches (the copy starts with empty caches and ANY history of dataset mutators and cache operations - filling a tree / GeoDataFrame cache with an object that refers back to its grid, switching a tree in place - on one side leaves the other untouched; handover_copy_shares proves that handing a cached helper over makes the copy reach the original grid), and copy_independent (+ interleaved form): "
          "if two objects share no cell then ANY history of mutator actions on one leaves every cell the other reaches untouched — induction "
          "over unbounded histories. The verdict on the real code is Lean's: the object graph of the live Python objects (Grid, Dataset, "
          "Variable, attrs dicts, buffers by np.shares_memory, every attribute of Grid.__dict__ including cached helper objects (ball/kd tree wrappers walked through their fields, cached GeoDataFrame/collections), exported objects) is extracted before/after every constructor x container "
          "kind x dtype/fill/start_index variant, copy, export and mutation step and judged by the checkers judge/frameJ, whose answers are "
          "certified in both directions (judge_sep, judge_shared, frameJ_ok, frameJ_changed). Public observations and re-exports are compared as "
          "well; caches are built before copying (get_ball_tree/get_kd_tree, subset.nearest_neighbor/bounding_circle, remap, to_geodataframe/...); after mutating one side the other side's tree answers are compared with a twin grid built from the same input, in both directions, and an identity audit of copy.__dict__ vs original.__dict__ runs on every copy; the abstract scenario is run in the Lean model (as-is and repaired) and the code may alias no more than the model. The "
          "snapshot's aliasing is proved (asis_*) and was repaired by fixes 29dff011, c33e40e3, 5f6834f5, e8eed1a0; dataset adoption by Grid(ds)/from_dataset(ds, source_grid_spec=...) and the cached LineCollection hand-out were repaired by fixes fc70e732 and 1cb723d6; the cached GeoDataFrame hand-out stays a known finding (a pinned upstream test demands the identical frame). adopt_shallow_independent: after the shallow adoption ANY history of grid operations other than in-place array writes leaves every pre-existing cell, hence the caller's dataset, untouched (clean-action / watermark argument: runActs_clean, runActs_lowSame); caller edits of the input dataset after construction are not seen by the grid (tested)."),
    note=_TB + "Modelled, not verified: completeness of the extracted object graph (module-level state is C08's subject), CPython/NumPy/xarray "
         "aliasing semantics (zero-copy wrapping, Dataset.copy(deep=True), drop_vars), the mapping of real API calls to model operations. A grid's own stale tree after its own setters is not judged here (C08/C11). Zero-copy "
         "wrapping of input coordinate arrays is not judged (the statement forbids modifying inputs, not reading them in place). Differential-test level only.",
    technique="Lean 4 theorems (all heaps, all histories) + verified graph checkers run on the real object graph + differential correspondence",
)

CHECKS["C07"] = dict(
    text=("Lean theorems over the model Encode (transcription of _encode_ugrid + the module-level topology template, _encode_exodus, "
          "_encode_scrip, the readers' decode side, and a history machine over several grids): topology_closed (every name in the "
          "emitted grid_topology is a variable/dimension of the export, for ANY set of present variables; re-checked by decide against "
          "the regenerated conventions/ugrid.py dictionaries), ugrid_rt / ugrid_serialisable (readable with the same table and nodes, "
          "writable whatever attributes travel), template_invariant + encode_history_free + history_ugrid_rt (induction over ANY history "
          "of materialise/encode operations on any grids in any formats: an export depends only on the grid itself), derived_then_encode "
          "(any list of extra variables), exodus_rt_perm (any size mix / number of blocks: no raise, rectangular blocks, faces back as a "
          "multiset) and exodus_rt_single_block (the encoder as it stands, with the reader as it stands, returns the table exactly), "
          "scrip_rt / scrip_rt_uniform (corner positions in order; np.unique round trip; trailing repeats read as padding). Each defect of the "
          "snapshot is a switch of Cfg with a decide-proved as-is counterexample (six repaired by fix commits). Tie: generated histories over "
          "1-3 grids (lon/lat-only and Cartesian-only sources, sizes 3..10, partial/global, or opened from every readable sample file under test/meshfiles) run on the real code, every export issued through Grid.to_xarray(fmt), Grid.to_xarray() or the deprecated Grid.encode_as(FMT), drawn at random and mapped to ONE model operation (theorem entry_point_irrelevant: the export is a function of (grid, format) only; a difference between the dispatchers is a correspondence mismatch; encode_history_free is stated on `evolve`, the grid as the operations on it alone have left it, the SCRIP export's side variables added only when absent); every export is judged by "
          "the Lean predicates, re-opened with ux.open_grid directly and after to_netcdf to a scratch file and compared face-for-face by "
          "Lean's RoundTripOK, and the whole history is compared with the Lean model's run; every reported failing history is re-confirmed "
          "in a fresh interpreter. Grids with unused nodes / an isolated first face are generated and EVERY carried connectivity table of the "
          "re-opened grid is compared entry by entry (Lean C07.tables); the reader model standardises by the start_index attribute "
          "(standardize_zero: an explicit 0 shifts nothing; falsy_start_index_shifts is the counterexample for a reader that treats 0 as absent). Cross-model agreement with C01's Model/Readers: ugrid_readers_agree / exodus_readers_agree / scrip_readers_agree (C07's reader side and C01's decoders give the same table/faces/nodes for EVERY input, no hypotheses), export_is_c01_dialect, and the three round trips re-stated through C01's decoders (ugrid_rt_via_c01, exodus_rt_perm_via_c01, exodus_single_block_via_c01, scrip_rt_via_c01). exodus_rt_perm_total / exodus_single_block_total: with an element type for every face size (regenerated EXODUS_GENERIC_FROM, repair 679871d4) the Exodus round trip has no face-size hypothesis. export_writable: xarray's .encoding is a field of the model's dataset with to_netcdf's conflict rule; for every dataset whose only attribute/encoding clashes are fill declarations the repaired UGRID export is writable (as-is counterexample asis_stale_encoding_not_writable); the harness observes .encoding of every variable and Lean judges the conflict. Grids also arise as the re-opened file of an earlier UGRID/Exodus/SCRIP export (unused first nodes included)."),
    note=_TB + "Modelled, not verified: netCDF4/xarray serialisation (writing the bytes remains tested only), Dataset.rename/copy, NumPy indexing, float conversions "
         "(lon/lat<->xyz are parameters with a stated inverse hypothesis); positions are compared through the nearest original node within 1e-7. "
         "Round trips are stated for the readers named in the theorems (all-blocks Exodus reader; SCRIP reader reading trailing repeats as "
         "padding). No known finding left (Exodus element types for > 8 corners repaired by 679871d4).",
    technique="Lean 4 theorems (history induction, regenerated tables) over a hand model with repair switches + differential correspondence with Lean-evaluated spec",
)

CHECKS["C05"] = dict(
    text=("Two ties. (G) harness/translate_quad.py CALLS the code's get_tri_quadratureDG/get_gauss_quadratureDG for every order and regenerates "
          "Gen/QuadTables.lean as exact rationals; Props/C05 re-proves on every run (decide +kernel, integers, no axioms; restated in Q as "
          "tri_exact_rat/gauss_exact_rat; default_rule_supported for the regenerated default arguments) that every supported rule (triangular 1,4,8,10,12; gaussian 1..10) has weights summing to 1, positive "
          "weights and integrates every monomial up to its degree (tri: order; gauss: 2n-1, n=9 is a Lobatto rule: 15) to 1e-12 in the coordinates "
          "the code evaluates - a changed digit in any order stops a theorem. (T) Lean theorems about the model Model/Area.lean (transcription of "
          "area.py, generic over the field) for ALL corner lists/tables/numberings: area_nonneg(_tables), area_face_local/area_renumber/"
          "area_face_order, area_rotation (any orthogonal R), area_latlon_eq_xyz, area_split (exact additivity along a diagonal from the start "
          "corner), fan_shift (start-corner independence of any cyclic T with the flip identity), fan_shift_approx (quadrature within eps of such "
          "a T => start-corner dependence <= 2(n-2)eps), cache_history/cache_eq_fresh (any call history). The model run at Float by the driver "
          "equals Grid.compute_face_areas/face_areas/calculate_total_face_area to rel 1e-11 for every rule, order and both inputs; tables are "
          "bit-identical to the live ones. TESTED, not proved (oracle: exact spherical excess in the Lean driver, faces re-checked by the Lean "
          "predicate wfFace): accuracy 1e-6/1e-4/1e-2 at <=10/30/65 deg with the default rule, convergence with order, sum = 4*pi, rotation/"
          "renumbering/start-corner/subdivision at Float. Part J: the integrand both Jacobian routines evaluate is proved (over R, any corners, any parameter point with F != 0) to be the area element |dP/da x dP/db| of the code's parametrisation P = F/|F| (bary_area_element, gauss_area_element, via normalize_hasDerivAt and the exact partial derivatives baryF_partial_*/gaussF_partial_*), with closed forms jacCore_eq_triple = |F.(AxB)|/|F|^3, jacBary_closed = |n1.(n2xn3)|/(2|F|^3), jacGauss_closed = |1-b||n1.(n2xn3)|/|F|^3 - so the table theorems are about quadrature of the true solid-angle density. The accept/reject decision is part of the model: Area.supported (rule, order) is proved equal to the regenerated table keys for every natural number (tri_keys, gauss_keys, supported_iff_table) and to cover the property's quantifier (supported_quantifier); the harness requires every accepted (rule, order) in 0..13 to be accepted and answered consistently (total = sum, integrate(1) = sum, integrate(data) = areas.data, latlon=True/False equal) by every public entry - compute_face_areas, calculate_total_face_area, face_areas, UxDataArray.integrate - and an exception through any entry on an input inside the quantifier is a spec failure C05/raises/<rule>/<order>/<Exception> with the call as replay."),
    note=_TB + "Modelled, not verified: IEEE rounding, libm sin/cos/sqrt/atan2, numba JIT, np.sum; the flip identity of exact spherical area is a "
         "hypothesis of fan_shift. The snapshot's compute_face_areas(latlon=False) dropped z (Lean: asis_cartesian_area_zero, "
         "asis_violates_input_independence); repaired by fix afa9bf59. float32 coordinates are converted to float64 since fix e64833e8. The step from the area element to the area integral (change of variables) and the quadrature error of the non-polynomial density 1/|F|^3 are not proved; the accuracy thresholds stay tests. Orders the model rejects are probed only in forked children of a subprocess and recorded, not judged: on the current tree gaussian >= 11 crashes the interpreter (SIGSEGV) and gaussian 0 / triangular 0,2,3,5,6,7,9,11,13 are silently accepted by the compiled kernels with meaningless numbers (no validation in compute_face_areas) - outside the property's quantifier, reported only.",
    technique="Lean 4: regenerated-table theorems (decide +kernel) + theorems over a hand model + differential correspondence with a Lean-evaluated Float spec",
)

CHECKS["C13"] = dict(
    text=("Lean theorems over Model/Bounds.lean (transcription of _insert_pt_in_latlonbox, _get_latlonbox_width, both loops of "
          "_populate_face_latlon_bound, extreme_gca_latitude, _pole_point_inside_polygon): box_contains_all_inserted (ANY sequence of "
          "inserted points incl. pole points stays inside the periodic box), insert_minimal / insert_order_irrelevant / insert_minimal_shortest (if the inserted longitudes fit in ANY window narrower than half a turn - wrapping through 0 or not - the interval built by _insert_pt_in_latlonbox is exactly the arc from the first to the last point of the window, for every insertion order, and no covering arc is narrower; the period is a parameter), lat_encloses_nodes / pole_loop_encloses_nodes (every corner "
          "of ANY edge list is enclosed by the loops), lat_bounds_attained (each latitude bound IS an inserted corner latitude or "
          "arc extreme: tight), circle_apex_bound, extreme_param_stationary (d_a_max is the unique stationary parameter), apex_attains_bound, "
          "arc_le_endpoints/arc_ge_endpoints, extreme_encloses_arc (exact-arithmetic extreme_gca_latitude encloses EVERY point of EVERY arc "
          "shorter than half a turn) and the capstone lat_encloses_every_arc_point. pole_face_partial: a face FLAGGED by the parity count gets "
          "the pole latitude and [0,2pi]. As-is counterexamples decided in Lean: asis_skips_corner, asis_pole_corner_longitude (both repaired by "
          "fixes 1bade8c0, 55464bc2), asis_pole_missed, asis_false_pole (known findings). Tie: Grid.bounds vs the Lean transcription run at Float on "
          "generated convex 3..8-gons (anywhere, poleward-bulging edges, prime/anti-meridian, corner at a pole, pole enclosed, either start), "
          "and the verdict on the implementation's box is a Lean-evaluated oracle independent of the helpers (64 samples per edge + analytic "
          "apex, orientation determinants for the pole, largest-gap longitude hull; 1e-9 rad), plus a directed stream of faces across lon 0 / +-180 listed from every start corner in both orientations. The FORM of the coordinate input is a random dimension of every case: dtype float64/float32/int64/int32/Python ints (integer forms on whole-degree lattice faces), construction through from_topology, open_grid(vertices, latlon=True), open_grid(xyz, radius 1/6371/0.25) and from_dataset, longitudes in [-180,180) or [0,360), with or without normalize_cartesian_coordinates(); the Lean oracle judges against the positions exactly as supplied (float32: 2e-5 rad). This dimension exposed a further defect repaired by fix e9d23560 (bounds computed from non-unit / float32 node vectors). SIZE is a random dimension of every face: diameter log-uniform from 1e-7 rad (sub-metre) to 1.2 rad, anisotropic faces down to ~1e-6 rad thin (thin in latitude, in longitude, oblique), at every location class incl. faces a few diameters beside a pole and faces with one or two corners exactly on the equator; the verdict tolerance scales with the face, clamp(1e-6*diameter, 1e-12, 1e-9) rad; an exception from Grid.bounds on an admissible face is a spec failure. The pole test is the winding of the boundary about the polar axis (fix 982ba32d; the crossing-parity transcription stays as the AS-IS model with its Lean counterexamples asis_pole_missed / asis_false_pole): winding_multiple_of_two_pi (for EVERY closed ring off the axis the sum of wrapped longitude increments is an integer multiple of 2pi) and pole_flag_iff_winding (the flag is raised iff that integer is non-zero, and for exactly one pole); pole_face_partial then gives the pole latitude and [0,2pi] for a flagged face."),
    note=_TB + "Only tested (not proved): that the parity flag of _pole_point_inside_polygon agrees with 'pole strictly inside' (it does not: "
         "see the known findings), that the corner longitudes span the boundary's longitudes (monotonicity of longitude along a pole-free arc; used by the oracle's largest-gap hull), "
         "attainment for pole faces, IEEE rounding, the ERROR_TOLERANCE clip/pole snap, np.mod/deg2rad, gca_gca_intersection/point_within_gca "
         "(idealised in the model, C14). Generated faces keep the pole at least 1e-4 of their diameter away from every edge's great circle (or exactly on a corner). The comparison with the Lean transcription (not the oracle verdict) is skipped where the reference arc only touches the boundary: a corner exactly on longitude 0, the point (1,0,0) on an equatorial edge, a corner within 1e-7 rad of a pole (end-point rounding of point_within_gca, C14). Known findings: 9, all about the pole-parity count or ERROR_TOLERANCE: Equator branch (incl. two equator corners across lon 0), corner on lon 0 (pole missed / false pole / assert), crossings closer than 1e-8, snap zone within 1.414e-4 rad of a pole (wrong box / assert), float32 pole corner (not tight / not enclosed). dtype promotion / conversion of the supplied coordinates (np.deg2rad of integer or float32 arrays, the float64 per-edge tables, normalisation of non-unit xyz) is only exercised by the form dimension, not modelled - the model is over a field. For faces with a corner exactly on longitude 0 the model/implementation comparison is skipped (end-point rounding of point_within_gca, C14); the oracle verdict is still applied. A numba TypingError for a coordinate dtype is noted, not judged (C08). Known findings: 4 (two pole-parity classes, corner on lon 0 => false pole, float32 pole corner). Not proved: that a convex face has winding number +-1 exactly when a pole is strictly inside and that the orientation rule picks the right pole (decided per face by the determinant oracle); np.arctan2 is a parameter of the model. After fix 982ba32d the comparison with the transcription is skipped only for a corner within 1e-7 rad of a pole; remaining known findings: 4, all ERROR_TOLERANCE policy (snap zone within 1.414e-4 rad of a pole: wrong box / assert; float32 pole corner: not tight / not enclosed); the 5 parity-count findings are fixed.",
    technique="Lean 4 theorems (field/real algebra, induction over edge lists) over a hand model + differential correspondence with a Lean-evaluated sampling oracle",
)

CHECKS["C10"] = dict(
    text=("Lean theorems UxVerif.C10.step_preserves_inv / program_inv / program_inv_every_prefix: for EVERY table of constructor paths, heap of "
          "grids, start state and program of ANY length over the property's operation list (18 op constructors incl. uxarray's isel on grid "
          "dims, integrate, gradient, difference, topological aggregation, remap, get_dual), every in-scope operation built through a "
          "re-attaching path keeps 'UxDataArray and live grid attached and every node/edge/face dimension has that grid's element count'; "
          "same_grid (same grid OBJECT for all but deep copy/grid-isel/remap/get_dual), isel_commutes_with_transpose (grid-dimension isel / subset "
          "are by NAME for every layout of the element dimension; Spec clause grid_isel_by_name + a by-name value oracle judge transpose/"
          "expand_dims -> isel compositions), deep_copy_independent, copy_api_deep_independent / copy_api_shallow_same_grid (all 8 public ways of "
          "copying incl. copy(data=x), copy(deep=..., data=x); the model decides which are deep and deep ones are judged by the Lean deepCopyB "
          "clause on observed grid identity and array sharing), model_meets_spec + specB_iff (the "
          "decidable step spec is what the driver evaluates on the implementation's result after EVERY prefix). The full statement is false "
          "for the code as it stands and is kept as program_inv_asis_partial with Lean counterexamples asis_* (where/clip/fillna/astype/NumPy "
          "ufuncs/rolling -> plain DataArray; positional indexing of a grid dimension keeps the un-sliced grid; get_dual on meshes with nodes of "
          "<3 faces) = recorded known findings; isel with a positional indexers dict was a genuine defect (fix 5ae294e3). Tie: differential run "
          "(directed single-step program per method variant and centring + random programs depth <= 6, ~1.1k judged steps quick / ~39k "
          "thorough, on 3 grids, 5 dtypes, coords), model vs implementation on (type, grid identity/store, dims) after every prefix; "
          "values/dtype/dims vs the same program on a plain xarray.DataArray. UxdaAlgebra.UxCall is the table of every public uxarray call returning a UxDataArray with its kind-selecting keywords; uxcall_preserves_inv / uxcall_then_program_inv (each call, and the call followed by any in-scope program, keeps Inv), remap_result_dim / topo_result_dim (the element dimension is named after the selected kind and has the attached grid's count), counterexample mislabelled_remap_violates_spec. A constructors stream exercises every table entry x every keyword value from every source kind onto a different grid (all grids n_node != n_edge != n_face), each followed by a random xarray program, judged by the Lean step spec after every prefix."),
    note=_TB + "Observed, not proved: which constructor path each public xarray method takes (table measured each run by wrapping "
         "_replace/_copy/_construct_direct/__init__ in-process and written to the evidence), value equality with plain xarray (NumPy equality), "
         "Grid.__eq__, store sharing via np.shares_memory, the element counts of grids built by Grid.isel/get_dual (enter as operation "
         "parameters). The UxDataset half of the anchors (core/dataset.py) cannot be exercised: the installed xarray rejects Dataset(Dataset). "
         "uxarray's own ops are generated only where the model defines them (one grid dimension, last; no coordinate along it; not on "
         "for integrate/gradient/difference/aggregation/remap/get_dual) - raises outside that domain are counted, not judged. Grid-dimension isel / "
         "subset are generated in ANY layout and on sub-grids too (2-3 selections in a row with arbitrary ops between), judged against plain "
         "xarray isel by name at geometrically identified indices; grids of a run are in a reproducible warm/cold state recorded in the replay. The constructor sites of uxarray/{core,remap,subset,cross_sections} are enumerated with ast from the tree under test on every run and compared with the table (harness SITES <-> Lean UxCall); an unlisted site is a correspondence mismatch (exit 1, no-failing-input-found). UxDataset sites are listed as not exercisable under the installed xarray; to_dataset is probed and reported unusable. positional selection of faces (the forms reaching UxDataArray.isel) and get_dual of node/face data were repaired (fixes 59da29e4, 070b700f) and are modelled as gridIsel / getDualR (get_dual_repaired_inv: every mesh). Remaining findings with reasons: n_node/n_edge positional indexing (no exact sub-grid exists for a set of nodes/edges: Grid.isel is inclusive), sel/head/tail/thin on n_face (run on a temporary Dataset inside xarray), edge-centred get_dual on partial meshes (no edge correspondence); apply_ufunc / rolling results stay plain DataArray because xarray constructs them itself. Repairs this round: positional selection of faces (the forms reaching UxDataArray.isel) and get_dual of node/face data (fixes 59da29e4, 070b700f), modelled as gridIsel / getDualR (get_dual_repaired_inv: every mesh). Remaining findings with reasons: n_node/n_edge positional indexing (no exact sub-grid exists for a set of nodes/edges: Grid.isel is inclusive), sel/head/tail/thin on n_face (run on a temporary Dataset inside xarray), edge-centred get_dual on partial meshes (no edge correspondence); apply_ufunc / rolling results stay plain DataArray because xarray constructs them itself.",
    technique="Lean 4 invariant theorem over an operation algebra with an observed constructor-path table + differential correspondence with Lean-evaluated step spec",
)

CHECKS["C15"] = dict(
    text=("Lean model of the exporters (closed padded shells, antimeridian test, np.delete / np.where / fancy-index algebra, exclude / split / "
          "ignore as polygon -> face maps, non-NaN filter, data re-indexing, the three export caches plus side tables as a state machine over a "
          "heap of returned frames). Theorems for ALL grids, data and histories: antimeridian_iff (the test on the padded closed shell is true "
          "exactly when some real cyclic boundary segment crosses), exclude_map, nan_filter_compose (under any projection the kept positions are "
          "exactly the faces that neither cross nor project to NaN, with their own values, for frame, polygon and line exporters), split_map "
          "(every piece maps to its face, all faces present, data follow), ignore_map, *_meets_spec (refinement to the decidable Spec the driver "
          "evaluates), ignore_map_projection, step_inv/run_inv/export_history_free/export_meets_spec_after_any_history (after EVERY history, cache=False "
          "conversions included, a conversion returns what its own arguments determine: needs only the committed side-table restore), "
          "returned_geometry_stable (full strength), returned_object_stable (under the un-applied frame-copy switch); the model carries repair "
          "switches (Repairs.current = the code as it stands) and proved as-is counterexamples for the repaired defects (fixes b2818bfe, 52b55a0e, "
          "0dcb168c, a88e1270, 6127899e, 0b7c0aa0, 3c5765ea) and for the one remaining known finding (asis_returned_frame_mutated). Tie: the real public API on generated grids x 5 exporters x 3 policies x 4 projections x 2 engines x random and "
          "directed histories; the Lean Spec is evaluated on every observed conversion, the Lean state machine is run on the same history, and "
          "every step is compared with the same conversion on a new grid. 'split' exports: every ring of all three exporters is checked for "
          ">= 180 degree segments and for the pieces' spherical area."),
    note=_TB + "The former partial theorems are at full strength for the code as it stands: the *_meets_spec theorems and ignore_map_projection hold for "
         "'ignore' with any projection on any grid (the hypotheses 'no face crosses / no face projects to NaN' are gone); with a projection the Spec "
         "DEMANDS the projected coordinate system for every exported polygon (only 'split' pieces stay in lon/lat, as documented). One finding remains: "
         "UxDataArray.to_geodataframe writes its data column into the cached frame that was already handed out - the identical cached frame is what "
         "upstream tests specify (not small/safe to change); geometry of handed-out frames is proved stable unconditionally. Which faces project to NaN, where "
         "a projection's antimeridian lies and what antimeridian.fix_polygon returns are PARAMETERS; vertex matching against the mesh (float32 "
         "tolerance 1e-4 deg / 8 m projected) and split-piece tiling (spherical area, 1e-3) are differential tests; project= / "
         "exclude_nan_polygons= / exclude_antimeridian= are outside the quantifier and not generated. cartopy/antimeridian/shapely/pandas/"
         "spatialpandas/matplotlib are external.",
    technique="Lean 4 theorems over an executable model (index algebra + cache state machine) + differential correspondence with Lean-evaluated spec",
)

CHECKS["C08"] = dict(
    text=("Lean theorems (UxVerif.C08, core Lean) about an executable model of Grid's lazy state: a world = grids + module globals; "
          "per grid a store driven by a TABLE of populate units (reads / writes / presence guards / inputs / overwrite / module write), "
          "F5 cells, keyed caches; results are terms and the reference `fr` is the pure recursion over the source. For EVERY table passing "
          "the decidable check wfB, histories of ANY length over ANY number of grids, sources opened at any point: memo_sound (a getter "
          "returns the reference value, only adds entries, leaves globals alone), lookup_sound (a keyed cache whose reuse test implies 'same "
          "object' returns compute(key) after any request history), world_history_independent (any value operation after any history = before "
          "= what a freshly opened copy returns), frame / frame_results, globals_const, export_superset (export ⊇ fresh export, every entry "
          "= reference value), traceOK_iff (the Boolean the driver evaluates on the IMPLEMENTATION's observed trace is the stated spec). "
          "ux_wfVar / ux_mwf prove the transcription of the library well-formed for EVERY source signature (faces + lon/lat or xyz, "
          "anything else optional); ux_history_independent is the end-to-end statement. asis_globals_change / asis_leak / asis_replace / "
          "asis_chunk_areas / asis_jacobian / asis_tree_key / asis_line_key / asis_raw_node_lon / asis_not_wf are the proved counterexamples "
          "for the snapshot's defects (seven repaired by fix commits). Tie: history fuzzing — every step of witness, chunk->X, pair, "
          "saturation, argument cross-talk and random histories (1..3 grids, 14+ sources incl. supplied edge tables, Cartesian-only, float32 "
          "UGRID and MPAS files) is compared with the fresh-copy reference computed in a separate worker that restores every container of "
          "uxarray.conventions.*/constants; exports and inventories by the superset rule; globals digested before/after each op; verdict = Lean "
          "traceOK on the observed trace; the Lean model predicts Grid._ds's variable set and dask flags after every step; JIT-off worker; "
          "thorough: all pairs, fresh interpreters, leanchecker. The populate-unit table itself is REGENERATED from the source on every run (harness/translate_c08.py: ast over uxarray/grid/*.py -> Gen/GridWrites.lean: per getter the _ds keys / private attributes written with provenance, getters read, longitude-wrap calls, module-level / in-place / unmodelled writes) and re-proved equal to the model's table: gen_no_unlisted_writes, gen_units_match, gen_same_meaning, gen_wraps (decide +kernel against today's source), so the well-formedness proof ux_wfVar and the history-independence theorems are about the source's read/write table, not a hand transcription. Every module-level dict/list/set/ndarray of every loaded uxarray.* module (62 at present) is digested around every history (signature C08/globals-wide/...). The tree wrappers are modelled with one slot per coordinates kind and the bookkeeping that travels with the wrapper (_n_elements: which k a query accepts) is part of every cached observation; asis_stale_count is the proved counterexample for bookkeeping refreshed only when a slot is built. Tree / subset observations take k from the boundaries of the grid's element counts (0, 1, n, n+1 of every kind), radii 0 / tiny / huge, and record the exception type; cached wrappers are revisited deliberately (A->B->A, A->B->C->A for every kind x tree type x coordinate system, also through subset.nearest_neighbor)."),
    note=_TB + "Proved: the memoisation/cache/world theorems above, for the model. Differential-test level only: which stored values feed each write and the presence guards of the populate functions "
          "(hand-transcribed; tied by the value comparison with the fresh-copy reference), the read sets of METHODS (exporters, trees, isel...; Grid._ds vs model store after every step) - the read/write sets of the property getters are regenerated from the source and proved equal to the model's (gen_units_match); JIT on/off equality (floats to 1e-5 rel / 1e-8 abs), dask "
          "semantics, numpy/xarray/sklearn/shapely/matplotlib behind the observations, results of isel/subset/get_dual/copy (opaque terms; "
          "observed by a digest of the returned grid). Inventory attributes (dims, sizes, coordinates, connectivity, descriptors) and "
          "to_xarray('ugrid') are judged by the property's export clause (superset with fresh values); quadrature orders restricted to the "
          "documented ones; normalize_cartesian_coordinates / construct_face_centers are mutators and not part of histories. No known finding left (the float32 TypingError was repaired by fix e64833e8).",
    technique="Lean 4 theorems over a table-driven memo/cache state machine whose read/write table is regenerated from the source by an ast translator and re-proved equal to the model's (as-is counterexamples) + history-fuzzing correspondence with Lean-evaluated trace spec",
)
