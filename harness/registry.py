"""Per-property texts for MANIFEST.json (regenerate with `python3 tools_manifest.py`)."""

HOOK_COMMITS = []

_TB = ("Trusted: Lean 4.33 kernel; axioms propext/Classical.choice/Quot.sound only (audited by #print axioms each run, no "
       "native_decide/bv_decide/sorry); harness/translate.py; the correspondence harness (differential testing, sound only "
       "for what it generates). ")

CHECKS = {
    "C02": dict(
        text=("Lean theorem UxVerif.C02.build_meets_spec: for EVERY standard-form face-node table (any number of faces, width, "
              "padding layout, numbering) the model of close_face_nodes/_build_edge_node_connectivity/_build_face_edge_connectivity/"
              "_build_n_nodes_per_face satisfies the decidable specification Edges.Spec (each boundary segment exactly once, no "
              "padding, face_edge[f,j] joins corners j,j+1, padding exactly where there is no corner, n_nodes_per_face). The model is "
              "tied to the code by a differential run on generated meshes (identical outputs up to edge numbering), and the same Lean "
              "predicate is evaluated on the implementation's own output. handshake / handshake_closed: the (face, slot) incidences summed over the derived edges equal the sum of n_nodes_per_face, and 2*n_edge = that sum when every edge bounds two face slots. "
              "Euler's formula itself (topology of the sphere) is tested on generated sphere tilings only."),
        note=_TB + "Modelled, not verified: NumPy's np.unique/argmax/searchsorted/reshape semantics, xarray storage; Euler count.",
        technique="Lean 4 theorem over a hand model + differential correspondence with Lean-evaluated spec",
    ),
}

CHECKS["C03"] = dict(
    text=("Lean theorem UxVerif.C03.build_meets_spec: for EVERY input meeting the decidable precondition Incidence.Pre (valid "
          "entries, every edge in one or two faces; any size mix, numbering, coverage, isolated faces, any valence) the models of "
          "_build_node_faces_connectivity, _build_edge_face_connectivity, _build_face_face_connectivity and "
          "_construct_hole_edge_indices satisfy Incidence.Spec: node_face and edge_face are exact transposes of face_node / "
          "face_edge, a boundary edge is [face, FILL], face_face lists each neighbour once per shared edge, hole edges are "
          "exactly the single-incidence edges. All three loops are instances of one proved fact about table-updating loops "
          "(keyedFold_get). The model is tied to the code by a differential run (outputs identical, 48/48 in quick) and the "
          "same Lean predicate is evaluated on the implementation's output; dtype and _FillValue are run-time assertions."),
    note=_TB + "Modelled, not verified: Python dict/list/np.pad semantics, numba compilation of the edge_face loop; "
         "face_edge/n_nodes_per_face are inputs (their correctness is C02). File-supplied tables (MPAS) only when small enough.",
    technique="Lean 4 theorem over a hand model + differential correspondence with Lean-evaluated spec",
)

CHECKS["C17"] = dict(
    text=("Lean theorem UxVerif.C17.agg_face_eq: for EVERY reduction `red`, node data, face-node table and partition data "
          "meeting PartsOK (faces grouped by size, every face in a slice) the scatter/gather loop of "
          "_apply_node_to_face_aggregation_numpy equals, face by face, `red` over exactly that face's corner nodes; "
          "agg_no_padding (the gathered indices are the real corners, never FILL, on any standard-form table), agg_edge_eq, "
          "agg_leading (lifts to any rank), agg_rejects (dispatch decision table). parts_ok_any_argsort / agg_face_eq_any_argsort: the "
          "partition data computed as get_face_node_partitions does (np.unique sizes, cumulative counts) meet PartsOK for EVERY "
          "permutation that sorts the face sizes, i.e. for any argsort tie-breaking, so the end-to-end statement has no run-time "
          "hypothesis left except that argsort sorts (SortsBy, evaluated BY LEAN on the real argsort output of every generated case, "
          "together with PartsOK on the real partitions). The model loop is run by the driver with exact integer reductions and must "
          "equal the implementation; all ten reductions are compared with NumPy's reduction over the element's own nodes."),
    note=_TB + "Modelled, not verified: NumPy fancy indexing and the reductions themselves (parameters), np.argsort/np.unique/"
         "np.cumsum inside get_face_node_partitions (validated per case by the Lean predicate PartsOK).",
    technique="Lean 4 theorem (any reduction, any partition meeting a Lean-evaluated hypothesis) + differential correspondence",
)

NOT_APPLICABLE = {}
