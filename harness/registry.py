"""Per-property texts for MANIFEST.json (regenerate with `python3 tools_manifest.py`)."""

HOOK_COMMITS = []

_TB = ("Trusted: Lean 4.33 kernel; axioms propext/Classical.choice/Quot.sound only (audited by #print axioms each run, no "
       "native_decide/bv_decide/sorry); harness/translate.py; the correspondence harness (differential testing, sound only "
       "for what it generates). ")

CHECKS = {
    "C02": dict(
        text=("Lean theorem UxVerif.C02.build_meets_spec: for EVERY standard-form face-node table (any number of faces, width, "
              "padding layout, numbering) the model of close_face_nodes/_build_edge_node_connectivity/_build_face_edge_connectivity/"
              "_build_n_nodes_per_face satisfies the decidable specification Edges.Spec (each boundary segment exactly once, no "
              "padding, face_edge[f,j] joins corners j,j+1, padding exactly where there is no corner, n_nodes_per_face). The model is "
              "tied to the code by a differential run on generated meshes (identical outputs up to edge numbering), and the same Lean "
              "predicate is evaluated on the implementation's own output. Euler's formula is tested on generated sphere tilings only."),
        note=_TB + "Modelled, not verified: NumPy's np.unique/argmax/searchsorted/reshape semantics, xarray storage; Euler count.",
        technique="Lean 4 theorem over a hand model + differential correspondence with Lean-evaluated spec",
    ),
}

NOT_APPLICABLE = {}
