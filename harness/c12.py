"""C12 — remapping picks true nearest sources and never invents values.

Lean side (Props/C12.lean): for distance lists of ANY length the brute-force `kNearest` is the k
nearest (`kNearest_minimal` …), the nearest-neighbour model returns the value of a nearest source
(`nn_meets_spec`) and is the identity on the source's own distinct points (`nnRow_identity`), the
IDW weights are positive, sum to one, never increase with distance, the IDW value lies within
[min, max] of the k neighbour values and reproduces constants (`idwAt_between_min_max`,
`idwAt_const`), output dims (`remap_dims`) and the element kind by dimension NAME (`kind_by_dim`).

Tie (differential, through `UxDataArray.remap.*` only): for every generated
(source grid, destination grid, data kind, destination kind, coordinate type, leading shape, k, power)
the Lean driver
  * finds the nearest / k nearest source elements by brute force over the points the grids
    report (lon/lat; great-circle for "spherical", chord of their unit vectors for "cartesian"),
    discards destination points whose choice is a near-tie (gap < 1e-9), and evaluates
    `nnSpecB` / `withinB` (convexity) on the IMPLEMENTATION's output for every leading index;
  * for one-hot data (row i = indicator of source element i) the implementation's output IS its
    weight matrix: support = exactly the k nearest, weights >= 0, sum 1, non-increasing with
    distance (`weightsOkB`), and equal to the model's `weightColumn` (correspondence);
  * decides dims / shape / element kind / k guard (`C12.dims`, `C12.shape`, `C12.kind`, `C12.guard`).
"""

from __future__ import annotations

import math

import numpy as np

from . import common, meshes
from .common import INT_FILL, enc_float, enc_ints

KINDS = ["node", "face", "edge"]
KCODE = {"node": 0, "face": 1, "edge": 2}
DIM = {"node": "n_node", "face": "n_face", "edge": "n_edge"}
REMAP_TO = {"node": "nodes", "face": "face centers", "edge": "edge centers"}
LEAD = ["t", "lev"]
SYS = {"spherical": 0, "cartesian": 1}
EPS = 1e-6           # model parameter ε; replaced at run time by the literal READ from the tree under test (code_eps)
TIE = 1e-9           # near-tie margin on distances (degrees / chord)
MESHFILES = "test/meshfiles"


# ----------------------------------------------------------------------------------------------
# grid specifications (replayable: explicit arrays, or a sample file of the repository)
# ----------------------------------------------------------------------------------------------


def spec_of(m: meshes.AMesh, name=None, centres=None):
    s = dict(name=name or m.kind, lon=[float(x) for x in m.lon], lat=[float(x) for x in m.lat],
             faces=[list(map(int, f)) for f in m.faces])
    if centres is not None and len(centres) == 2:
        s["face_lon"], s["face_lat"] = [float(x) for x in centres[0]], [float(x) for x in centres[1]]
    elif centres is not None:  # cartesian centres, as a file with xCell/yCell/zCell would supply them
        s["face_x"], s["face_y"], s["face_z"] = ([float(x) for x in c] for c in centres)
    return s


def build_grid(ux, spec):
    if "file" in spec:
        path = common.REPO / MESHFILES / spec["file"]
        if not path.exists():  # scratch copies of the package carry no sample files
            from pathlib import Path

            path = Path("/repo") / MESHFILES / spec["file"]
        return ux.open_grid(str(path))
    faces = spec["faces"]
    w = max(len(f) for f in faces)
    t = np.full((len(faces), w), INT_FILL, dtype=np.int64)
    for i, f in enumerate(faces):
        t[i, : len(f)] = f
    kw = {}
    if "face_lon" in spec:
        kw = dict(face_lon=np.array(spec["face_lon"], dtype=float), face_lat=np.array(spec["face_lat"], dtype=float))
    if "face_x" in spec:
        kw = {c: np.array(spec[c], dtype=float) for c in ("face_x", "face_y", "face_z")}
    if "edges" in spec:  # a source-supplied edge table (its own edge numbering / endpoint order)
        kw["edge_node_connectivity"] = np.array(spec["edges"], dtype=np.int64)
    if "edge_lon" in spec:  # source-supplied edge centres
        kw["edge_lon"], kw["edge_lat"] = np.array(spec["edge_lon"], dtype=float), np.array(spec["edge_lat"], dtype=float)
    return ux.Grid.from_topology(node_lon=np.array(spec["lon"], dtype=float), node_lat=np.array(spec["lat"], dtype=float),
                                 face_node_connectivity=t, fill_value=INT_FILL, **kw)


def describe(spec):
    if "file" in spec:
        return dict(file=spec["file"])
    return dict(name=spec["name"], n_node=len(spec["lon"]), n_face=len(spec["faces"]),
                file_centres="lonlat" if "face_lon" in spec else "xyz" if "face_x" in spec else False,
                supplied_edges="edges" in spec, supplied_edge_centres="edge_lon" in spec,
                copy_of_source=bool(spec.get("copy_of_source")))


def lonlat(g, kind):
    return (np.asarray(getattr(g, f"{kind}_lon").values, dtype=float), np.asarray(getattr(g, f"{kind}_lat").values, dtype=float))


def xyz_gap(g, kind):
    """largest distance between the grid's xyz of `kind` and the unit vectors of its lon/lat"""
    lon, lat = (np.radians(a) for a in lonlat(g, kind))
    x, y, z = (np.asarray(getattr(g, f"{kind}_{c}").values, dtype=float) for c in "xyz")
    return float(np.max(np.abs(np.stack([np.cos(lat) * np.cos(lon) - x, np.cos(lat) * np.sin(lon) - y, np.sin(lat) - z]))))


def enc_pts(lon, lat):
    return " ".join([str(len(lon))] + [enc_float(a) + " " + enc_float(b) for a, b in zip(lon, lat)])


def enc_frows(rows):
    return " ".join([str(len(rows))] + [common.enc_floats(r) for r in rows])


# ----------------------------------------------------------------------------------------------
# mesh generators specific to this property
# ----------------------------------------------------------------------------------------------


def jitter(m, rng, amp=0.03, kind=None):
    """break the symmetric ties of regular solids: move every node a little"""
    xyz = m.xyz + np.array([[rng.gauss(0, amp) for _ in range(3)] for _ in range(m.n_node)])
    return meshes.AMesh(m.faces, xyz, m.closed, kind or (m.kind + "+jit"))


def pyramid(k, rng):
    """self-dual solid: n_node = n_face = k + 1 (k = 3: tetrahedron)"""
    base = [meshes._ll(360.0 * i / k, -25.0) for i in range(k)]
    xyz = np.array(base + [[0, 0, 1.0]])
    faces = [list(range(k - 1, -1, -1))] + [[i, (i + 1) % k, k] for i in range(k)]
    m = meshes.AMesh(meshes._orient(faces, xyz), xyz, True, f"pyramid{k}(n_node=n_face)")
    return jitter(m.rotated(meshes.random_rotation(rng)), rng, kind=m.kind)


def polygons(k, rng):
    """k pairwise disjoint polygons: n_node = n_edge; k = 1: a single face (single destination)"""
    xyz, faces = [], []
    for i in range(k):
        s = rng.choice([3, 4, 5])
        lon0, lat0 = -150 + i * 70 + rng.uniform(-5, 5), rng.uniform(-40, 40)
        r = rng.uniform(6, 12)
        b = len(xyz)
        for j in range(s):
            a = 2 * math.pi * (j + rng.uniform(-0.2, 0.2)) / s
            xyz.append(meshes._ll(lon0 + r * math.cos(a), lat0 + r * math.sin(a)))
        faces.append(list(range(b, b + s)))
    xyz = np.array(xyz)
    m = meshes.AMesh(meshes._orient(faces, xyz), xyz, False, f"polygons{k}(n_node=n_edge)")
    return m.rotated(meshes.random_rotation(rng)) if rng.random() < 0.5 else m


def off_centres(m, rng, xyz=False):
    """face centres as a file would supply them: inside the face but NOT the centroid"""
    c = []
    for f in m.faces:
        w = np.array([rng.uniform(0.2, 1.0) for _ in f])
        p = (m.xyz[f] * w[:, None]).sum(0)
        c.append(p / np.linalg.norm(p))
    c = np.array(c)
    if xyz:
        return c[:, 0], c[:, 1], c[:, 2]
    return np.degrees(np.arctan2(c[:, 1], c[:, 0])), np.degrees(np.arcsin(np.clip(c[:, 2], -1, 1)))


def grid_pairs(ctx):
    """(source spec, destination spec, tag) — all replayable"""
    rng = ctx.rng
    big = ctx.thorough or ctx.escalate
    out = []

    def H(n):
        return meshes.hull(n, rng)

    for rep in range(ctx.n(4, 40)):
        h1, h2 = H(rng.choice([6, 8, 10, 14])), H(rng.choice([7, 9, 12, 16]))
        out.append((spec_of(h1), spec_of(h2), "hull->hull"))
        out.append((spec_of(h1), spec_of(h1), "self"))
        d = meshes.dual_of(H(rng.choice([8, 10, 12])))
        out.append((spec_of(d), spec_of(jitter(meshes.cube_sphere(rng.choice([1, 2])).rotated(meshes.random_rotation(rng)), rng)), "dual->cube"))
        # grids whose element counts coincide
        py = pyramid(rng.choice([3, 3, 4, 5, 6]), rng)
        out.append((spec_of(py), spec_of(py), "self(n_node=n_face)"))
        out.append((spec_of(py), spec_of(H(rng.choice([6, 9]))), "n_node=n_face->hull"))
        po = polygons(rng.choice([1, 2, 3]), rng)
        out.append((spec_of(po), spec_of(po), "self(n_node=n_edge)"))
        out.append((spec_of(po), spec_of(H(7)), "n_node=n_edge->hull"))
        # a single destination face
        out.append((spec_of(H(rng.choice([6, 10]))), spec_of(polygons(1, rng)), "->single-face"))
        # file-supplied (non-centroid) face centres on the source and/or the destination
        hs, hd = H(rng.choice([8, 12])), H(rng.choice([6, 10]))
        out.append((spec_of(hs, hs.kind + "+filecentres", off_centres(hs, rng)), spec_of(hd), "filecentres->hull"))
        out.append((spec_of(hd), spec_of(hs, hs.kind + "+filecentres", off_centres(hs, rng)), "hull->filecentres"))
        hx = H(rng.choice([8, 10]))
        out.append((spec_of(hx, hx.kind + "+filecentres(xyz)", off_centres(hx, rng, xyz=True)), spec_of(hd), "filecentres(xyz)->hull"))
        # nodes exactly at the poles / on the equator
        bp = meshes.bipyramid(rng.choice([4, 5, 6]), lon0=rng.choice([0.0, 180.0, rng.uniform(-180, 180)]))
        out.append((spec_of(bp), spec_of(hd), "polar->hull") if rng.random() < 0.5 else (spec_of(hd), spec_of(bp), "hull->polar"))
        # destination = slightly moved source (distances comparable to ε)
        hj = jitter(h1, rng, rng.choice([1e-3, 1e-5, 1e-7]), h1.kind + "+moved")
        out.append((spec_of(h1), spec_of(hj), "near-coincident"))
        # structured partial meshes (many exact ties: counted and discarded)
        p = meshes.patch(rng.choice([2, 3]), rng.choice([1, 2]), lon0=rng.choice([-30, 150, 170.5]), lat0=rng.choice([-20, 40, 60]))
        out.append((spec_of(p), spec_of(meshes.prism(rng.choice([3, 5]), lon0=rng.uniform(-180, 180))), "patch->prism"))
        out.append((spec_of(meshes.icosa().rotated(meshes.random_rotation(rng))), spec_of(H(8)), "icosa->hull"))
    for _ in range(3 if big else 0):
        hb = H(rng.choice([40, 60]))
        out.append((spec_of(hb), spec_of(meshes.dual_of(H(30))), "hull40->dual"))
        out.append((spec_of(jitter(meshes.cube_sphere(4), rng)), spec_of(hb), "cube4->hull"))
    mp = dict(file="mpas/QU/mesh.QU.1920km.151026.nc")
    out.append((mp, spec_of(H(12)), "mpas(file centres)->hull"))
    if big:
        out.append((spec_of(H(20)), mp, "hull->mpas"))
    return out


# ----------------------------------------------------------------------------------------------
# one case
# ----------------------------------------------------------------------------------------------


class Env:
    """a grid pair with everything the cases need; `refresh()` re-reads what the grids report NOW
    (element coordinates can be changed through the public API between two remaps)"""

    def __init__(self, ux, sspec, dspec, tag):
        self.sspec, self.dspec, self.tag = sspec, dspec, tag
        self.same = sspec is dspec or sspec == dspec
        self.src = build_grid(ux, sspec)
        if dspec.get("copy_of_source"):
            self.dst = self.src.copy()
        else:
            self.dst = self.src if self.same else build_grid(ux, dspec)
        # two DIFFERENT Grid objects that `Grid.__eq__` calls equal (same nodes and face table) may
        # still report different edge numbering / face centres / edge centres
        self.eq_distinct = self.src is not self.dst and bool(self.src == self.dst)
        self.notes = set()   # e.g. "welzl": face centres were recomputed with method="welzl"
        self.counts = {}
        self.refresh()

    def refresh(self):
        self.pts, self._gap = {}, {}
        for side, g in (("s", self.src), ("d", self.dst)):
            self.counts[side] = dict(node=int(g.n_node), face=int(g.n_face), edge=int(g.n_edge))
            for k in KINDS:
                self.pts[side, k] = lonlat(g, k)

    def gap(self, side, kind):
        """lazily: reading face_x/edge_x makes the grid derive and store them"""
        if (side, kind) not in self._gap:
            self._gap[side, kind] = xyz_gap(self.src if side == "s" else self.dst, kind)
        return self._gap[side, kind]

    def desc(self):
        return dict(tag=self.tag, source=describe(self.sspec), destination=describe(self.dspec),
                    source_counts=self.counts["s"], destination_counts=self.counts["d"])


def lean_dims(ctx, dims_codes, dkind):
    a = ctx.driver.ask("C12.dims", KCODE[dkind], enc_ints(dims_codes)).split()
    if a[0] != "ok":
        return None
    names = {0: "n_node", 1: "n_face", 2: "n_edge", 3: "t", 4: "lev"}
    return tuple(names[int(x)] for x in a[2:])


def code_eps(ctx):
    """the ε of `weights = 1 / (distances**power + ε)`, read from the SOURCE TEXT of the tree under
    test (the function is not called), so the driver's model uses the code's literal, not a
    hand-typed one.  Unknown shape of the expression: noted, the documented 1e-6 is kept."""
    global EPS
    import ast
    import inspect

    import uxarray.remap.inverse_distance_weighted as m

    found = []
    try:
        tree = ast.parse(inspect.getsource(m))
        for node in ast.walk(tree):
            if (isinstance(node, ast.BinOp) and isinstance(node.op, ast.Div) and isinstance(node.left, ast.Constant)
                    and node.left.value == 1 and isinstance(node.right, ast.BinOp) and isinstance(node.right.op, ast.Add)
                    and isinstance(node.right.right, ast.Constant) and isinstance(node.right.right.value, float)
                    and isinstance(node.right.left, ast.BinOp) and isinstance(node.right.left.op, ast.Pow)):
                found.append(float(node.right.right.value))
    except Exception as e:  # pragma: no cover
        ctx.notes.append(f"eps literal: source not readable ({type(e).__name__})")
    if len(found) == 1 and found[0] > 0:
        EPS = found[0]
        ctx.extra["eps_read_from_source"] = EPS
    else:
        ctx.notes.append(f"eps literal: expression `1 / (distances**power + eps)` not found once in the source ({found}); model keeps 1e-6")
        ctx.extra["eps_read_from_source"] = None
    return EPS


def defaults(ctx):
    """default arguments of the two accessors as REGENERATED into Gen/Defaults.lean (asked of the driver)"""
    a = [int(x) for x in ctx.driver.ask("C12.defaults").split()]
    return dict(power=a[0], k=a[1], idw_dkind=KINDS[a[2]], idw_coord=["spherical", "cartesian"][a[3]],
                nn_dkind=KINDS[a[4]], nn_coord=["spherical", "cartesian"][a[5]])


def tree_answer(env, skind, dkind, coord, k):
    """what the tree returns for the destination points — the same PUBLIC calls `_remap_grid_parse`
    makes (`Grid.get_ball_tree(..., reconstruct=True).query(dest_coords, k)`)"""
    if coord == "spherical":
        tree = env.src.get_ball_tree(coordinates=REMAP_TO[skind], reconstruct=True)
        q = np.vstack([getattr(env.dst, f"{dkind}_lon").values, getattr(env.dst, f"{dkind}_lat").values]).T
    else:
        tree = env.src.get_ball_tree(coordinates=REMAP_TO[skind], coordinate_system="cartesian", distance_metric="minkowski",
                                     reconstruct=True)
        q = np.vstack([getattr(env.dst, f"{dkind}_{c}").values for c in "xyz"]).T
    ds, idx = tree.query(q, k=k)
    n = q.shape[0]
    return np.asarray(idx).reshape(n, k), np.asarray(ds, dtype=float).reshape(n, k)


def unit_xyz(lon, lat):
    lo, la = np.radians(lon), np.radians(lat)
    return np.cos(la) * np.cos(lo), np.cos(la) * np.sin(lo), np.sin(la)


def mutate(ux, env: Env, step):
    """change the element coordinates a grid reports, through the public API only"""
    import xarray as xr

    g = env.src if step["side"] == "s" else env.dst
    kind, how = step["kind"], step["how"]
    if how == "set":  # the five public setters, mutually consistent values
        lon, lat = np.array(step["lon"], dtype=float), np.array(step["lat"], dtype=float)
        x, y, z = unit_xyz(lon, lat)
        for c, v in (("lon", lon), ("lat", lat), ("x", x), ("y", y), ("z", z)):
            setattr(g, f"{kind}_{c}", xr.DataArray(v.copy(), dims=[DIM[kind]]))
    elif how == "welzl":
        g.construct_face_centers(method="welzl")
        env.notes.add("welzl")
    elif how == "recentre":
        g.construct_face_centers()
    else:
        raise ValueError(how)
    env.refresh()


def moved(rng, lon, lat, amp):
    """every point displaced by about `amp` radians"""
    x, y, z = unit_xyz(np.asarray(lon), np.asarray(lat))
    p = np.stack([x, y, z], axis=1) + np.array([[rng.gauss(0, amp) for _ in range(3)] for _ in range(len(x))])
    p /= np.linalg.norm(p, axis=1, keepdims=True)
    return ([float(v) for v in np.degrees(np.arctan2(p[:, 1], p[:, 0]))],
            [float(v) for v in np.degrees(np.arcsin(np.clip(p[:, 2], -1, 1)))])


def run_case(ctx, ux, env: Env, case, hist=None, after=None):
    """case: method nn|idw|weights, skind, dkind, coord, lead, k, power, data (nested list) | None
    hist: the operations already performed on these two grids (remaps and coordinate changes);
    after: which coordinates were changed before this remap (part of the signature)"""
    d = ctx.driver
    use_defaults = bool(case.get("defaults"))
    if use_defaults:  # the call omits every optional argument; the regenerated defaults say what that means
        df = defaults(ctx)
        if case["method"] == "nn":
            case = dict(case, dkind=df["nn_dkind"], coord=df["nn_coord"])
        else:
            case = dict(case, dkind=df["idw_dkind"], coord=df["idw_coord"], k=df["k"], power=df["power"])
        ctx.hit("default-arguments")
    method, skind, dkind, coord = case["method"], case["skind"], case["dkind"], case["coord"]
    lead = tuple(case.get("lead", ()))
    k, power = int(case.get("k", 1)), float(case.get("power", 2))
    n_src, n_dst = env.counts["s"][skind], env.counts["d"][dkind]
    c = env.counts["s"]
    case = {kk: v for kk, v in case.items() if not (kk == "data" and v == "one-hot")}
    if method == "weights":
        data = np.eye(n_src)
        lead = (n_src,)
        dims = ("t", DIM[skind])
    else:
        data = np.array(case["data"], dtype=float).reshape(lead + (n_src,))
        dims = tuple(LEAD[: len(lead)]) + (DIM[skind],)
    dims_codes = [3 + i for i in range(len(dims) - 1)] + [KCODE[skind]]
    inp = dict(source=env.sspec, destination=env.dspec, tag=env.tag, case=dict(case, data=data.tolist() if method != "weights" else "one-hot"))
    if hist is not None:
        inp["history"] = list(hist)
        inp["after"] = after
    short = dict(env.desc(), case={kk: v for kk, v in case.items() if kk != "data"})
    key = (env.tag, describe(env.sspec), describe(env.dspec), method, skind, dkind, coord, lead, k, power,
           data.tobytes().hex()[:48], str(env.sspec.get("lon", ""))[:80], len(hist or ()), after)
    if hist is not None:
        ctx.hit("history-step:" + (after or "before-any-change"))
    ctx.hit(f"{method}:{skind}->{dkind}")
    ctx.hit(f"coord={coord}")
    ctx.hit(f"rank={len(dims)}")
    ctx.hit(f"pair:{env.tag}")
    if method != "nn":
        ctx.hit(f"power={power:g}")
        ctx.hit("k=n_src" if k == n_src else "k<n_src")

    # element kind: the data's dimension NAME (Lean `sourceKind`) vs what the snapshot infers (length)
    kk = d.ask("C12.kind", c["node"], c["face"], c["edge"], n_src, enc_ints(dims_codes)).split()
    assert int(kk[0]) == KCODE[skind]
    ambiguous = kk[0] != kk[1]
    if ambiguous:
        ctx.hit("length-ambiguous-kind")
    single = n_dst == 1
    if single:
        ctx.hit("single-destination")
    filec = (("face_lon" in env.sspec or "face_x" in env.sspec) and skind == "face") or ("face_lon" in env.dspec and dkind == "face") \
        or ("file" in env.sspec) or ("file" in env.dspec)
    if filec:
        ctx.hit("file-supplied-centres")
    # cartesian remap with centres whose xyz are not the unit vectors of their lon/lat
    bad_xyz = coord == "cartesian" and max(env.gap("s", skind), env.gap("d", dkind)) > 1e-6
    adm, asis_adm = (x == "1" for x in d.ask("C12.guard", k, n_src, c["node"]).split()) if method != "nn" else (True, True)

    def sig(what):
        if bad_xyz:
            return "C12/cartesian/" + ("welzl-" if "welzl" in env.notes else "") + "centres-xyz-disagree-with-lonlat"
        if after:
            return f"C12/{'nn' if method == 'nn' else 'idw'}/{what}/after-{after}-coordinates-changed"
        if single:
            return f"C12/{'nn' if method == 'nn' else 'idw'}/single-destination/{what}"
        if ambiguous:
            return f"C12/source-kind-by-length/{DIM[skind]}-taken-for-{DIM[KINDS[int(kk[1])]]}"
        return f"C12/{'nn' if method == 'nn' else 'idw'}/{what}/{skind}->{dkind}/{coord}" + ("/equal-but-distinct-grids" if env.eq_distinct else "")

    if env.eq_distinct:
        ctx.hit("grids-equal-but-distinct")
    da = ux.UxDataArray(data.copy(), dims=dims, uxgrid=env.src, name="v")
    nontriv = n_src > 1
    ctx.case(key, nontrivial=nontriv, sample=short if n_src <= 12 and len(lead) <= 1 else None)
    try:
        if use_defaults:
            r = da.remap.nearest_neighbor(env.dst) if method == "nn" else da.remap.inverse_distance_weighted(env.dst)
        elif method == "nn":
            r = da.remap.nearest_neighbor(env.dst, REMAP_TO[dkind], coord)
        else:
            r = da.remap.inverse_distance_weighted(env.dst, REMAP_TO[dkind], coord, power=power, k=k)
    except Exception as e:
        msg = f"{type(e).__name__}: {str(e)[:160]}"
        if method != "nn" and not adm:
            ctx.hit("inadmissible-k-refused")
            return
        if method != "nn" and adm and "Number of nearest neighbors" in str(e):
            ctx.fail("C12/idw/k-guard/admissible-k-refused",
                     f"k={k} with {n_src} source elements ({DIM[skind]}; n_node={c['node']}) is admissible but refused: {msg}",
                     inp, msg, "accepted", ["k_guard"])
            return
        ctx.fail(sig(f"raises-{type(e).__name__}"), f"remap raises {msg}", inp, msg, None, ["remap_shape" if single else "raises"])
        return
    if method != "nn" and not adm:
        ctx.fail("C12/idw/inadmissible-k-accepted", f"k={k} with {n_src} source elements returned numbers", inp, None, "refused", ["k_guard"])
        return

    out = np.asarray(r.values, dtype=float)
    obs = dict(type=type(r).__name__, dims=list(r.dims), shape=list(out.shape), values=out.tolist() if out.size <= 400 else "…")
    # --- structure: the Lean wrapper model `wrapResult` judges dims, shape and the attached grid OBJECT ---
    names = {"n_node": 0, "n_face": 1, "n_edge": 2, "t": 3, "lev": 4}
    og = 0 if r.uxgrid is env.dst else 1 if r.uxgrid is env.src else 2   # 0 = the destination grid object
    sg = 0 if env.src is env.dst else 1
    odims = [names.get(x, 9) for x in r.dims]
    w = d.ask("C12.wrap", 0, KCODE[dkind], n_dst, sg, enc_ints(dims_codes), enc_ints(data.shape),
              og, enc_ints(odims), enc_ints(out.shape)).split()
    if w[0] != "ok" or type(r).__name__ != "UxDataArray":
        clauses = w[1].split(",") if w[0] == "fail" else ["remap_result_type"]
        what = "grid" if clauses == ["remap_result_grid_is_destination"] or w[0] == "ok" else "dims"
        ctx.fail(sig(what), f"result {type(r).__name__} dims {tuple(r.dims)} shape {tuple(out.shape)} attached to "
                 f"{['the destination grid', 'the SOURCE grid object', 'another grid object'][og]}; the wrapper model gives {' '.join(w[2:])}",
                 inp, obs, dict(model=" ".join(w[2:])), clauses)
        return

    # --- values: the Lean driver judges the implementation's output ---
    slon, slat = env.pts["s", skind]
    dlon, dlat = env.pts["d", dkind]
    rows = data.reshape(-1, n_src)
    orows = out.reshape(-1, n_dst)
    amax = float(np.max(np.abs(rows))) if rows.size else 0.0
    head = f"{SYS[coord]}"
    pts = enc_pts(slon, slat) + " " + enc_pts(dlon, dlat)
    def tree_check():
        """nothing is assumed about sklearn: the tree's answer is judged (`knnAnswerB`) and the output must
        be what the code's formula makes of THAT answer (theorems nn_from_tree_meets_spec, idw_from_tree_between,
        value_from_tree_eq_model)"""
        if hist is not None or bad_xyz or n_src * n_dst * max(k, 1) > 400000:
            return  # (in histories an extra tree request would itself refresh the cache under test)
        idx, ds = tree_answer(env, skind, dkind, coord, k)
        a = d.ask("C12.tree", head, 1 if method == "nn" else 0, enc_float(power), enc_float(EPS), k, enc_float(TIE), enc_float(1e-9),
                  enc_float(1e-10 * (1 + amax)), pts, " ".join([str(n_dst)] + [enc_ints(r_) for r_ in idx]),
                  enc_frows(ds), enc_frows(rows), enc_frows(orows))
        assert a.startswith("ok"), a
        t = common.Tok(a.split()[1:])
        fa, fv, tt, df_ = t.ints(), t.ints(), t.ints(), t.float()
        ctx.hit("tree-answers-judged", n_dst - len(tt))
        if fa:
            ctx.fail(sig("tree-answer-not-k-nearest"),
                     f"BallTree.query(k={k}) for destination {dkind} {fa[0]} does not meet the k-nearest specification (Lean knnAnswerB); "
                     f"{len(fa)} of {n_dst}", inp, dict(idx=idx.tolist()), None, ["KnnAnswer"])
        elif fv:
            ctx.mismatch("C12/value-vs-formula-of-tree-answer", inp, obs, dict(failing=fv, maxdiff=df_))

    if method == "nn":
        a = d.ask("C12.nn", head, enc_float(TIE), pts, enc_frows(rows), enc_frows(orows))
        assert a.startswith("ok"), a
        t = common.Tok(a.split()[1:])
        fails, ties, near = t.ints(), t.ints(), t.ints()
        ctx.hit("dest-points-judged", n_dst - len(ties))
        ctx.hit("near-tie-discarded", len(ties))
        if fails:
            j = fails[0]
            ctx.fail(sig("not-nearest"),
                     f"nearest_neighbor: value at destination {dkind} {j} is not the value of the nearest source {skind} "
                     f"(brute force: {near[j]}); {len(fails)} of {n_dst} destination points",
                     inp, obs, dict(nearest=near, failing=fails), ["nn_is_argmin"])
            return
        if env.same and skind == dkind and not ties:
            ctx.hit("identity-on-self")
            if not np.array_equal(out, data):
                ctx.fail(sig("identity"), "remapping onto the source's own elements is not the identity", inp, obs, None, ["nn_identity_on_self"])
                return
        tree_check()
        return
    tolv = 1e-9 * (1 + amax)
    if method == "idw":
        a = d.ask("C12.idw", head, enc_float(power), enc_float(EPS), k, enc_float(TIE), enc_float(tolv), pts, enc_frows(rows), enc_frows(orows))
        assert a.startswith("ok"), a
        t = common.Tok(a.split()[1:])
        fails, ties, diff = t.ints(), t.ints(), t.float()
        ctx.hit("dest-points-judged", n_dst - len(ties))
        ctx.hit("near-tie-discarded", len(ties))
        if fails:
            ctx.fail(sig("not-convex"),
                     f"inverse_distance_weighted(k={k}, power={power:g}): value at destination {dkind} {fails[0]} lies outside [min, max] "
                     f"of the {k} nearest source {skind} values; {len(fails)} of {n_dst} destination points",
                     inp, obs, dict(failing=fails), ["idw_between_min_max"])
        elif not (diff <= 1e-6 * (1 + amax)):
            # the value differs from the model although it is inside [min, max]: let the weight
            # specification decide (one-hot data expose the implementation's weights)
            before = len(ctx.failures)
            if n_src <= 200 and not case.get("followup"):
                run_case(ctx, ux, env, dict(method="weights", skind=skind, dkind=dkind, coord=coord, k=k, power=power, followup=True),
                         hist=hist, after=after)
            if len(ctx.failures) == before:
                ctx.mismatch("C12/idw-value-vs-model", inp, obs, dict(maxdiff=diff))
        else:
            tree_check()
        return
    # one-hot data: the output is the implementation's weight matrix
    a = d.ask("C12.weights", head, enc_float(power), enc_float(EPS), k, enc_float(TIE), enc_float(1e-9), pts, enc_frows(orows))
    assert a.startswith("ok"), a
    t = common.Tok(a.split()[1:])
    fs, fw, ties, diff = t.ints(), t.ints(), t.ints(), t.float()
    ctx.hit("dest-points-judged", n_dst - len(ties))
    ctx.hit("near-tie-discarded", len(ties))
    if fs:
        ctx.fail(sig("support-not-k-nearest"),
                 f"inverse_distance_weighted(k={k}): the sources with non-zero weight at destination {dkind} {fs[0]} are not the {k} nearest "
                 f"{skind} elements; {len(fs)} of {n_dst} destination points", inp, obs, dict(failing=fs), ["kNearest_minimal"])
    elif fw:
        ctx.fail(sig("weights"),
                 f"inverse_distance_weighted(k={k}, power={power:g}): weights at destination {dkind} {fw[0]} are not non-negative / summing to one / "
                 f"non-increasing with distance", inp, obs, dict(failing=fw), ["idw_weights_nonneg", "idw_weights_sum_one", "idw_antitone"])
    elif not (diff <= 1e-6):
        ctx.mismatch("C12/idw-weights-vs-model", inp, obs, dict(maxdiff=diff))
    else:
        tree_check()


# ----------------------------------------------------------------------------------------------
# case generation
# ----------------------------------------------------------------------------------------------


def rand_data(rng, lead, n, const=None):
    size = int(np.prod(lead + (n,)))
    if const is not None:
        return [const] * size
    if rng.random() < 0.3:
        return [float(rng.randint(-9, 9)) for _ in range(size)]
    return [rng.uniform(-10, 10) for _ in range(size)]


def cases_for(ctx, env: Env, budget):
    rng = ctx.rng
    combos = [(s, t, c) for s in KINDS for t in KINDS for c in ("spherical", "cartesian")]
    rng.shuffle(combos)
    # always include the kind-sensitive combinations first
    prio = []
    cs = env.counts["s"]
    if cs["node"] == cs["face"]:
        prio += [("face", "face", "spherical"), ("face", "node", "cartesian")]
    if cs["node"] == cs["edge"]:
        prio += [("edge", "edge", "spherical"), ("edge", "face", "cartesian")]
    if env.counts["d"]["face"] == 1:
        prio += [("node", "face", "spherical"), ("face", "face", "cartesian")]
    if "face_lon" in env.sspec or "face_x" in env.sspec or "file" in env.sspec:
        prio += [("face", "node", "spherical"), ("face", "face", "cartesian")]
    if "face_lon" in env.dspec or "file" in env.dspec:
        prio += [("node", "face", "spherical"), ("face", "face", "cartesian")]
    if env.same:
        prio += [(s, s, rng.choice(["spherical", "cartesian"])) for s in KINDS]
    if env.eq_distinct:
        prio = [(s, s, c) for s in KINDS for c in ("spherical", "cartesian")] + prio
    seen, order = set(), []
    for x in prio + combos:
        if x not in seen:
            seen.add(x)
            order.append(x)
    out = []
    for skind, dkind, coord in order[:budget]:
        n_src, n_dst = env.counts["s"][skind], env.counts["d"][dkind]
        if n_src * n_dst > (60000 if (ctx.thorough or ctx.escalate) else 20000):
            continue
        lead = rng.choice([(), (), (2,), (3,), (2, 2)])
        out.append(dict(method="nn", skind=skind, dkind=dkind, coord=coord, lead=list(lead), data=rand_data(rng, lead, n_src)))
        if n_src >= 2:
            ks = sorted({2, n_src, rng.randint(2, n_src), min(n_src, 8)})
            k = rng.choice(ks)
            power = rng.choice([2, 2, 1, 3, 0.5, 6, 0])
            lead = rng.choice([(), (2,), (2, 3)])
            out.append(dict(method="idw", skind=skind, dkind=dkind, coord=coord, lead=list(lead), k=k, power=power,
                            data=rand_data(rng, lead, n_src)))
            if rng.random() < 0.35:
                out.append(dict(method="idw", skind=skind, dkind=dkind, coord=coord, lead=[], k=k, power=power,
                                data=rand_data(rng, (), n_src, const=rng.choice([3.25, -7.0, 1e6]))))
            if n_src <= 64 and n_src * n_src * n_dst <= 400000:
                out.append(dict(method="weights", skind=skind, dkind=dkind, coord=coord, k=rng.choice(ks), power=rng.choice([2, 1, 3, 0.5])))
        # calls that omit every optional argument (remap_to, coord_type, power, k)
        if rng.random() < 0.2:
            out.append(dict(method="nn", skind=skind, dkind=dkind, coord=coord, lead=[], data=rand_data(rng, (), n_src), defaults=True))
            out.append(dict(method="idw", skind=skind, dkind=dkind, coord=coord, lead=[], data=rand_data(rng, (), n_src), defaults=True))
        # the k guard: one inadmissible and one boundary request now and then
        if rng.random() < 0.25 and n_src >= 2:
            out.append(dict(method="idw", skind=skind, dkind=dkind, coord=coord, lead=[], k=rng.choice([1, n_src + 1]), power=2,
                            data=rand_data(rng, (), n_src)))
    return out


def eq_pairs(ctx, ux):
    """pairs of DISTINCT grids that `Grid.__eq__` calls equal (same nodes, same face-node table)
    but whose optional source-supplied tables differ: the result of a remap may depend on the two
    grids only through the centre coordinates they report, never on their identity or equality"""
    rng = ctx.rng
    out = []
    for rep in range(ctx.n(2, 8)):
        m = rng.choice([meshes.hull(rng.choice([7, 9, 12]), rng), meshes.dual_of(meshes.hull(rng.choice([8, 10]), rng)),
                        jitter(meshes.cube_sphere(1).rotated(meshes.random_rotation(rng)), rng)])
        B = spec_of(m, m.kind + "(derived)")
        g = build_grid(ux, B)
        E0 = [[int(a), int(b)] for a, b in g.edge_node_connectivity.values]
        elon, elat = lonlat(g, "edge")
        flon, flat = lonlat(g, "face")

        def perm_edges():
            e = [list(r) for r in E0]
            rng.shuffle(e)
            return [r[::-1] if rng.random() < 0.5 else r for r in e]

        def with_(name, **kw):
            return dict(B, name=m.kind + "(" + name + ")", **kw)

        amp = rng.choice([0.05, 0.2, 0.4])
        E1, E2 = with_("supplied edge table", edges=perm_edges()), with_("supplied edge table'", edges=perm_edges())
        fl, fa = off_centres(m, rng)
        F1 = with_("supplied face centres inside", face_lon=[float(x) for x in fl], face_lat=[float(x) for x in fa])
        nl, na = moved(rng, flon, flat, amp)
        F2 = with_("supplied face centres near", face_lon=nl, face_lat=na)
        cl, ca = moved(rng, elon, elat, amp)
        C1 = with_("supplied edge centres", edge_lon=cl, edge_lat=ca)
        K = dict(B, name=m.kind + "(copy)", copy_of_source=True)
        for sspec, dspec, tag in [(B, E1, "derived->edge table"), (E1, B, "edge table->derived"), (E1, E2, "edge table->edge table'"),
                                  (B, F1, "derived->face centres"), (F1, B, "face centres->derived"), (F2, F1, "face centres'->face centres"),
                                  (B, F2, "derived->face centres'"), (B, C1, "derived->edge centres"), (C1, B, "edge centres->derived"),
                                  (B, K, "derived->copy()"), (E1, dict(E1, copy_of_source=True), "edge table->copy()")]:
            out.append((sspec, dspec, "eq:" + tag))
    return out


def histories(ctx, ux):
    """remap → change the source's (then the destination's) element coordinates through the public
    API → remap again; every remap is judged against the coordinates the grids report THEN"""
    rng = ctx.rng
    for rep in range(ctx.n(2, 10)):
        for X in KINDS:
            ms, md = meshes.hull(rng.choice([7, 9, 12]), rng), meshes.hull(rng.choice([6, 8, 10]), rng)
            how = "set"
            sspec = spec_of(ms)
            if X == "face":
                how = rng.choice(["set", "welzl", "recentre"])
                if how == "recentre":  # file-supplied centres that construct_face_centers() overrides
                    sspec = spec_of(ms, ms.kind + "+filecentres", off_centres(ms, rng))
            env = Env(ux, sspec, spec_of(md), f"history({X}:{how})")
            hist = []
            Y = rng.choice([k for k in KINDS if k != X])
            n_src = env.counts["s"][X]

            def remaps(after, coords, extra=()):
                for coord in coords:
                    dk = rng.choice(KINDS)
                    k = rng.choice(sorted({2, n_src, rng.randint(2, n_src)}))
                    lead = rng.choice([(), (2,)])
                    cases = [dict(method="nn", skind=X, dkind=dk, coord=coord, lead=list(lead), data=rand_data(rng, lead, n_src)),
                             dict(method="weights", skind=X, dkind=dk, coord=coord, k=k, power=rng.choice([2, 1, 3])),
                             dict(method="idw", skind=X, dkind=rng.choice(KINDS), coord=coord, lead=[], k=k, power=2,
                                  data=rand_data(rng, (), n_src))] + list(extra)
                    for c in cases:
                        run_case(ctx, ux, env, c, hist=hist, after=after)
                        hist.append(dict(op="remap", case=c, after=after))

            # One tree wrapper is cached per grid and a request for the other coordinate system
            # replaces it, so a stale tree can only be met when the SAME coordinate type is used
            # on both sides of a coordinate change: c is used last before and first after it.
            c = rng.choice(["spherical", "cartesian"])
            if how == "recentre":  # only changes something while face_x has not been derived
                c = "spherical"
            c2 = "cartesian" if c == "spherical" else "spherical"
            # another kind interleaved on the same source grid (the wrapper switches kinds and back)
            def other(coord):
                return [dict(method="nn", skind=Y, dkind=X, coord=coord, lead=[], data=rand_data(rng, (), env.counts["s"][Y]))]
            remaps(None, [c] if how == "recentre" else [c2, c], other(c))
            # 1. the SOURCE's coordinates of kind X change
            step = dict(op="mutate", side="s", kind=X, how=how)
            if how == "set":
                step["lon"], step["lat"] = moved(rng, *env.pts["s", X], rng.choice([0.1, 0.2, 0.4]))
            mutate(ux, env, step)
            hist.append(step)
            ctx.hit(f"history:source-{how}")
            remaps("source", [c, c2], other(c2))
            # 2. the DESTINATION's coordinates change (every kind, through the setters)
            for dk in KINDS:
                step = dict(op="mutate", side="d", kind=dk, how="set")
                step["lon"], step["lat"] = moved(rng, *env.pts["d", dk], 0.2)
                mutate(ux, env, step)
                hist.append(step)
            ctx.hit("history:destination-set")
            remaps("destination", [c2, c], other(c))
            # 3. the source once more (now the other coordinate type was used in between)
            step = dict(op="mutate", side="s", kind=X, how="set")
            step["lon"], step["lat"] = moved(rng, *env.pts["s", X], 0.3)
            mutate(ux, env, step)
            hist.append(step)
            env.notes.discard("welzl")
            ctx.hit("history:source-set-again")
            remaps("source", [c, c2])


def run(ctx):
    import uxarray as ux

    ctx.rule = ("grid pairs (random triangulations and duals, jittered cube-spheres, pyramids with n_node = n_face, disjoint polygons with "
                "n_node = n_edge, single-face destinations, sources/destinations with file-supplied non-centroid face centres, the MPAS "
                "sample file, destinations within 1e-3..1e-7 of the sources, structured meshes) × data on nodes/faces/edges × destination "
                "nodes/face centres/edge centres × spherical/cartesian × rank 1..3 × k in 2..n × power in {0,0.5,1,2,3,6} through the "
                "UxDataArray.remap accessor; distinct = distinct (grids, kinds, coord, shape, k, power, data); near-ties (gap < 1e-9) are "
                "counted and discarded")
    ctx.assumptions = [
        "nothing is assumed about sklearn's BallTree: its answer for every destination point is obtained through the same public call the "
        "remap makes and judged by the Lean predicate knnAnswerB; the output must equal the code's formula applied to THAT answer (1e-10); "
        "theorems nn_from_tree_meets_spec / idw_from_tree_between / value_from_tree_eq_model derive the rest (histories excepted: there an "
        "extra tree request would refresh the cache under test, so only the outputs are judged)",
        "the UxDataset-level paths (_nearest_neighbor_uxds, _inverse_distance_weighted_remap_uxds, UxDataset.remap) are NOT exercisable here: "
        "UxDataset construction raises under the installed xarray; they loop over the UxDataArray path judged here",
        "default arguments (remap_to, coord_type, power, k) come from the regenerated Gen/Defaults.lean; the literal ε is read from the source text each run",
        "the haversine formula is taken to be the great-circle distance (not proved); chord-nearest = great-circle-nearest on unit vectors is proved (chord_le_iff_arc_le)",
        "the oracle uses the lon/lat the grids report; for 'cartesian' the unit vectors of those lon/lat",
        "IEEE rounding: convexity is judged with tolerance 1e-9·(1+max|data|), weights with 1e-9, model agreement with 1e-6",
        "theorems hold for every ε > 0",
    ]
    code_eps(ctx)
    # minimised past failures / regression witnesses first
    import json

    for f in sorted((common.CORPUS / "C12").glob("*.json")):
        inp = json.loads(f.read_text())["input"]
        ctx.hit("corpus")
        run_input(ctx, ux, inp)
    histories(ctx, ux)
    for sspec, dspec, tag in eq_pairs(ctx, ux):
        env = Env(ux, sspec, dspec, tag)
        if not env.eq_distinct:
            ctx.notes.append(f"generator: {tag} is not an equal-but-distinct pair")
        for case in cases_for(ctx, env, ctx.n(10, 18)):
            run_case(ctx, ux, env, case)
    pairs = grid_pairs(ctx)
    budget = ctx.n(8, 18)
    for sspec, dspec, tag in pairs:
        env = Env(ux, sspec, dspec, tag)
        for case in cases_for(ctx, env, budget):
            run_case(ctx, ux, env, case)
    ctx.extra["near_ties_discarded"] = ctx.stats.get("near-tie-discarded", 0)
    ctx.extra["destination_points_judged"] = ctx.stats.get("dest-points-judged", 0)


def run_input(ctx, ux, inp):
    """re-run exactly one stored input (a single remap, or a history ending in a remap)"""
    env = Env(ux, inp["source"], inp["destination"], inp.get("tag", "replay"))
    if "history" not in inp:
        run_case(ctx, ux, env, dict(inp["case"]))
        return
    # re-run the whole history: the earlier remaps prime the caches exactly as they did
    hist = []
    for step in inp["history"]:
        if step["op"] == "mutate":
            mutate(ux, env, step)
            if step["how"] == "set" and step["side"] == "s":
                env.notes.discard("welzl")
        else:
            run_case(ctx, ux, env, dict(step["case"]), hist=hist, after=step.get("after"))
        hist.append(step)
    run_case(ctx, ux, env, dict(inp["case"]), hist=hist, after=inp.get("after"))


def replay(ctx, rp):
    import uxarray as ux

    code_eps(ctx)
    run_input(ctx, ux, rp["input"])
