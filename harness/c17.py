"""C17 — topological aggregations reduce over exactly each element's nodes.

Lean side: `agg_face_eq` (Props/C17.lean) — for every reduction and every partition data meeting
`PartsOK`, the scatter/gather loop equals the per-face reduction.  Tie: (a) `PartsOK` is evaluated
by the Lean driver on the partitions the real `get_face_node_partitions` returns; (b) the model's
loop, run by the driver with exact integer reductions (sum/prod/min/max/all/any), must equal the
implementation; (c) THE VERDICT on the values of all ten reductions comes from Lean: every input
value and every output is an exact rational (`fractions.Fraction` of the float64/int/bool), the
driver computes the exact reduction (`Aggregate.core`, over ℚ) of exactly the element's corner values
and decides `accepts` (|out − exact| ≤ a rounding allowance derived from the row length and Σ|x|;
none for min/max/all/any; std through its square).  NumPy applied by the harness to the element's
own nodes is only a cross-check of the MODEL of the reductions (it must be accepted by the same judge).
"""

from __future__ import annotations

import numpy as np

import ast
import json
import math
from fractions import Fraction

from . import common, meshes
from .common import INT_FILL, enc_ints, enc_pairs, enc_rows

AGGS = ["mean", "max", "min", "prod", "sum", "std", "var", "median", "all", "any"]
EXACT = {"sum": 0, "prod": 1, "min": 2, "max": 3, "all": 4, "any": 5}
NP = dict(mean=np.mean, max=np.max, min=np.min, prod=np.prod, sum=np.sum, std=np.std, var=np.var,
          median=np.median, all=np.all, any=np.any)


RED = {a: i for i, a in enumerate(["mean", "max", "min", "prod", "sum", "std", "var", "median", "all", "any"])}


def enc_rat(x):
    """exact rational `num den` of a float64/int/bool; `0 0` for nan/inf"""
    if isinstance(x, (bool, np.bool_)):
        return "1 1" if x else "0 1"
    if isinstance(x, (int, np.integer)):
        return f"{int(x)} 1"
    x = float(x)
    if not math.isfinite(x):
        return "0 0"
    f = Fraction(x)
    return f"{f.numerator} {f.denominator}"


def enc_rats(l):
    l = list(l)
    return " ".join([str(len(l))] + [enc_rat(x) for x in l])


def dec_orats(tok):
    n = tok.int()
    out = []
    for _ in range(n):
        a, b = tok.int(), tok.int()
        out.append(None if b == 0 else Fraction(a, b))
    return out


def dec_opt(s):
    t = s.split()
    return [None if x == "n" else int(x) for x in t[1:]]


def make_data(rng, n, lead, dtype):
    shape = tuple(lead) + (n,)
    size = int(np.prod(shape))
    if dtype == "int":
        a = np.array([rng.randint(-3, 3) for _ in range(size)], dtype=np.int64)
    elif dtype == "bool":
        a = np.array([rng.random() < 0.7 for _ in range(size)], dtype=bool)
    elif dtype == "wild":
        # arbitrary mantissas over several decades (sums, products and squares all round), with zeros
        a = np.array([0.0 if rng.random() < 0.1 else rng.uniform(-1, 1) * 10.0 ** rng.randint(-3, 3) for _ in range(size)],
                     dtype=np.float64)
    else:
        a = np.array([rng.choice([-2.5, -1.0, 0.0, 0.5, 1.25, 3.0, 7.75]) for _ in range(size)], dtype=np.float64)
    return a.reshape(shape)


def lean_judge(ctx, kind, agg, ddof, struct, rows_data, rows_out):
    """ask Lean for the verdict on every leading slice; returns (all_ok, loop_same, first_bad, model_values)"""
    ok, same, bad, vals = True, True, None, []
    for li, (drow, orow) in enumerate(zip(rows_data, rows_out)):
        r = common.Tok(ctx.driver.ask(kind, RED[agg], ddof, struct, enc_rats(drow), enc_rats(orow)))
        v = r.int()
        if kind == "C17.qface":
            same = same and r.int() == 1
        fb = r.int()
        vals.append(dec_orats(r))
        if v != 1:
            ok = False
            if bad is None:
                bad = [li, fb]
    return ok, same, bad, vals


def judge(ctx, m, tag, subset=None):
    import uxarray as ux
    from uxarray.grid.connectivity import get_face_node_partitions

    rng, d = ctx.rng, ctx.driver
    g = meshes.to_grid(m, ux)
    t = m.rows()
    N = [int(x) for x in g.n_nodes_per_face.values]
    E = [(int(a), int(b)) for a, b in g.edge_node_connectivity.values]
    inp0 = dict(mesh=m.describe(), table=t, tag=tag)
    # (a) the real partition function, judged by the Lean predicate
    change, perm, sizes, counts = get_face_node_partitions(g.n_nodes_per_face.values)
    parts = dict(change=[int(x) for x in change], perm=[int(x) for x in perm], sizes=[int(x) for x in sizes])
    enc_parts = " ".join([enc_ints(parts["change"]), enc_ints(parts["perm"]), enc_ints(parts["sizes"])])
    ok = d.ask("C17.parts", m.n_face, enc_ints(N), enc_parts)
    ctx.hit("sizes=%d" % len(parts["sizes"]))
    if ok != "1":
        ctx.fail("C17/partitions", "get_face_node_partitions does not group faces by size (Lean PartsOK fails)", inp0, parts, None, ["PartsOK"])
    mp = common.Tok(d.ask("C17.modelparts", enc_ints(N), enc_ints(parts["perm"])))
    if (mp.ints(), mp.ints()) != (parts["change"], parts["sizes"]):
        ctx.mismatch("C17/partition-arrays", inp0, parts, None)
    if d.ask("C17.sorts", enc_ints(N), enc_ints(parts["perm"])) != "1":
        ctx.mismatch("C17/argsort-sorts", inp0, parts, None)

    # hypotheses of the end-to-end theorems (agg_face_real_corners, agg_edge_real_endpoints), decided by Lean on the
    # REAL tables of the grid under test; they are C02's subject, so a failure is recorded, not judged here
    real_t = [[int(v) for v in r] for r in g.face_node_connectivity.values]
    hy = d.ask("C17.hyps", m.n_node, len(real_t[0]), enc_rows(real_t), enc_pairs(E)).split()
    ctx.hit("hyp:StdForm=" + hy[0])
    ctx.hit("hyp:EdgesSound=" + hy[1])
    if hy != ["1", "1"]:
        ctx.notes.append(f"C17 hypotheses not met by the real tables of {m.describe()}: StdForm={hy[0]} EdgesSound={hy[1]} (C02's subject)")
    if tuple(tuple(r) for r in real_t) != tuple(tuple(r) for r in t):
        ctx.mismatch("C17/table-of-grid", inp0, real_t, None)

    combos = []
    for agg in AGGS:
        for dest in ("face", "edge"):
            combos.append((agg, dest))
    rng.shuffle(combos)
    for agg, dest in combos[: ctx.n(6, 20)]:
        dtype = rng.choice(["int", "float", "bool", "wild"])
        lead = [rng.randint(1, 3) for _ in range(rng.choice([0, 0, 1, 2]))]
        data = make_data(rng, m.n_node, lead, dtype)
        dims = [f"d{i}" for i in range(len(lead))] + ["n_node"]
        # both branches of _node_to_{face,edge}_aggregation: NumPy-backed and dask-backed (chunked) sources
        backing = "dask" if rng.random() < 0.25 else "numpy"
        if backing == "dask":
            import dask.array as da

            src = da.from_array(data, chunks=tuple(rng.randint(1, max(1, n)) for n in data.shape))
        else:
            src = data
        uxda = ux.UxDataArray(src, dims=dims, uxgrid=g, name="v")
        ctx.hit("backing=" + backing)
        # the keyword arguments are forwarded to the NumPy reduction: std/var with the ddof the caller passes
        ddof = 1 if agg in ("std", "var") and rng.random() < 0.3 else 0
        kw = dict(ddof=1) if ddof else {}
        inp = dict(inp0, agg=agg, destination=dest, dtype=dtype, lead=lead, data=data.tolist(), kwargs=kw, backing=backing)
        key = (tag, t, agg, dest, dtype, ddof, tuple(lead), data.tobytes().hex()[:64])
        ctx.case(key, nontrivial=len(set(N)) > 1 or dest == "edge", sample=inp if m.n_face <= 2 and not lead else None)
        ctx.hit(f"{agg}->{dest}")
        ctx.hit(f"dtype={dtype}")
        ctx.hit(f"rank={len(lead)+1}")
        ctx.hit("mixed-sizes" if len(set(N)) > 1 else "uniform-sizes")
        try:
            res = getattr(uxda, f"topological_{agg}")(destination=dest, **kw)
        except Exception as e:
            ctx.fail(f"C17/raises/{agg}->{dest}/{type(e).__name__}", f"topological_{agg}({dest}) raises {type(e).__name__}: {e}", inp)
            continue
        out = np.asarray(res.values)
        edim = "n_face" if dest == "face" else "n_edge"
        want_dims = tuple(dims[:-1] + [edim])
        obs = dict(values=out.tolist(), dims=list(res.dims), type=type(res).__name__)
        if tuple(res.dims) != want_dims or out.shape != tuple(lead) + ((m.n_face if dest == "face" else len(E)),):
            ctx.fail(f"C17/dims/{dest}", f"result dims {res.dims} != {want_dims}", inp, obs, None, ["agg_dims"])
            continue
        if not isinstance(res, ux.UxDataArray) or res.uxgrid is not g:
            ctx.fail(f"C17/grid/{dest}", "result is not a UxDataArray on the same grid", inp, obs, None, ["same_grid"])
        # (c) the verdict: Lean reduces exactly the element's corner values over ℚ and decides whether each
        # output is within the rounding allowance (every leading slice)
        elems = m.faces if dest == "face" else [list(e) for e in E]
        flatd = data.reshape(-1, m.n_node)
        flato = out.reshape(-1, out.shape[-1])
        if dest == "face":
            ok, same, bad, vals = lean_judge(ctx, "C17.qface", agg, ddof, enc_rows(t) + " " + enc_parts, flatd, flato)
            if not same:
                ctx.mismatch("C17/loop-rows-vs-corner-rows", inp, None, None)
        else:
            ok, same, bad, vals = lean_judge(ctx, "C17.qedge", agg, ddof, enc_pairs(E), flatd, flato)
        ctx.hit("lean-judged:" + agg)
        if ddof:
            ctx.hit("ddof=1")
        if not ok:
            li, fb = bad
            mv = vals[li][fb] if 0 <= fb < len(vals[li]) else None
            ctx.fail(f"C17/value/{dest}", f"topological_{agg}({dest}{', ddof=1' if ddof else ''}) is not the reduction over the element's own nodes: "
                     f"leading slice {li}, element {fb}: got {flato[li][fb] if 0 <= fb < len(flato[li]) else None}, exact "
                     f"{'square ' if agg == 'std' else ''}value {None if mv is None else float(mv)} (Lean accepts=false)",
                     inp, obs, dict(exact=[[None if v is None else float(v) for v in vs] for vs in vals]),
                     ["agg_face_eq" if dest == "face" else "agg_edge_eq", "accepts"])
            continue
        # cross-check of the MODEL of the reductions: NumPy's own reduction on exactly the element's nodes must
        # be accepted by the same judge
        ref = np.stack([NP[agg](data[..., el], axis=-1, **kw) for el in elems], axis=-1)
        flatr = ref.reshape(-1, ref.shape[-1])
        if dest == "face":
            okr, _, _, _ = lean_judge(ctx, "C17.qref", agg, ddof, enc_rows(t), flatd, flatr)
        else:
            okr, _, _, _ = lean_judge(ctx, "C17.qedge", agg, ddof, enc_pairs(E), flatd, flatr)
        if not okr:
            ctx.mismatch("C17/reduction-model-vs-numpy", inp, ref.tolist(), [[None if v is None else float(v) for v in vs] for vs in vals])
        # (b) the Lean model's loop with an exact integer reduction
        if agg in EXACT and dtype in ("int", "bool") and (agg != "prod" or True):
            flat = data.reshape(-1, m.n_node)
            outf = out.reshape(-1, out.shape[-1])
            for row, orow in zip(flat[:2], outf[:2]):
                ints = [int(x) for x in row]
                if dest == "face":
                    mod = dec_opt(d.ask("C17.face", EXACT[agg], enc_rows(t), enc_parts, enc_ints(ints)))
                    ref2 = dec_opt(d.ask("C17.ref", EXACT[agg], enc_rows(t), enc_ints(N), enc_ints(ints)))
                    if mod != ref2:
                        ctx.mismatch("C17/model-vs-faceRef", inp, None, dict(model=mod, ref=ref2))
                else:
                    mod = common.Tok(d.ask("C17.edge", EXACT[agg], enc_pairs(E), enc_ints(ints))).ints()
                if None in mod or [float(x) for x in mod] != [float(x) for x in orow]:
                    ctx.mismatch(f"C17/model-vs-impl/{dest}", inp, orow.tolist(), mod)
                ctx.hit("lean-model-compared")
    if m.n_face >= 2 and subset is not False:
        for _ in range(1 if subset is None else 1):
            judge_subset(ctx, ux, g, m, inp0, subset)


def judge_subset(ctx, ux, g, m, inp0, idx=None):
    """A sub-grid is a grid: after the parent's derived tables (n_nodes_per_face, …) exist, slice
    node-centred data to a random face subset through the public isel and aggregate THERE; the
    reference is the reduction over each sub-grid face's own nodes as the sub-grid reports them
    (stale per-grid side tables carried over from the parent show up as wrong values)."""
    rng = ctx.rng
    if idx is None:
        k = rng.randint(1, max(1, m.n_face - 1))
        idx = rng.sample(range(m.n_face), k)
        if rng.random() < 0.5:
            idx = sorted(idx)
    lead = [rng.randint(1, 2) for _ in range(rng.choice([0, 1]))]
    data = make_data(rng, m.n_node, lead, rng.choice(["float", "wild"]))
    dims = [f"d{i}" for i in range(len(lead))] + ["n_node"]
    uxda = ux.UxDataArray(data, dims=dims, uxgrid=g, name="v")
    inp = dict(inp0, subset_faces=[int(i) for i in idx], lead=lead, data=data.tolist())
    try:
        sub = uxda.isel(n_face=idx)
        conn = sub.uxgrid.face_node_connectivity.values
        sizes = sorted({int((r != INT_FILL).sum()) for r in conn})
        vals = np.asarray(sub.values)
    except Exception as e:  # slicing itself is C09's subject: not judged here
        ctx.hit("subset:isel-raised:" + type(e).__name__)
        return
    faces = [[int(v) for v in r if v != INT_FILL] for r in conn]
    # hypotheses of agg_subgrid_commutes on the REAL sub-grid (slicing is C09's subject: recorded, not judged):
    # its table is the model's subTable of the parent table under a renumbering with ren x = FILL ↔ x = FILL, and
    # the sub-grid's node values are the parent's carried along the renumbering
    par_t = m.rows()
    ren, hyp = {}, conn.shape[0] == len(idx)
    for i, f in enumerate(idx):
        if not hyp or len(par_t[f]) != conn.shape[1]:
            hyp = False
            break
        for a, b in zip(par_t[f], conn[i]):
            if ren.setdefault(int(a), int(b)) != int(b) or ((a == INT_FILL) != (b == INT_FILL)):
                hyp = False
    if hyp:
        renl = [ren.get(x, INT_FILL) for x in range(m.n_node)]
        st = common.Tok(ctx.driver.ask("C17.subtable", enc_rows(par_t), enc_ints(idx), enc_ints(renl))).rows()
        hyp = [list(r) for r in st] == [[int(v) for v in r] for r in conn] and all(
            np.array_equal(vals[..., b], data[..., a], equal_nan=True) for a, b in ren.items() if a != INT_FILL)
    ctx.hit("subset:hyps-of-agg_subgrid_commutes=" + ("1" if hyp else "0"))
    for agg in rng.sample(["mean", "max", "min", "sum", "median"], 2):
        ctx.case(("subset", m.rows(), tuple(idx), agg, data.tobytes().hex()[:48]), nontrivial=True)
        ctx.hit("subset:" + ("mixed" if len(sizes) > 1 else "uniform") + "-sizes")
        try:
            res = getattr(sub, f"topological_{agg}")(destination="face")
        except Exception as e:
            ctx.fail(f"C17/subset/raises/{agg}/{type(e).__name__}", f"topological_{agg} on a sub-grid raises {type(e).__name__}: {e}", inp)
            continue
        out = np.asarray(res.values, dtype=float)
        want_shape = tuple(vals.shape[:-1]) + (len(faces),)
        sub_t = tuple(tuple(int(v) for v in r) for r in conn)
        okl = out.shape == want_shape
        mvals = None
        if okl:
            # verdict from Lean: exact reduction of the sub-grid's own corner values
            okl, _, bad, mvals = lean_judge(ctx, "C17.qref", agg, 0, enc_rows(sub_t), vals.reshape(-1, vals.shape[-1]),
                                            out.reshape(-1, out.shape[-1]))
        ctx.hit("lean-judged:subset")
        if not okl:
            ctx.fail("C17/subset/value/face", f"topological_{agg}(face) on the sub-grid isel(n_face={list(idx)}) differs from the reduction over each "
                     "sub-grid face's own nodes (Lean accepts=false)", inp, dict(values=out.tolist(), subgrid_faces=faces),
                     dict(exact=None if mvals is None else [[None if v is None else float(v) for v in vs] for vs in mvals]), ["agg_face_eq", "accepts"])
            continue
        ref = np.stack([NP[agg](vals[..., f], axis=-1) for f in faces], axis=-1).astype(float)
        okr, _, _, _ = lean_judge(ctx, "C17.qref", agg, 0, enc_rows(sub_t), vals.reshape(-1, vals.shape[-1]), ref.reshape(-1, ref.shape[-1]))
        if not okr:
            ctx.mismatch("C17/reduction-model-vs-numpy", inp, ref.tolist(), None)


DISPATCH = [("n_node", 0), ("n_edge", 1), ("n_face", 2), ("x", 3)]
DESTS = [("node", 0), ("edge", 1), ("face", 2), (None, 3), ("cell", 4)]


class _Shape(Exception):
    """the source no longer has the shape the table extractor understands"""


def source_tables(ux):
    """Regenerate the model's tables FROM THE SOURCE of the tree under test (ast, nothing executed):
    (1) the decision table of `_uxda_grid_aggregate` — for every (element centre, destination) the terminal
        statement its if/elif chain reaches (return of the node→face / node→edge worker, or the exception raised);
    (2) method → reduction: every `UxDataArray.topological_<m>` forwards to `_uxda_grid_aggregate(self, destination,
        "<a>", **kwargs)` and `NUMPY_AGGREGATIONS["<a>"]` is `np.<f>`; the composition m ↦ f.
    Raises _Shape when the code is not of that form any more (a correspondence failure, not a verdict)."""
    import inspect

    import uxarray.core.aggregation as A
    import uxarray.core.dataarray as D

    tree = ast.parse(inspect.getsource(A))
    fn = next((n for n in tree.body if isinstance(n, ast.FunctionDef) and n.name == "_uxda_grid_aggregate"), None)
    if fn is None:
        raise _Shape("no _uxda_grid_aggregate")
    an = [a.arg for a in fn.args.args]
    if len(an) < 3:
        raise _Shape("signature of _uxda_grid_aggregate")
    uxda_n, dest_n = an[0], an[1]
    PRED = {"_node_centered": "n_node", "_edge_centered": "n_edge", "_face_centered": "n_face"}

    def val(node, env):
        if isinstance(node, ast.Constant):
            return node.value
        if isinstance(node, ast.Name) and node.id == dest_n:
            return env["dest"]
        if (isinstance(node, ast.Call) and not node.args and not node.keywords and isinstance(node.func, ast.Attribute)
                and isinstance(node.func.value, ast.Name) and node.func.value.id == uxda_n and node.func.attr in PRED):
            return env["centre"] == PRED[node.func.attr]
        if isinstance(node, ast.UnaryOp) and isinstance(node.op, ast.Not):
            return not val(node.operand, env)
        if isinstance(node, ast.BoolOp):
            vs = [val(v, env) for v in node.values]
            return all(vs) if isinstance(node.op, ast.And) else any(vs)
        if isinstance(node, ast.Compare) and len(node.ops) == 1:
            a, b, op = val(node.left, env), val(node.comparators[0], env), node.ops[0]
            if isinstance(op, ast.Is):
                return a is b
            if isinstance(op, ast.IsNot):
                return a is not b
            if isinstance(op, ast.Eq):
                return a == b
            if isinstance(op, ast.NotEq):
                return a != b
            if isinstance(op, ast.In) and isinstance(node.comparators[0], (ast.List, ast.Tuple, ast.Set)):
                return a in [val(e, env) for e in node.comparators[0].elts]
        if isinstance(node, (ast.List, ast.Tuple)):
            return [val(e, env) for e in node.elts]
        raise _Shape("condition " + ast.dump(node)[:80])

    def cname(node):
        if isinstance(node, ast.Call):
            node = node.func
        if isinstance(node, ast.Name):
            return node.id
        if isinstance(node, ast.Attribute):
            return node.attr
        raise _Shape("callee " + ast.dump(node)[:80])

    def walk(stmts, env):
        for st in stmts:
            if isinstance(st, ast.Expr) and isinstance(st.value, ast.Constant):
                continue
            if isinstance(st, ast.If):
                r = walk(st.body if val(st.test, env) else st.orelse, env)
                if r is not None:
                    return r
                continue
            if isinstance(st, ast.Raise) and st.exc is not None:
                return cname(st.exc)
            if isinstance(st, ast.Return) and st.value is not None:
                return {"_node_to_face_aggregation": "toFace", "_node_to_edge_aggregation": "toEdge"}.get(cname(st.value), "return:" + cname(st.value))
            raise _Shape("statement " + type(st).__name__)
        return None

    table = {}
    for dim, c in DISPATCH:
        for dest, dc in DESTS:
            table[(c, dc)] = walk(fn.body, dict(centre=dim, dest=dest)) or "fallthrough"

    # NUMPY_AGGREGATIONS
    npmap = None
    for n in tree.body:
        if isinstance(n, ast.Assign) and any(isinstance(t, ast.Name) and t.id == "NUMPY_AGGREGATIONS" for t in n.targets) and isinstance(n.value, ast.Dict):
            npmap = {}
            for k, v in zip(n.value.keys, n.value.values):
                if not (isinstance(k, ast.Constant) and isinstance(v, ast.Attribute) and isinstance(v.value, ast.Name) and v.value.id == "np"):
                    raise _Shape("NUMPY_AGGREGATIONS entry")
                npmap[k.value] = v.attr
    if npmap is None:
        raise _Shape("no NUMPY_AGGREGATIONS dict")
    dtree = ast.parse(inspect.getsource(D))
    cls = next((n for n in dtree.body if isinstance(n, ast.ClassDef) and n.name == "UxDataArray"), None)
    if cls is None:
        raise _Shape("no class UxDataArray")
    meth = {}
    for n in cls.body:
        if isinstance(n, ast.FunctionDef) and n.name.startswith("topological_"):
            body = [b for b in n.body if not (isinstance(b, ast.Expr) and isinstance(b.value, ast.Constant))]
            if not (len(body) == 1 and isinstance(body[0], ast.Return) and isinstance(body[0].value, ast.Call) and cname(body[0].value) == "_uxda_grid_aggregate"):
                raise _Shape("body of " + n.name)
            call = body[0].value
            a = call.args
            if not (len(a) == 3 and isinstance(a[0], ast.Name) and a[0].id == "self" and isinstance(a[1], ast.Name) and a[1].id == "destination"
                    and isinstance(a[2], ast.Constant) and [k.arg for k in call.keywords] == [None]):
                raise _Shape("forwarding call of " + n.name)
            if a[2].value not in npmap:
                raise _Shape(f"{n.name} forwards unknown aggregation {a[2].value!r}")
            meth[n.name[len("topological_"):]] = npmap[a[2].value]
    return table, meth


def source_correspondence(ctx):
    """the Lean decision table `dispatch` (theorem agg_rejects) and the reduction enumeration `Red` against the
    tables regenerated from the source; any difference is a correspondence failure"""
    import uxarray as ux

    try:
        table, meth = source_tables(ux)
    except _Shape as e:
        ctx.mismatch("C17/source-shape", dict(what=str(e)), None, None)
        return
    for (c, dc), got in sorted(table.items()):
        want = ctx.driver.ask("C17.dispatch", c, dc)
        ctx.case(("dispatch-source", c, dc), nontrivial=True)
        ctx.hit("dispatch-from-source:" + got)
        if got != want:
            ctx.mismatch("C17/dispatch-table-from-source", dict(centre=DISPATCH[c][0], destination=DESTS[dc][0]), got, want)
    want = {a: a for a in AGGS}
    if meth != want:
        ctx.mismatch("C17/reduction-table-from-source", dict(what="topological_<m> -> np.<f> as written in the source"), meth, want)
    ctx.hit("reduction-table-from-source", len(meth))


def errors(ctx, m):
    """unsupported source/destination combinations must raise (decision table vs the Lean model)"""
    import uxarray as ux

    g = meshes.to_grid(m, ux)
    sizes = dict(n_node=m.n_node, n_edge=int(g.n_edge), n_face=m.n_face, x=m.n_node + 1)
    for dim, c in DISPATCH:
        for dest, dc in DESTS:
            uxda = ux.UxDataArray(np.arange(sizes[dim], dtype=float), dims=[dim], uxgrid=g, name="v")
            want = ctx.driver.ask("C17.dispatch", c, dc)
            try:
                r = uxda.topological_mean(destination=dest)
                got = "toFace" if "n_face" in r.dims else "toEdge" if "n_edge" in r.dims else "value"
            except Exception as e:
                got = type(e).__name__
            inp = dict(mesh=m.describe(), table=m.rows(), centre=dim, destination=dest)
            ctx.case(("dispatch", m.rows(), dim, dest), nontrivial=True)
            ctx.hit(f"dispatch:{dim}->{dest}:{got}")
            supported = dim == "n_node" and dest in ("face", "edge")
            if not supported and got in ("toFace", "toEdge", "value"):
                ctx.fail(f"C17/no-raise/{dim}->{dest}", f"unsupported aggregation {dim}->{dest} returned numbers instead of raising", inp, got, want, ["agg_rejects"])
            elif supported and got != want:
                ctx.fail(f"C17/dispatch/{dim}->{dest}", f"supported aggregation {dim}->{dest} gave {got}", inp, got, want, ["agg_rejects"])
            elif got != want:
                ctx.mismatch("C17/dispatch-table", inp, got, want)


def supplied_grid(ux, m, S, via):
    """a grid whose SOURCE carries the edge table S (public constructors only)"""
    if via == "from_topology":
        return meshes.to_grid(m, ux, edge_node_connectivity=S.copy())
    import xarray as xr

    ds = xr.Dataset()
    ds["Mesh2"] = xr.DataArray(np.int32(0), attrs=dict(cf_role="mesh_topology", topology_dimension=2, node_coordinates="Mesh2_node_x Mesh2_node_y",
                                                      face_node_connectivity="Mesh2_face_nodes", edge_node_connectivity="Mesh2_edge_nodes"))
    ds["Mesh2_node_x"] = xr.DataArray(m.lon.copy(), dims=["nMesh2_node"], attrs=dict(standard_name="longitude", units="degrees_east"))
    ds["Mesh2_node_y"] = xr.DataArray(m.lat.copy(), dims=["nMesh2_node"], attrs=dict(standard_name="latitude", units="degrees_north"))
    ds["Mesh2_face_nodes"] = xr.DataArray(m.table().copy(), dims=["nMesh2_face", "nMaxMesh2_face_nodes"],
                                          attrs=dict(cf_role="face_node_connectivity", _FillValue=INT_FILL, start_index=0))
    ds["Mesh2_edge_nodes"] = xr.DataArray(S.copy(), dims=["nMesh2_edge", "Two"], attrs=dict(cf_role="edge_node_connectivity", start_index=0))
    return ux.open_grid(ds)


READS = ["edge_face_connectivity", "face_face_connectivity", "n_max_face_edges", "face_edge_connectivity", "isel"]


def judge_supplied_edges(ctx, m, fixed=None):
    """Grids WITH A SOURCE-SUPPLIED edge table: a random permutation of the edges with a random orientation per row.
    The elements of destination='edge' are the SOURCE's edges: value i must be the reduction over the two nodes of
    supplied row i (Lean gathers from the supplied table; agg_edge_orientation_irrelevant: orientation is immaterial).
    Each case is judged twice on the same grid — fresh, and after a random read that derives face_edge_connectivity —
    the two results must be equal and the grid's edge table must still be the supplied one."""
    import uxarray as ux

    rng = ctx.rng
    segs = sorted({tuple(sorted((f[i], f[(i + 1) % len(f)]))) for f in m.faces for i in range(len(f))})
    rng.shuffle(segs)
    S = np.array([(a, b) if rng.random() < 0.5 else (b, a) for a, b in segs], dtype=np.int64)
    Sl = [(int(a), int(b)) for a, b in S]
    via = rng.choice(["from_topology", "ugrid-dataset"])
    read = rng.choice(READS)
    agg = rng.choice(AGGS)
    dtype = rng.choice(["int", "float", "bool", "wild"])
    lead = [rng.randint(1, 2) for _ in range(rng.choice([0, 0, 1]))]
    data = make_data(rng, m.n_node, lead, dtype)
    if fixed is not None:  # replay: exactly the recorded case
        S = np.array(fixed["supplied_edges"], dtype=np.int64).reshape(-1, 2)
        Sl = [(int(a), int(b)) for a, b in S]
        via, read, agg, dtype, lead = fixed["via"], fixed["read"], fixed["agg"], fixed["dtype"], list(fixed["lead"])
        data = np.array(fixed["data"], dtype={"int": np.int64, "bool": bool}.get(dtype, np.float64)).reshape(tuple(lead) + (m.n_node,))
    dims = [f"d{i}" for i in range(len(lead))] + ["n_node"]
    inp = dict(mesh=m.describe(), table=m.rows(), supplied_edges=Sl, via=via, read=read, agg=agg, dtype=dtype, lead=lead, data=data.tolist())
    ctx.case(("supplied-edges", m.rows(), tuple(Sl), via, read, agg, dtype, data.tobytes().hex()[:48]), nontrivial=True)
    ctx.hit("supplied-edges:via=" + via)
    ctx.hit("supplied-edges:read=" + read)
    try:
        g = supplied_grid(ux, m, S, via)
        uxda = ux.UxDataArray(data, dims=dims, uxgrid=g, name="v")
    except Exception as e:  # constructing from a source is C01's subject
        ctx.hit("supplied-edges:construct-raised:" + type(e).__name__)
        return
    results = {}
    for phase in ("fresh", "after-" + read):
        if phase != "fresh":
            try:
                if read == "isel":
                    uxda.isel(n_face=[rng.randrange(m.n_face)])
                else:
                    getattr(g, read)
            except Exception as e:  # the derivation itself is C02/C03/C09's subject
                ctx.hit(f"supplied-edges:{read}-raised:" + type(e).__name__)
                return
        try:
            res = getattr(uxda, f"topological_{agg}")(destination="edge")
            out = np.asarray(res.values)
            Eg = np.asarray(g.edge_node_connectivity.values)
        except Exception as e:
            ctx.fail(f"C17/supplied-edges/raises/{phase.split('-')[0]}/{type(e).__name__}", f"topological_{agg}(edge) on a grid with a supplied edge table raises "
                     f"{type(e).__name__} ({phase}): {e}", inp)
            return
        results[phase] = out
        obs = dict(phase=phase, values=out.tolist(), edge_node_connectivity=Eg.tolist())
        kept = Eg.shape == S.shape and np.array_equal(Eg, S)
        if out.shape != tuple(lead) + (len(Sl),):
            ctx.fail("C17/supplied-edges/dims", f"result shape {out.shape} for {len(Sl)} supplied edges ({phase})", inp, obs, None, ["agg_dims"])
            return
        ok, _, bad, vals = lean_judge(ctx, "C17.qedge", agg, 0, enc_pairs(Sl), data.reshape(-1, m.n_node), out.reshape(-1, out.shape[-1]))
        ctx.hit("lean-judged:supplied-edges:" + ("fresh" if phase == "fresh" else "after-read"))
        if not ok:
            li, fb = bad
            ctx.fail("C17/supplied-edges/value/" + ("fresh" if phase == "fresh" else "after-read"),
                     f"topological_{agg}(edge), {phase}: value {fb} (leading slice {li}) is not the reduction over the two nodes {Sl[fb] if 0 <= fb < len(Sl) else None} "
                     f"of the source's edge {fb} (Lean accepts=false); the grid's edge table is {'still' if kept else 'NO LONGER'} the supplied one",
                     inp, obs, dict(exact=[[None if v is None else float(v) for v in vs] for vs in vals]), ["agg_edge_eq", "accepts"])
        elif not kept:
            ctx.fail("C17/supplied-edges/table-replaced/" + ("fresh" if phase == "fresh" else "after-read"),
                     f"the grid's edge_node_connectivity is not the table the source supplied ({phase}): the elements of destination='edge' changed", inp, obs, None,
                     ["agg_edge_eq"])
    a, b = results.values()
    if a.shape != b.shape or not np.array_equal(a, b, equal_nan=a.dtype.kind == "f"):
        ctx.fail("C17/supplied-edges/changed-after-read", f"topological_{agg}(edge) on the same grid and data changed after reading {read}", inp,
                 dict(fresh=a.tolist(), after=b.tolist()), None, ["agg_edge_eq"])


# ---- the INPUT CONVENTION of the grid is a random dimension; the truth is the SOURCE description ----

def draw_convention(rng, m):
    """a source in one of the readers' input conventions, drawn by C01's own generators (harness/c01.py, imported):
    from_topology / open_grid(dict) with (fill_value, start_index) in {(INT_FILL,0), (-1,0), (0,1), (-1,1), (999999,0), (n_node,0),
    NaN-padded float, none} x int32/int64/float64, or a UGRID dataset in one of C01's dialects (optionally carrying its own
    edge table in its own dialect)."""
    from . import c01

    if rng.random() < 0.6:
        case = c01.gen_topology(rng, m)
        dl = case["dialect"]
        if rng.random() < 0.7:  # the listed conventions, uniformly (gen_topology alone rarely draws some of them)
            fill, base = rng.choice([(INT_FILL, 0), (-1, 0), (0, 1), (0, 1), (-1, 1), (999999, 0), (m.n_node, 0), ("nan", rng.choice([0, 1]))])
            dl["fill"], dl["base"] = fill, base
            dl["store"] = "f64" if fill == "nan" else "i64" if fill == INT_FILL else rng.choice(["i32", "i64", "f64"])
            dl["extra_w"] = rng.choice([0, 0, 1])
    else:
        case = c01.gen_ugrid(rng, m)
        case["via_file"] = False
        tabs = case["dialect"].get("tables") or {}
        # only the source's own edge table is kept (exactly two columns: an edge has two nodes, never padding)
        case["dialect"]["tables"] = {k: dict(v, extra_w=0) for k, v in tabs.items() if k == "edge_node_connectivity"}
    return common._jsonable(case)


def convention_grid(ux, case):
    """build the grid from the drawn source (public constructors only); returns (grid, supplied edge list or None)"""
    import xarray as xr

    from . import c01

    dl, faces, n = case["dialect"], case["faces"], len(case["lon"])
    if case["fmt"] == "topology":
        w = max(map(len, faces)) + dl["extra_w"]
        arr = c01.conn_array(faces, w, dl["base"], dl["fill"], dl["store"])
        fv = None if dl["fill"] is None else (np.nan if dl["fill"] == "nan" else dl["fill"])
        kw = dict(node_lon=c01.src_lon(case), node_lat=np.asarray(case["lat"], float), face_node_connectivity=arr, fill_value=fv, start_index=dl["base"])
        return (ux.open_grid(kw) if dl.get("api") == "dict" else ux.Grid.from_topology(**kw)), None
    nm = dl["names"]

    def table(rows, t):
        w = max(map(len, rows)) + t["extra_w"]
        fill = t["fill"]
        if fill is None and any(len(r) != w for r in rows):
            fill = -1
        declared = t["declared"] or not any(0 in r for r in rows)  # an undeclared base only where index 0 is used (C01's quantifier)
        at = {}
        if fill == "nanattr":
            at["_FillValue"] = np.nan
        elif fill not in (None, "nan"):
            at["_FillValue"] = c01.NP_STORE[t["store"]](fill)
        if declared:
            at["start_index"] = np.int32(t["base"])
        return c01.conn_array(rows, w, t["base"], fill, t["store"]), at

    ds = xr.Dataset()
    ds[nm["mesh"]] = xr.DataArray(np.int32(0), attrs=dict(cf_role="mesh_topology", topology_dimension=2, node_coordinates=f"{nm['x']} {nm['y']}",
                                                         face_node_connectivity=nm["conn"]))
    ds[nm["x"]] = xr.DataArray(c01.src_lon(case), dims=[nm["nd"]], attrs=dict(standard_name="longitude", units="degrees_east"))
    ds[nm["y"]] = xr.DataArray(np.asarray(case["lat"], float), dims=[nm["nd"]], attrs=dict(standard_name="latitude", units="degrees_north"))
    arr, at = table(faces, dl)
    ds[nm["conn"]] = xr.DataArray(arr, dims=[nm["fd"], nm["md"]], attrs=dict(at, cf_role="face_node_connectivity"))
    supplied = None
    t = (dl.get("tables") or {}).get("edge_node_connectivity")
    if t:
        supplied = [tuple(int(v) for v in e) for e in c01.ugrid_optional_elements(faces, n)["edge_node_connectivity"][0]]
        earr, eat = table([list(e) for e in supplied], t)
        var = nm["conn"] + "_edge_node"
        if t.get("via") == "cf_role":
            eat["cf_role"] = "edge_node_connectivity"
        else:
            ds[nm["mesh"]].attrs["edge_node_connectivity"] = var
        ds[var] = xr.DataArray(earr, dims=["d0_rows", "d0_cols"], attrs=eat)
    return ux.open_grid(ds), supplied


def judge_convention(ctx, m, fixed=None):
    """"over exactly each element's nodes" judged against the SOURCE: the rows Lean reduces over are the element lists of
    the source description (faces as lists of node positions; the source's edges), NOT the grid's own tables, so a slip
    of the reader/glue code (start_index, fill value, dtype handling) shows as a value failure here.  Second clause, as
    before: the result is the reduction over the rows of the grid's own table (self-consistency)."""
    import uxarray as ux

    rng = ctx.rng
    if fixed is None:
        case = draw_convention(rng, m)
        agg, dest = rng.choice(AGGS), rng.choice(["face", "face", "edge"])
        dtype = rng.choice(["int", "float", "bool", "wild"])
        lead = [rng.randint(1, 2) for _ in range(rng.choice([0, 0, 1]))]
        data = make_data(rng, m.n_node, lead, dtype)
    else:
        case, agg, dest, dtype, lead = fixed["convention_case"], fixed["agg"], fixed["destination"], fixed["dtype"], list(fixed["lead"])
        data = np.array(fixed["data"], dtype={"int": np.int64, "bool": bool}.get(dtype, np.float64)).reshape(tuple(lead) + (m.n_node,))
    dl = case["dialect"]
    conv = f"{case['fmt']}:fill={dl['fill']}/start={dl['base'] if dl.get('declared', True) else 'absent'}/{dl['store']}"
    dims = [f"d{i}" for i in range(len(lead))] + ["n_node"]
    inp = dict(mesh=m.describe(), table=m.rows(), convention_case=case, agg=agg, destination=dest, dtype=dtype, lead=lead, data=data.tolist())
    ctx.case(("convention", m.rows(), json.dumps(case, sort_keys=True), agg, dest, dtype, data.tobytes().hex()[:48]), nontrivial=True)
    ctx.hit("convention:" + conv.replace(str(m.n_node) + "/", "n_node/") if dl["fill"] == m.n_node else "convention:" + conv)
    try:
        g, supplied = convention_grid(ux, case)
        uxda = ux.UxDataArray(data, dims=dims, uxgrid=g, name="v")
    except Exception as e:  # whether the reader accepts the source is C01's subject
        ctx.hit("convention:construct-raised:" + type(e).__name__)
        return
    try:
        res = getattr(uxda, f"topological_{agg}")(destination=dest)
        out = np.asarray(res.values)
        own_t = [[int(v) for v in r] for r in g.face_node_connectivity.values] if dest == "face" else None
        own_E = [tuple(int(v) for v in e) for e in g.edge_node_connectivity.values] if dest == "edge" else None
    except Exception as e:
        ctx.fail(f"C17/source/raises/{dest}/{type(e).__name__}", f"topological_{agg}({dest}) on a grid read from a source in convention {conv} raises "
                 f"{type(e).__name__}: {e}", inp)
        return
    flatd = data.reshape(-1, m.n_node)
    obs = dict(values=out.tolist(), grid_face_node_connectivity=own_t, grid_edge_node_connectivity=own_E)
    if dest == "face":
        src_struct, src_n, kind = enc_rows(m.rows()), m.n_face, "C17.qref"
    else:
        segs = sorted(tuple(sorted((f[i], f[(i + 1) % len(f)]))) for f in m.faces for i in range(len(f)))
        segs = sorted(set(segs))
        if supplied is not None:
            src_E = supplied  # the source numbers its edges itself
        else:
            # the source leaves the edge numbering to the grid: the grid's edges must be exactly the boundary segments
            # of the SOURCE faces (each once, either orientation); the values are then judged row by row
            if sorted(tuple(sorted(e)) for e in own_E) != segs:
                ctx.fail("C17/source/edge-set", f"the edges topological_{agg}(edge) reduces over are not the boundary segments of the source's faces "
                         f"(convention {conv}): {len(own_E)} edges for {len(segs)} segments", inp, obs, dict(source_segments=segs), ["agg_edge_eq"])
                return
            src_E = own_E
        src_struct, src_n, kind = enc_pairs(src_E), len(src_E), "C17.qedge"
    if out.shape != tuple(lead) + (src_n,):
        ctx.fail(f"C17/source/dims/{dest}", f"result shape {out.shape} but the source describes {src_n} {dest}s (convention {conv})", inp, obs, None, ["agg_dims"])
        return
    flato = out.reshape(-1, out.shape[-1])
    ok, _, bad, vals = lean_judge(ctx, kind, agg, 0, src_struct, flatd, flato)
    ctx.hit("lean-judged:source-truth:" + dest)
    if not ok:
        li, fb = bad
        elem = (m.faces[fb] if dest == "face" else src_E[fb]) if 0 <= fb < src_n else None
        ctx.fail(f"C17/source/value/{dest}", f"topological_{agg}({dest}) on a grid read from a source in convention {conv}: value {fb} (leading slice {li}) is not the "
                 f"reduction over the nodes {list(elem) if elem is not None else None} of the SOURCE's {dest} {fb} (Lean accepts=false)", inp, obs,
                 dict(exact=[[None if v is None else float(v) for v in vs] for vs in vals]), ["agg_face_eq" if dest == "face" else "agg_edge_eq", "accepts"])
        return
    # second clause: the reduction over the rows of the grid's OWN table
    if dest == "face":
        ok2, _, _, _ = lean_judge(ctx, "C17.qref", agg, 0, enc_rows(own_t), flatd, flato)
    else:
        ok2, _, _, _ = lean_judge(ctx, "C17.qedge", agg, 0, enc_pairs(own_E), flatd, flato)
    if not ok2:
        ctx.fail(f"C17/value/{dest}", f"topological_{agg}({dest}) is not the reduction over the rows of the grid's own table (convention {conv})", inp, obs, None,
                 ["agg_face_eq" if dest == "face" else "agg_edge_eq", "accepts"])


def run(ctx):
    ctx.rule = ("meshes from harness/meshes.zoo in random face order × (reduction, destination) × dtype int/float(dyadic)/bool/wild float "
                "(arbitrary mantissas over 7 decades) × 0..2 leading dims × NumPy- or dask-backed source × ddof 0/1 for std/var; sub-grids "
                "(isel n_face) of every mesh; grids with a SOURCE-SUPPLIED edge table (from_topology / UGRID dataset; random permutation of the edges, random "
                "orientation per row) judged fresh and after a read that derives face_edge_connectivity; the INPUT CONVENTION as a random dimension "
                "(from_topology / open_grid(dict) with (fill, start_index) in {(INT_FILL,0),(-1,0),(0,1),(-1,1),(999999,0),(n_node,0),NaN-padded,none} x "
                "int32/int64/float64; UGRID datasets in C01's dialects, drawn by harness/c01.py's generators) with the TRUTH rows taken from the "
                "SOURCE description (mesh faces / source edges), the grid's own tables as a second clause; (centre, destination) decision table on n_node/n_edge/n_face/non-grid dims; distinct = distinct "
                "(table, reduction, destination, dtype, ddof, shape, data); non-trivial = mixed face sizes or edge destination")
    ctx.assumptions = ["the ten reductions are modelled exactly over ℚ (Aggregate.core; std by its square); the verdict on every output is Lean's "
                       "`accepts` = within a float64 rounding allowance derived from the row length and Σ|x| (zero for min/max/all/any); inputs are "
                       "finite (NaN/inf data are outside the model); NumPy on the element's own nodes is only a cross-check of that model",
                       "fancy indexing data[..., conn] is tied by the differential run (Lean gathers the rows itself from the table)",
                       "PartsOK / SortsBy / StdForm / EdgesSound are evaluated in Lean on the real partitions, argsort output, face table and edge table of each generated grid",
                       "the dispatch table and the method→np.<f> table are regenerated from the source (ast) and compared with the Lean tables"]
    ms = []
    for rep in range(ctx.n(1, 4)):
        ms += meshes.zoo(ctx.rng, big=False)
    for m in ms:
        judge(ctx, m, m.kind)
    for m in ms:
        for _ in range(ctx.n(2, 3)):
            judge_supplied_edges(ctx, m)
    for m in ms:
        for _ in range(ctx.n(3, 5)):
            judge_convention(ctx, m)
    for m in ms[:3] + [meshes.hull(4, ctx.rng)]:
        errors(ctx, m)
    source_correspondence(ctx)


def replay(ctx, rp):
    inp = rp["input"]
    t = inp["table"]
    faces = [[v for v in r if v != INT_FILL] for r in t]
    n = max(max(f) for f in faces) + 1
    xyz = np.array([meshes._ll(37.0 * i - 170, 11.0 * (i % 14) - 70) for i in range(n)])
    m = meshes.AMesh(faces, xyz, False, "replay")
    if "centre" in inp:
        errors(ctx, m)
    elif "supplied_edges" in inp:
        judge_supplied_edges(ctx, m, inp)
    elif "convention_case" in inp:
        c = inp["convention_case"]
        m = meshes.AMesh([list(f) for f in c["faces"]], np.array([meshes._ll(a, b) for a, b in zip(c["lon"], c["lat"])]), False, "replay")
        judge_convention(ctx, m, inp)
    else:
        judge(ctx, m, "replay", inp.get("subset_faces"))
