"""C17 — topological aggregations reduce over exactly each element's nodes.

Lean side: `agg_face_eq` (Props/C17.lean) — for every reduction and every partition data meeting
`PartsOK`, the scatter/gather loop equals the per-face reduction.  Tie: (a) `PartsOK` is evaluated
by the Lean driver on the partitions the real `get_face_node_partitions` returns; (b) the model's
loop, run by the driver with exact integer reductions (sum/prod/min/max/all/any), must equal the
implementation; (c) all ten reductions are compared with the per-element NumPy reduction (the
reductions themselves are parameters of the model).
"""

from __future__ import annotations

import numpy as np

from . import common, meshes
from .common import INT_FILL, enc_ints, enc_pairs, enc_rows

AGGS = ["mean", "max", "min", "prod", "sum", "std", "var", "median", "all", "any"]
EXACT = {"sum": 0, "prod": 1, "min": 2, "max": 3, "all": 4, "any": 5}
NP = dict(mean=np.mean, max=np.max, min=np.min, prod=np.prod, sum=np.sum, std=np.std, var=np.var,
          median=np.median, all=np.all, any=np.any)


def dec_opt(s):
    t = s.split()
    return [None if x == "n" else int(x) for x in t[1:]]


def make_data(rng, n, lead, dtype):
    shape = tuple(lead) + (n,)
    size = int(np.prod(shape))
    if dtype == "int":
        a = np.array([rng.randint(-3, 3) for _ in range(size)], dtype=np.int64)
    elif dtype == "bool":
        a = np.array([rng.random() < 0.7 for _ in range(size)], dtype=bool)
    else:
        a = np.array([rng.choice([-2.5, -1.0, 0.0, 0.5, 1.25, 3.0, 7.75]) for _ in range(size)], dtype=np.float64)
    return a.reshape(shape)


def judge(ctx, m, tag, subset=None):
    import uxarray as ux
    from uxarray.grid.connectivity import get_face_node_partitions

    rng, d = ctx.rng, ctx.driver
    g = meshes.to_grid(m, ux)
    t = m.rows()
    N = [int(x) for x in g.n_nodes_per_face.values]
    E = [(int(a), int(b)) for a, b in g.edge_node_connectivity.values]
    inp0 = dict(mesh=m.describe(), table=t, tag=tag)
    # (a) the real partition function, judged by the Lean predicate
    change, perm, sizes, counts = get_face_node_partitions(g.n_nodes_per_face.values)
    parts = dict(change=[int(x) for x in change], perm=[int(x) for x in perm], sizes=[int(x) for x in sizes])
    enc_parts = " ".join([enc_ints(parts["change"]), enc_ints(parts["perm"]), enc_ints(parts["sizes"])])
    ok = d.ask("C17.parts", m.n_face, enc_ints(N), enc_parts)
    ctx.hit("sizes=%d" % len(parts["sizes"]))
    if ok != "1":
        ctx.fail("C17/partitions", "get_face_node_partitions does not group faces by size (Lean PartsOK fails)", inp0, parts, None, ["PartsOK"])
    mp = common.Tok(d.ask("C17.modelparts", enc_ints(N), enc_ints(parts["perm"])))
    if (mp.ints(), mp.ints()) != (parts["change"], parts["sizes"]):
        ctx.mismatch("C17/partition-arrays", inp0, parts, None)
    if d.ask("C17.sorts", enc_ints(N), enc_ints(parts["perm"])) != "1":
        ctx.mismatch("C17/argsort-sorts", inp0, parts, None)

    combos = []
    for agg in AGGS:
        for dest in ("face", "edge"):
            combos.append((agg, dest))
    rng.shuffle(combos)
    for agg, dest in combos[: ctx.n(6, 20)]:
        dtype = rng.choice(["int", "float", "bool"])
        lead = [rng.randint(1, 3) for _ in range(rng.choice([0, 0, 1, 2]))]
        data = make_data(rng, m.n_node, lead, dtype)
        dims = [f"d{i}" for i in range(len(lead))] + ["n_node"]
        uxda = ux.UxDataArray(data, dims=dims, uxgrid=g, name="v")
        inp = dict(inp0, agg=agg, destination=dest, dtype=dtype, lead=lead, data=data.tolist())
        key = (tag, t, agg, dest, dtype, tuple(lead), data.tobytes().hex()[:64])
        ctx.case(key, nontrivial=len(set(N)) > 1 or dest == "edge", sample=inp if m.n_face <= 2 and not lead else None)
        ctx.hit(f"{agg}->{dest}")
        ctx.hit(f"dtype={dtype}")
        ctx.hit(f"rank={len(lead)+1}")
        ctx.hit("mixed-sizes" if len(set(N)) > 1 else "uniform-sizes")
        try:
            res = getattr(uxda, f"topological_{agg}")(destination=dest)
        except Exception as e:
            ctx.fail(f"C17/raises/{agg}->{dest}/{type(e).__name__}", f"topological_{agg}({dest}) raises {type(e).__name__}: {e}", inp)
            continue
        out = np.asarray(res.values)
        edim = "n_face" if dest == "face" else "n_edge"
        want_dims = tuple(dims[:-1] + [edim])
        obs = dict(values=out.tolist(), dims=list(res.dims), type=type(res).__name__)
        if tuple(res.dims) != want_dims or out.shape != tuple(lead) + ((m.n_face if dest == "face" else len(E)),):
            ctx.fail(f"C17/dims/{dest}", f"result dims {res.dims} != {want_dims}", inp, obs, None, ["agg_dims"])
            continue
        if not isinstance(res, ux.UxDataArray) or res.uxgrid is not g:
            ctx.fail(f"C17/grid/{dest}", "result is not a UxDataArray on the same grid", inp, obs, None, ["same_grid"])
        # (c) per-element reference with NumPy's own reduction on exactly the element's nodes
        elems = m.faces if dest == "face" else [list(e) for e in E]
        ref = np.stack([NP[agg](data[..., el], axis=-1) for el in elems], axis=-1).astype(float)
        if not np.allclose(out.astype(float), ref, rtol=1e-12, atol=1e-12, equal_nan=True):
            bad = np.argwhere(~np.isclose(out.astype(float), ref, rtol=1e-12, atol=1e-12, equal_nan=True))
            ctx.fail(f"C17/value/{dest}", f"topological_{agg}({dest}) differs from the reduction over the element's own nodes at {bad[:3].tolist()}",
                     inp, obs, dict(reference=ref.tolist()), ["agg_face_eq" if dest == "face" else "agg_edge_eq"])
            continue
        # (b) the Lean model's loop with an exact integer reduction
        if agg in EXACT and dtype in ("int", "bool") and (agg != "prod" or True):
            flat = data.reshape(-1, m.n_node)
            outf = out.reshape(-1, out.shape[-1])
            for row, orow in zip(flat[:2], outf[:2]):
                ints = [int(x) for x in row]
                if dest == "face":
                    mod = dec_opt(d.ask("C17.face", EXACT[agg], enc_rows(t), enc_parts, enc_ints(ints)))
                    ref2 = dec_opt(d.ask("C17.ref", EXACT[agg], enc_rows(t), enc_ints(N), enc_ints(ints)))
                    if mod != ref2:
                        ctx.mismatch("C17/model-vs-faceRef", inp, None, dict(model=mod, ref=ref2))
                else:
                    mod = common.Tok(d.ask("C17.edge", EXACT[agg], enc_pairs(E), enc_ints(ints))).ints()
                if None in mod or [float(x) for x in mod] != [float(x) for x in orow]:
                    ctx.mismatch(f"C17/model-vs-impl/{dest}", inp, orow.tolist(), mod)
                ctx.hit("lean-model-compared")
    if m.n_face >= 2 and subset is not False:
        for _ in range(1 if subset is None else 1):
            judge_subset(ctx, ux, g, m, inp0, subset)


def judge_subset(ctx, ux, g, m, inp0, idx=None):
    """A sub-grid is a grid: after the parent's derived tables (n_nodes_per_face, …) exist, slice
    node-centred data to a random face subset through the public isel and aggregate THERE; the
    reference is the reduction over each sub-grid face's own nodes as the sub-grid reports them
    (stale per-grid side tables carried over from the parent show up as wrong values)."""
    rng = ctx.rng
    if idx is None:
        k = rng.randint(1, max(1, m.n_face - 1))
        idx = rng.sample(range(m.n_face), k)
        if rng.random() < 0.5:
            idx = sorted(idx)
    lead = [rng.randint(1, 2) for _ in range(rng.choice([0, 1]))]
    data = make_data(rng, m.n_node, lead, "float")
    dims = [f"d{i}" for i in range(len(lead))] + ["n_node"]
    uxda = ux.UxDataArray(data, dims=dims, uxgrid=g, name="v")
    inp = dict(inp0, subset_faces=[int(i) for i in idx], lead=lead, data=data.tolist())
    try:
        sub = uxda.isel(n_face=idx)
        conn = sub.uxgrid.face_node_connectivity.values
        sizes = sorted({int((r != INT_FILL).sum()) for r in conn})
        vals = np.asarray(sub.values)
    except Exception as e:  # slicing itself is C09's subject: not judged here
        ctx.hit("subset:isel-raised:" + type(e).__name__)
        return
    faces = [[int(v) for v in r if v != INT_FILL] for r in conn]
    for agg in rng.sample(["mean", "max", "min", "sum", "median"], 2):
        ctx.case(("subset", m.rows(), tuple(idx), agg, data.tobytes().hex()[:48]), nontrivial=True)
        ctx.hit("subset:" + ("mixed" if len(sizes) > 1 else "uniform") + "-sizes")
        try:
            res = getattr(sub, f"topological_{agg}")(destination="face")
        except Exception as e:
            ctx.fail(f"C17/subset/raises/{agg}/{type(e).__name__}", f"topological_{agg} on a sub-grid raises {type(e).__name__}: {e}", inp)
            continue
        out = np.asarray(res.values, dtype=float)
        ref = np.stack([NP[agg](vals[..., f], axis=-1) for f in faces], axis=-1).astype(float)
        if out.shape != ref.shape or not np.allclose(out, ref, rtol=1e-12, atol=1e-12, equal_nan=True):
            ctx.fail("C17/subset/value/face", f"topological_{agg}(face) on the sub-grid isel(n_face={list(idx)}) differs from the reduction over each "
                     "sub-grid face's own nodes", inp, dict(values=out.tolist(), subgrid_faces=faces), dict(reference=ref.tolist()), ["agg_face_eq"])


DISPATCH = [("n_node", 0), ("n_edge", 1), ("n_face", 2)]
DESTS = [("node", 0), ("edge", 1), ("face", 2), (None, 3), ("cell", 4)]


def errors(ctx, m):
    """unsupported source/destination combinations must raise (decision table vs the Lean model)"""
    import uxarray as ux

    g = meshes.to_grid(m, ux)
    sizes = dict(n_node=m.n_node, n_edge=int(g.n_edge), n_face=m.n_face)
    for dim, c in DISPATCH:
        for dest, dc in DESTS:
            uxda = ux.UxDataArray(np.arange(sizes[dim], dtype=float), dims=[dim], uxgrid=g, name="v")
            want = ctx.driver.ask("C17.dispatch", c, dc)
            try:
                r = uxda.topological_mean(destination=dest)
                got = "toFace" if "n_face" in r.dims else "toEdge" if "n_edge" in r.dims else "value"
            except Exception as e:
                got = type(e).__name__
            inp = dict(mesh=m.describe(), table=m.rows(), centre=dim, destination=dest)
            ctx.case(("dispatch", m.rows(), dim, dest), nontrivial=True)
            ctx.hit(f"dispatch:{dim}->{dest}:{got}")
            supported = dim == "n_node" and dest in ("face", "edge")
            if not supported and got in ("toFace", "toEdge", "value"):
                ctx.fail(f"C17/no-raise/{dim}->{dest}", f"unsupported aggregation {dim}->{dest} returned numbers instead of raising", inp, got, want, ["agg_rejects"])
            elif supported and got != want:
                ctx.fail(f"C17/dispatch/{dim}->{dest}", f"supported aggregation {dim}->{dest} gave {got}", inp, got, want, ["agg_rejects"])
            elif got != want:
                ctx.mismatch("C17/dispatch-table", inp, got, want)


def run(ctx):
    ctx.rule = ("meshes from harness/meshes.zoo in random face order × (reduction, destination) × dtype int/float/bool × 0..2 leading "
                "dims; distinct = distinct (table, reduction, destination, dtype, shape, data); non-trivial = mixed face sizes or edge destination")
    ctx.assumptions = ["NumPy's reductions are parameters of the model (any `red`); fancy indexing data[..., conn] is tied by the differential run",
                       "PartsOK is evaluated in Lean on the partitions returned by the real get_face_node_partitions for each generated case"]
    ms = []
    for rep in range(ctx.n(1, 4)):
        ms += meshes.zoo(ctx.rng, big=False)
    for m in ms:
        judge(ctx, m, m.kind)
    for m in ms[:3] + [meshes.hull(4, ctx.rng)]:
        errors(ctx, m)


def replay(ctx, rp):
    inp = rp["input"]
    t = inp["table"]
    faces = [[v for v in r if v != INT_FILL] for r in t]
    n = max(max(f) for f in faces) + 1
    xyz = np.array([meshes._ll(37.0 * i - 170, 11.0 * (i % 14) - 70) for i in range(n)])
    m = meshes.AMesh(faces, xyz, False, "replay")
    if "centre" in inp:
        errors(ctx, m)
    else:
        judge(ctx, m, "replay", inp.get("subset_faces"))
