"""C06 — integration is the area-weighted sum over faces.

Lean side (Props/C06.lean): integrate_add / integrate_smul / integrate_one / integrate_shape /
integrate_index / integrate_perm / dispatch_rejects for EVERY grid, area list, rank and data over
any commutative semiring, and the refinement `integrate_meets_spec`.

Tie (differential): every generated call of the real `UxDataArray.integrate(rule, order)` is sent —
input array, the face areas of an INDEPENDENT `compute_face_areas(rule, order)` call on a separate
Grid object, and the observed output — to the Lean driver, which converts all floats exactly to
rationals and evaluates `Integrate.Spec` (dims, shape, name, grid identity, every value within
n_face·2⁻⁵²·Σ|terms| of the exact weighted sum; node/edge-dimension arrays rejected).  The verdict
is the Lean predicate's.  Histories of several calls on ONE grid object (different rules, cached
`face_areas` touched first) expose stale-area reuse.
"""

from __future__ import annotations

from fractions import Fraction

import numpy as np

from . import common, meshes
from .common import INT_FILL, enc_floats, enc_ints

RULES = [("gaussian", o) for o in range(1, 11)] + [("triangular", o) for o in (1, 4, 8, 10, 12)]
DIMCODE = {"n_face": 0, "n_node": 1, "n_edge": 2, "time": 3, "lev": 4, "ens": 5, "cells": 6, "nv": 7,
           "dim_0": 8, "dim_1": 9, "dim_2": 10, "dim_3": 11, "nCells": 12, "nVertices": 13, "nEdges": 14, "x": 15}
# names a last dimension can carry: the three grid names, xarray's default (no dims given) and un-renamed source names
ELEM_NAMES = ["n_face", "n_node", "n_edge", "default", "nCells", "nVertices", "nEdges", "x"]
LENGTH_KINDS = ["n_face", "n_node", "n_edge", "other"]
NAMES = [None, "v", "psi", "surface pressure"]
DTYPES = ["float64", "float32", "int64", "int32", "bool"]
UNKNOWN_DIM = 60
UNKNOWN_NAME = 99
GID, OTHER_GID = 1, 2
FILES = {
    "quad-hexagon": "test/meshfiles/ugrid/quad-hexagon/grid.nc",
    "outCSne30": "test/meshfiles/ugrid/outCSne30/outCSne30.ug",
    "geoflow-small": "test/meshfiles/ugrid/geoflow-small/grid.nc",
    "mpas-QU-1920km": "test/meshfiles/mpas/QU/mesh.QU.1920km.151026.nc",
}


# ---------------------------------------------------------------------------------------------
# meshes with coinciding element counts
# ---------------------------------------------------------------------------------------------


def pyramid(k, rng):
    """apex + k-gon base: n_node = n_face = k+1 (k = 3: tetrahedron), n_edge = 2k"""
    lon0 = rng.uniform(-180, 180)
    base = [meshes._ll(lon0 + 360.0 * i / k, -25.0) for i in range(k)]
    xyz = np.array(base + [[0.0, 0.0, 1.0]])
    faces = [[i, (i + 1) % k, k] for i in range(k)] + [list(range(k - 1, -1, -1))]
    return meshes.AMesh(meshes._orient(faces, xyz), xyz, True, f"pyramid{k}")


def polygon(k, rng):
    """a single k-gon: n_node = n_edge = k, n_face = 1"""
    m = meshes.fan(k, lon0=rng.uniform(-170, 170), lat0=rng.uniform(-60, 60), r=rng.uniform(3, 20))
    xyz = m.xyz[1:]
    return meshes.AMesh(meshes._orient([list(range(k))], xyz), xyz, False, f"polygon{k}")


def sample_path(rel):
    """sample files live in the tree under test; a scratch copy that only carries uxarray/ falls back to /repo"""
    from pathlib import Path

    p = common.REPO / rel
    return p if p.exists() else Path("/repo") / rel


def balanced(n, rng):
    """closed mixed mesh with n_node = n_face: a random hull (F = 2n-4) with pairs of faces merged until F = n"""
    m = meshes.hull(n, rng)
    for _ in range(6 * n):
        if m.n_face <= m.n_node:
            break
        m = m.merge_some(rng, tries=1)
    m.kind = f"balanced{n}"
    return m


def mesh_dict(m):
    return dict(kind=m.kind, faces=m.faces, lon=[float(x) for x in m.lon], lat=[float(x) for x in m.lat])


def build_grid(md, ux):
    if "file" in md:
        return ux.open_grid(str(sample_path(md["file"])), **({"use_dual": True} if md.get("use_dual") else {}))
    w = max(len(f) for f in md["faces"])
    t = np.full((len(md["faces"]), w), INT_FILL, dtype=np.int64)
    for i, f in enumerate(md["faces"]):
        t[i, : len(f)] = f
    return ux.Grid.from_topology(
        node_lon=np.array(md["lon"], dtype=float),
        node_lat=np.array(md["lat"], dtype=float),
        face_node_connectivity=t,
        fill_value=INT_FILL,
    )


# ---------------------------------------------------------------------------------------------
# one history of calls on one grid object
# ---------------------------------------------------------------------------------------------


SPECIALS = ["one-nan", "several-nan", "row-nan", "all-nan", "pos-inf", "both-inf", "inf-and-nan", "neg-zero", "huge", "tiny", "mixed"]


def dec_vals(data):
    """JSON-safe data → numbers: "nan" / "inf" / "-inf" (and the framework's "NaN") are spelled as strings"""
    return [float(x) if isinstance(x, str) else x for x in data]


def special_values(rng, shape, dtype, pattern, big_ok=True):
    """float data with special VALUES: NaN on one face / several / a whole leading row / everywhere, ±inf, −0.0, huge and
    tiny magnitudes (no overflow, no subnormal products), mixed with ordinary finite values"""
    n = shape[-1]
    rows = int(np.prod(shape[:-1])) if len(shape) > 1 else 1
    f32 = dtype == "float32"
    vals = [[rng.uniform(-5, 5) for _ in range(n)] for _ in range(rows)]
    hi = (lambda: rng.choice([-1, 1]) * 10.0 ** rng.uniform(30, 36)) if f32 else (lambda: rng.choice([-1, 1]) * 10.0 ** rng.uniform(250, 290))
    lo = (lambda: rng.choice([-1, 1]) * 10.0 ** rng.uniform(-36, -30)) if f32 else (lambda: rng.choice([-1, 1]) * 10.0 ** rng.uniform(-290, -250))
    r0 = rng.randrange(rows)

    def put(v, k=1, row=None):
        for _ in range(k):
            vals[rng.randrange(rows) if row is None else row][rng.randrange(n)] = v

    if pattern == "one-nan":
        put("nan", 1, r0)
    elif pattern == "several-nan":
        put("nan", rng.randint(2, max(2, n)))
    elif pattern == "row-nan":
        vals[r0] = ["nan"] * n
    elif pattern == "all-nan":
        vals = [["nan"] * n for _ in range(rows)]
    elif pattern == "pos-inf":
        put(rng.choice(["inf", "-inf"]), 1, r0)
    elif pattern == "both-inf":
        vals[r0][0] = "inf"
        vals[r0][n - 1] = "-inf" if n > 1 else "inf"
    elif pattern == "inf-and-nan":
        put("inf", 2)
        put("nan", 1)
    elif pattern == "neg-zero":
        put(-0.0, max(1, n // 2))
        if rng.random() < 0.5:
            vals[r0] = [-0.0] * n
    elif pattern == "huge":
        put(hi(), max(1, n // 2))
    elif pattern == "tiny":
        vals = [[lo() for _ in range(n)] for _ in range(rows)]
    else:  # mixed
        put("nan", 1)
        put("-inf", 1)
        put(-0.0, 1)
        put(hi(), 1)
        put(lo(), 1)
    flat = [x for r in vals for x in r]
    if f32:
        flat = [x if isinstance(x, str) else float(np.float32(x)) for x in flat]
    return flat


def make_values(rng, size, dtype, ones=False):
    """values are sent to Lean as the exact float64 they convert to, so any finite value is fair"""
    if ones:
        return [1] * size
    if dtype == "bool":
        return [int(rng.random() < 0.6) for _ in range(size)]
    if dtype == "object" and rng.random() < 0.4:
        return [rng.randint(-6, 6) for _ in range(size)]
    if dtype.startswith("int"):
        return [rng.randint(-6, 6) for _ in range(size)]
    mode = rng.choice(["dyadic", "full", "scaled"])
    if mode == "dyadic":
        return [rng.randint(-40, 40) / 8.0 for _ in range(size)]
    scale = 1.0 if mode == "full" else 10.0 ** rng.randint(-3, 6)
    vals = [rng.uniform(-5, 5) * scale for _ in range(size)]
    if dtype == "float32":
        vals = [float(np.float32(v)) for v in vals]  # exactly representable, survives the JSON replay
    return vals


def make_call(rng, sizes, elem_dim, rule_order, ones=False, max_lead=3, lead_cap=3, via="dataarray", rank=None, length=None,
              special=None):
    """`elem_dim` names the last dimension ("default" = no dims given: xarray's dim_0, dim_1, …); `length` overrides its
    length (default: the grid count of that name)"""
    if rank is None:
        rank = rng.choice([0, 0, 1, 1, 2, 3][: 3 + max_lead])
    lead = [rng.randint(1, lead_cap) for _ in range(rank)]
    lead_names = rng.sample(["time", "lev", "ens"], rank)
    dtype = rng.choice(DTYPES + ["float64", "float64", "object"])
    if special is not None:
        dtype = rng.choice(["float64", "float64", "float32", "object"])
    if via == "dask" and dtype == "object":
        dtype = "float64"
    n = sizes[elem_dim] if length is None else length
    shape = lead + [n]
    dims = [f"dim_{i}" for i in range(rank + 1)] if elem_dim == "default" else lead_names + [elem_dim]
    return dict(
        rule=rule_order[0],
        order=rule_order[1],
        dims=dims,
        shape=shape,
        dtype=dtype,
        name=rng.choice(NAMES if via == "dataarray" else NAMES[1:]),
        via=via,
        data=(make_values(rng, int(np.prod(shape)), dtype, ones) if special is None
              else special_values(rng, shape, dtype, special)),
        **({"special": special} if special else {}),
    )


class RefAreas:
    """areas from an independent Grid object (never the one whose integrate() is under test)"""

    def __init__(self, md, ux):
        self.md, self.ux, self.grid, self.cache = md, ux, None, {}

    def get(self, rule, order):
        k = (rule, order)
        if k not in self.cache:
            try:
                if self.grid is None:
                    self.grid = build_grid(self.md, self.ux)
                a, _ = self.grid.compute_face_areas(rule, order)
                self.cache[k] = np.array(a, dtype=float)
            except Exception as e:  # e.g. negative jacobian: the reference itself is undefined
                self.cache[k] = e
        return self.cache[k]


def dims_codes(dims):
    return [DIMCODE.get(str(d), UNKNOWN_DIM) for d in dims]


def name_code(name):
    return NAMES.index(name) - 1 if name in NAMES else UNKNOWN_NAME


def enc_arr(dims, shape, flat, name, gid):
    return " ".join([enc_ints(dims_codes(dims)), enc_ints(shape), enc_floats(flat), str(name_code(name)), str(gid)])


def coincidence(sizes):
    c = []
    if sizes["n_node"] == sizes["n_face"]:
        c.append("n_node=n_face")
    if sizes["n_node"] == sizes["n_edge"]:
        c.append("n_node=n_edge")
    if sizes["n_edge"] == sizes["n_face"]:
        c.append("n_edge=n_face")
    return "+".join(c) or "distinct"


def _dec_ext(toks, i):
    """`n (tag num den)*` → list of floats / Fractions, next index"""
    n = int(toks[i])
    out = []
    for k in range(n):
        tag, num, den = int(toks[i + 1 + 3 * k]), int(toks[i + 2 + 3 * k]), int(toks[i + 3 + 3 * k])
        out.append({1: float("nan"), 2: float("inf"), 3: float("-inf")}.get(tag, Fraction(num, den)))
    return out, i + 1 + 3 * n


def judge_ext(ctx, d, sizes, areas, call, as_float, obs, observed, inp, res, vals, elem, via):
    """data and/or output hold NaN / ±inf: the Lean driver runs the same model over extended values (IEEE rules) and
    evaluates SpecE on the implementation's output"""
    ans = d.ask(
        "C06.judgeext", sizes["n_face"], sizes["n_node"], sizes["n_edge"], GID, enc_floats(areas),
        enc_arr(call["dims"], call["shape"], as_float, call["name"], GID), obs,
    ).split()
    k = int(ans[1])
    bad = ans[2 : 2 + k]
    rest = ans[2 + k :]  # model X self s vals … skip …
    model, self_bad = rest[1], int(rest[3])
    expect, j = _dec_ext(rest, 5)
    skip, _ = _dec_ext(rest, j + 1)
    show = lambda l: [x if isinstance(x, float) else float(x) for x in l[:64]]
    model_out = dict(outcome=model, ieee_values=show(expect), nan_skipping_sum_would_give=show(skip))
    ctx.hit("special-values:judged-by-Lean")
    ctx.hit(f"special:{call.get('special', 'output-only')}")
    if self_bad:
        ctx.mismatch("C06/model-output-fails-its-own-spec(ext)", inp, observed, model_out)
    if not bad and via != "dataset-integrate" and (model == "ok") != (res is not None):
        ctx.mismatch("C06/decision-table", inp, observed, model_out)
    for c in bad:
        if c == "values":
            got = vals.reshape(-1)
            like_skip = len(skip) == got.size and all(
                (isinstance(sv, float) and (np.isnan(sv) and np.isnan(gv) or sv == gv)) or
                (not isinstance(sv, float) and np.isfinite(gv) and abs(float(sv) - gv) <= 1e-9 * max(1.0, abs(float(sv))))
                for sv, gv in zip(skip, got))
            n_nan_lost = sum(1 for ev, gv in zip(expect, got) if isinstance(ev, float) and np.isnan(ev) and not np.isnan(gv))
            sig = "C06/values/special-values" + ("/nan-not-propagated" if n_nan_lost else "")
            what = ("data with NaN/±inf: the result is not the IEEE value of Σ_f value·area (NaN term ⇒ NaN, inf−inf ⇒ NaN, "
                    f"else ±inf or the exact sum); {n_nan_lost} element(s) that must be NaN are finite"
                    + ("; the output equals a NaN-SKIPPING sum (missing faces treated as 0)" if like_skip else ""))
        elif c == "meta":
            sig, what = "C06/meta/special-values", "dims / shape / name / grid of the result are wrong (data with special values)"
        elif c == "face_data_rejected":
            sig, what = f"C06/face_data_rejected/special-values", "face-centred data with NaN/±inf was rejected"
        else:
            sig, what = f"C06/{c}/special-values", c
        if via == "dataset-integrate":
            sig = sig.replace("C06/", "C06/UxDataset.integrate/", 1)
            what = "legacy UxDataset.integrate: " + what
        ctx.fail(sig, what, inp, observed, model_out, [c])
    return bad


def run_call(ctx, ux, g, sizes, ref, call, inp):
    """returns the list of failed clause names of this call (after recording everything)"""
    d = ctx.driver
    elem = call["dims"][-1]
    arr = np.array(dec_vals(call["data"]), dtype=call["dtype"]).reshape(call["shape"])
    via = call.get("via", "dataarray")
    as_float = np.asarray(arr, dtype=np.float64).reshape(-1)
    areas = ref.get(call["rule"], call["order"])
    if isinstance(areas, Exception) or not np.all(np.isfinite(areas)):
        if elem == "n_face":
            ctx.hit(f"skipped:reference-areas-undefined:{type(areas).__name__}")
            return None
        areas = np.zeros(sizes["n_face"])  # the rejection clauses do not read the areas
    ctx.hit(f"via={via}")
    if via == "dataarray":
        if call["dims"] == [f"dim_{i}" for i in range(arr.ndim)]:
            # wrapped without dimension names: UxDataArray(values, uxgrid=grid)
            subject = ux.UxDataArray(arr, uxgrid=g, name=call["name"])
            if list(subject.dims) != call["dims"]:
                subject = ux.UxDataArray(arr, dims=call["dims"], uxgrid=g, name=call["name"])
            ctx.hit("constructed-without-dims")
        else:
            subject = ux.UxDataArray(arr, dims=call["dims"], uxgrid=g, name=call["name"])
    elif via == "dask":
        import dask.array as da

        chunks = tuple(max(1, (k + 1) // 2) for k in arr.shape)
        subject = ux.UxDataArray(da.from_array(arr, chunks=chunks), dims=call["dims"], uxgrid=g, name=call["name"])
    else:
        # the documented user path `uxds["psi"].integrate()` / the legacy `uxds.integrate()`
        ds = ux.UxDataset({call["name"]: (call["dims"], arr)}, uxgrid=g)
        subject = ds[call["name"]] if via == "dataset-getitem" else ds
    try:
        if call.get("defaults"):
            res = subject.integrate()  # no arguments: the default rule ("triangular", 4), see integrate_default_rule_eq_area_default
        else:
            res = subject.integrate(quadrature_rule=call["rule"], order=call["order"])
        err = None
    except Exception as e:  # any exception is a rejection
        res, err = None, e
    if res is not None and via == "dataset-integrate":
        # the legacy method returns bare numbers: dims/name/grid are not observable and are taken as kept
        # when the number of values is right; only the decision and the values are judged
        v = np.asarray(res, dtype=np.float64)
        lead = call["shape"][:-1]
        ok_shape = list(v.shape) == lead
        res = ux.UxDataArray(v, dims=call["dims"][:-1] if ok_shape else [f"nv{i}" for i in range(v.ndim)], uxgrid=g, name=call["name"])
    if res is None:
        obs = "0"
        observed = dict(raised=type(err).__name__, message=str(err)[:160])
        ctx.hit(f"outcome:{elem}:raised-{type(err).__name__}")
    else:
        vals = np.asarray(res.values, dtype=np.float64)
        observed = dict(
            type=type(res).__name__, dims=list(map(str, res.dims)), shape=list(vals.shape), name=res.name,
            same_grid=getattr(res, "uxgrid", None) is g, values=vals.reshape(-1).tolist()[:64],
        )
        ctx.hit(f"outcome:{elem}:returned")
        gid = GID if (isinstance(res, ux.UxDataArray) and getattr(res, "uxgrid", None) is g) else OTHER_GID
        obs = "1 " + enc_arr(res.dims, list(vals.shape), vals.reshape(-1), res.name, gid)
    special = (not np.all(np.isfinite(as_float))) or (res is not None and not np.all(np.isfinite(vals)))
    if special:
        return judge_ext(ctx, d, sizes, areas, call, as_float, obs, observed, inp, res, vals if res is not None else None, elem, via)
    ans = d.ask(
        "C06.judge", sizes["n_face"], sizes["n_node"], sizes["n_edge"], GID, enc_floats(areas),
        enc_arr(call["dims"], call["shape"], as_float, call["name"], GID), obs,
    ).split()
    # spec k c… model X asis Y dsasis Z lenfb W self s vals n (num den)…
    k = int(ans[1])
    bad = ans[2 : 2 + k]
    rest = ans[2 + k :]
    model, asis, dsasis, lenfb, self_bad = rest[1], rest[3], rest[5], rest[7], int(rest[9])
    nv = int(rest[11])
    exact = [Fraction(int(rest[12 + 2 * i]), int(rest[13 + 2 * i])) for i in range(nv)]
    model_out = dict(outcome=model, asis_model=asis, legacy_dataset_model=dsasis, length_fallback_variant_model=lenfb,
                     exact_values=[float(x) for x in exact[:64]])
    if via == "dataset-integrate" and len(call["shape"]) == 1 and (dsasis == "ok") != (res is not None):
        # the model of the known-finding method itself (1-D fragment) must still describe the code
        ctx.mismatch("C06/legacy-dataset-decision-table", inp, observed, model_out)
    if self_bad:
        ctx.mismatch("C06/model-output-fails-its-own-spec", inp, observed, model_out)
    # cross-check of the driver's exact arithmetic by an independent exact sum (small cases)
    if model == "ok" and as_float.size <= 4000:
        nf = sizes["n_face"]
        fa = [Fraction(float(x)) for x in areas]
        rows = as_float.reshape(-1, nf)
        mine = [sum((fa[j] * Fraction(float(r[j])) for j in range(nf)), Fraction(0)) for r in rows]
        if mine != exact:
            ctx.mismatch("C06/driver-exact-sum-vs-python-fractions", inp, [float(x) for x in mine[:8]], model_out)
        ctx.hit("driver-sum-cross-checked")
        # evidence only (no verdict): how much of the theorem-backed tolerance (close_of_rounded) the code uses
        if res is not None and not bad and vals.size == len(exact):
            for v, ex, r in zip(vals.reshape(-1), exact, rows):
                tol = nf * Fraction(1, 2**52) * sum((abs(fa[j] * Fraction(float(r[j]))) for j in range(nf)), Fraction(0))
                if tol > 0:
                    ratio = float(abs(Fraction(float(v)) - ex) / tol)
                    ctx.extra["max_observed_error_over_tolerance"] = max(ctx.extra.get("max_observed_error_over_tolerance", 0.0), ratio)
    # correspondence of outcomes (the decision table): ok vs rejected
    impl_ok = res is not None
    if not bad and via != "dataset-integrate" and (model == "ok") != impl_ok:
        # only possible where the Spec demands nothing (malformed input)
        ctx.mismatch("C06/decision-table", inp, observed, model_out)
    if bad:
        coin = coincidence(sizes)
        for c in bad:
            if c == "dispatch_rejects":
                sig = f"C06/dispatch_rejects/{elem}/{coin}"
                what = (f"{elem}-dimension data was integrated instead of rejected on a grid with {coin} "
                        f"(n_face={sizes['n_face']}, n_node={sizes['n_node']}, n_edge={sizes['n_edge']})")
            elif c == "unnamed_sized_rejects":
                n = call["shape"][-1]
                kinds = "=".join(k for k in ("n_face", "n_node", "n_edge") if sizes[k] == n)
                sig = f"C06/unnamed_sized_rejects/length={kinds}"  # one defect whatever the (non-grid) name is
                what = (f"data of length {n} (= {kinds}) under the non-grid dimension name {elem!r} was integrated as face data instead of "
                        f"being rejected: the element kind was inferred from the length on a grid with {coin} "
                        f"(n_face={sizes['n_face']}, n_node={sizes['n_node']}, n_edge={sizes['n_edge']})")
            elif c == "face_data_rejected":
                sig = f"C06/face_data_rejected/{type(err).__name__}"
                what = f"face-centred data was rejected: {type(err).__name__}: {str(err)[:120]}"
            else:
                sig = f"C06/{c}/rank={len(call['shape'])}" if c in ("dims", "shape") else f"C06/{c}"
                what = {
                    "dims": "result dims are not the input dims minus the face dimension",
                    "shape": "result shape is not the leading shape",
                    "name": "result does not keep the variable's name",
                    "grid": "result is not a UxDataArray attached to the same Grid object",
                    "values": "a value differs from Σ_f value·area(rule, order) by more than n_face·2^-52·Σ|terms|",
                }.get(c, c)
            if via == "dataset-integrate":
                sig = sig.replace("C06/", "C06/UxDataset.integrate/", 1)
                what = "legacy UxDataset.integrate: " + what
                if elem == "n_face" and len(call["shape"]) > 1:
                    # one defect, several symptoms (np.dot raises, or contracts the wrong axis when a leading
                    # length happens to equal n_face)
                    sig = "C06/UxDataset.integrate/leading-dims-unsupported"
                    what = ("legacy UxDataset.integrate handles only 1-D variables: face-centred data with leading dimensions is "
                            "rejected or contracted over the wrong axis (np.dot(face_areas, values)); symptom: " + c)
            ctx.fail(sig, what, inp, observed, model_out, [c])
    return bad


def judge_history(ctx, case, tag="gen"):
    """run the calls of `case` in order on ONE grid object, judge each; shrink a failure to the
    single failing call when that still fails on a fresh grid"""
    import uxarray as ux

    md = case["mesh"]
    g = build_grid(md, ux)
    sizes = dict(n_face=int(g.n_face), n_node=int(g.n_node), n_edge=int(g.n_edge))
    if sizes["n_face"] == sizes["n_edge"]:
        ctx.hit("skipped:n_face=n_edge (not a polygon mesh)")
        return
    ref = RefAreas(md, ux)
    for op in case.get("pre", []):
        if op == "face_areas":
            try:
                g.face_areas  # populate the default-rule cache before integrating
            except Exception:
                ctx.hit("pre:face_areas-raised")
                return
    ctx.hit("grid:" + coincidence(sizes))
    for i, call in enumerate(case["calls"]):
        if "op" in call:
            # grid-state operations between the integrate() calls (public API only)
            import xarray as xr

            ctx.hit("op:" + call["op"])
            try:
                if call["op"] == "read_face_areas":
                    g.face_areas.values
                elif call["op"] == "set_face_areas":
                    # caller-supplied areas (as MPAS sources do with areaCell): NOT the quadrature's areas
                    g.face_areas = xr.DataArray(np.asarray(call["areas"], dtype=float), dims=["n_face"])
                elif call["op"] == "move_nodes":
                    g.node_lon = xr.DataArray(np.asarray(call["lon"], dtype=float), dims=["n_node"])
                    g.node_lat = xr.DataArray(np.asarray(call["lat"], dtype=float), dims=["n_node"])
                    # from here on the reference is a FRESH grid built with the moved coordinates
                    md = dict(md, lon=call["lon"], lat=call["lat"], kind=str(md.get("kind")) + "+moved")
                    ref = RefAreas(md, ux)
            except Exception as e:
                ctx.hit(f"op:{call['op']}-raised-{type(e).__name__}")
                return
            continue
        elem = call["dims"][-1]
        inp = dict(mesh=case["mesh"], pre=case.get("pre", []), calls=case["calls"][: i + 1], failing_call=i, sizes=sizes)
        key = (md.get("kind"), md.get("file"), str(md.get("faces"))[:400], call["rule"], call["order"], tuple(call["dims"]),
               tuple(call["shape"]), call["dtype"], call["name"], str(call["data"][:64]))
        nontrivial = elem != "n_face" or (len(set(call["data"])) > 1 and sizes["n_face"] > 1)
        small = sizes["n_face"] <= 4 and len(call["shape"]) <= 2
        ctx.case(key, nontrivial=nontrivial, sample=dict(mesh=md.get("kind", md.get("file")), sizes=sizes, call=call) if small else None)
        ctx.hit(f"rule:{call['rule']}/{call['order']}")
        ctx.hit(f"rank={len(call['shape'])}")
        ctx.hit(f"dtype={call['dtype']}")
        ctx.hit(f"elem={elem}")
        if call.get("special"):
            ctx.hit(f"special-pattern:{call['special']}")
        n_last = call["shape"][-1]
        kinds = "=".join(k for k in ("n_face", "n_node", "n_edge") if sizes[k] == n_last) or "other"
        ctx.hit(f"name×length:{'dim_k' if elem.startswith('dim_') else elem}×{kinds}")
        if len(set(call["data"])) == 1 and call["data"][0] == 1 and elem == "n_face":
            ctx.hit("constant-one")
        n_before = len(ctx.failures)
        if call.get("defaults"):
            ctx.hit("integrate()-without-arguments")
        bad = run_call(ctx, ux, g, sizes, ref, call, inp)
        if bad and (i > 0 or case.get("pre")):
            # shrink: does the single call fail on a fresh grid?
            single = dict(mesh=md, pre=[], calls=[call])
            g2 = build_grid(md, ux)
            sub = common.Ctx(ctx.prop, ctx.tier, ctx.seed)
            sub.driver = ctx.driver
            inp2 = dict(single, failing_call=0, sizes=sizes)
            bad2 = run_call(sub, ux, g2, sizes, ref, call, inp2)
            if bad2 and sorted(bad2) == sorted(bad):
                del ctx.failures[n_before:]
                ctx.failures += sub.failures
            else:
                for f in ctx.failures[n_before:]:
                    f["signature"] += "/history-dependent"
                    f["what"] += " (only after the preceding calls on the same grid object: stale state)"


# ---------------------------------------------------------------------------------------------
# process-state stream: many grids built, integrated and RELEASED one after another in one process
# ---------------------------------------------------------------------------------------------


class FixedRef:
    """reference areas computed BEFORE the stream starts (so that no reference Grid object is created or freed
    while the stream runs: nothing but the grids under test competes for the freed addresses)"""

    def __init__(self, table):
        self.table = table

    def get(self, rule, order):
        return self.table[(rule, order)]


def ring(k, lat_lo, lat_hi, lon0=0.0):
    """k lat/lon boxes around the globe between two latitudes: n_face = k whatever the band is"""
    lon = [lon0 + 360.0 * i / k for i in range(k)]
    lon = [x - 360.0 if x > 180.0 else x for x in lon]
    faces = [[i, (i + 1) % k, k + (i + 1) % k, k + i] for i in range(k)]
    return dict(kind=f"ring{k}", faces=faces, lon=lon + lon, lat=[lat_lo] * k + [lat_hi] * k)


def family_mesh(rng, fam):
    """a mesh of family `fam`: the SAME n_face for every member, different geometry (hence different areas)"""
    kind, p = fam
    if kind == "ring":
        lo = rng.uniform(-70, 40)
        return ring(p, lo, lo + rng.uniform(4, 25), lon0=rng.uniform(0, 90))
    if kind == "hull":
        return mesh_dict(meshes.hull(p, rng))  # 2p-4 triangles
    nx, ny = p
    return mesh_dict(meshes.patch(nx, ny, lon0=rng.uniform(-170, 100), lat0=rng.uniform(-75, 40), dlon=rng.uniform(3, 12),
                                  dlat=rng.uniform(3, 9)))


def gen_process(ctx, n_grids):
    """a process history: [{mesh, calls, keep}] — every grid is integrated with the stream's (rule, order), data and the
    constant 1; `keep` = stay alive while the next grid is built and integrated, then integrate on it again"""
    rng = ctx.rng
    fam = rng.choice([("ring", rng.choice([3, 4, 5, 6])), ("hull", rng.choice([4, 5, 6, 7])), ("patch", rng.choice([(2, 2), (3, 1), (2, 3)]))])
    other = rng.choice([("ring", 7), ("hull", 8), ("patch", (1, 1))])
    ro = rng.choice([r for r in RULES if r != ("triangular", 4)] * 3 + [("triangular", 4)])
    steps = []
    for i in range(n_grids):
        f = fam if rng.random() < 0.8 else other
        md = family_mesh(rng, f)
        nf = len(md["faces"])
        sz = dict(n_face=nf)
        calls = [make_call(rng, sz, "n_face", ro, max_lead=1), make_call(rng, sz, "n_face", ro, ones=True, rank=0)]
        if rng.random() < 0.25:
            calls.append(make_call(rng, sz, "n_face", rng.choice(RULES), max_lead=1))
        steps.append(dict(mesh=md, calls=calls, keep=(i % 5 == 3)))
    return dict(kind="process", family=str(fam), rule=list(ro), steps=steps)


def run_process(ctx, case):
    """build → integrate → judge → release, one grid after the other.  The harness keeps NO reference to a finished grid
    (only ints and JSON-able records), calls gc.collect() after every release and counts how often a later grid re-uses
    the address of a dead one."""
    import gc

    import uxarray as ux

    steps = case["steps"]
    # 1. all reference areas first, on throw-away grids that never see integrate()
    refs = []
    for st in steps:
        table = {}
        try:
            rg = build_grid(st["mesh"], ux)
            sizes = dict(n_face=int(rg.n_face), n_node=int(rg.n_node), n_edge=int(rg.n_edge))
            for c in st["calls"]:
                k = (c["rule"], c["order"])
                if k not in table:
                    try:
                        table[k] = np.array(rg.compute_face_areas(*k)[0], dtype=float)
                    except Exception as e:
                        table[k] = e
            del rg
        except Exception as e:
            sizes = None
            ctx.hit(f"process:skipped-grid-{type(e).__name__}")
        refs.append((sizes, table))
    gc.collect()

    seen_ids, reuses, n_done = set(), 0, 0

    def judge(g, idx, which):
        sizes, table = refs[idx]
        st = steps[idx]
        for j, call in enumerate(st["calls"]):
            inp = dict(kind="process", family=case.get("family"), rule=case.get("rule"), failing_step=idx, failing_call=j, phase=which,
                       steps=[dict(s, calls=s["calls"]) for s in steps[: idx + 1]], sizes=sizes)
            key = ("process", str(st["mesh"])[:300], call["rule"], call["order"], tuple(call["shape"]), call["dtype"], str(call["data"][:32]), which)
            ctx.case(key, nontrivial=True)
            ctx.hit(f"process:call:{which}")
            ctx.hit(f"rule:{call['rule']}/{call['order']}")
            if len(set(call["data"])) == 1 and call["data"][0] == 1:
                ctx.hit("process:constant-one")
            n_before = len(ctx.failures)
            bad = run_call(ctx, ux, g, sizes, FixedRef(table), call, inp)
            if bad:
                for f in ctx.failures[n_before:]:
                    f["signature"] += "/process-state"
                    f["what"] += (f" — observed on grid {idx + 1} of a sequence of grids built, integrated and released one after another "
                                  "in one process (the replay re-runs the whole sequence up to this grid); when the same clause is not also "
                                  "reported for single calls, the result depends on grids integrated EARLIER, i.e. on state kept outside "
                                  "the grid object")

    prev = None  # at most ONE earlier grid is alive, and only when its step says keep
    prev_idx = None
    for idx, st in enumerate(steps):
        if refs[idx][0] is None:
            continue
        g = build_grid(st["mesh"], ux)
        gid = id(g)
        if gid in seen_ids:
            reuses += 1
            ctx.hit("process:grid-address-reused")
        seen_ids.add(gid)
        n_done += 1
        ctx.hit("process:grids")
        judge(g, idx, "fresh")
        if prev is not None:
            ctx.hit("process:two-grids-alive")
            judge(prev, prev_idx, "again-while-another-grid-is-alive")
            judge(g, idx, "again-after-the-other")
            prev = prev_idx = None
        if st.get("keep"):
            prev, prev_idx = g, idx
        del g
        gc.collect()
    prev = None
    gc.collect()
    ps = ctx.extra.setdefault("process_state", dict(streams=0, grids=0, address_reuses=0))
    ps["streams"] += 1
    ps["grids"] += n_done
    ps["address_reuses"] += reuses


def next_rule(ctx, pool):
    if not pool:
        pool.extend(RULES)
        ctx.rng.shuffle(pool)
    return pool.pop()


def history_for(ctx, md, sizes, pool, n_face_calls, big=False):
    rng = ctx.rng
    calls = []
    cap = 2 if big else 3
    ml = 1 if big else 3
    calls.append(make_call(rng, sizes, "n_face", next_rule(ctx, pool), ones=True, max_lead=ml, lead_cap=cap))
    for _ in range(n_face_calls):
        calls.append(make_call(rng, sizes, "n_face", next_rule(ctx, pool), max_lead=ml, lead_cap=cap))
    if not big:
        for elem in ("n_node", "n_edge"):
            calls.append(make_call(rng, sizes, elem, next_rule(ctx, pool)))
        # malformed stream (no demand by the property; model and code must both reject):
        bogus = sizes["n_face"] + sizes["n_node"] + sizes["n_edge"] + 1
        c = make_call(rng, dict(sizes, cells=bogus), "cells", next_rule(ctx, pool), max_lead=1)
        calls.append(c)
        c = make_call(rng, dict(sizes, n_face=bogus), "n_face", next_rule(ctx, pool), max_lead=1)
        calls.append(c)
    if not big:
        # NAME × LENGTH product of the last dimension: the decision must follow the name, never a coincidence of lengths
        lens = dict(sizes, other=bogus)
        combos = [(nm, lk) for nm in ELEM_NAMES for lk in LENGTH_KINDS]
        rng.shuffle(combos)
        if coincidence(sizes) == "distinct":
            combos = combos[: ctx.n(10, len(combos))]
        for nm, lk in combos:
            calls.append(make_call(rng, sizes, nm, next_rule(ctx, pool), max_lead=1, length=lens[lk]))
    # special VALUES (NaN on one face / several / a row / all, ±inf, −0.0, huge, tiny, mixed) and dask-backed data
    pats = list(SPECIALS)
    rng.shuffle(pats)
    for pat in pats[: (2 if big else ctx.n(4, len(pats)))]:
        calls.append(make_call(rng, sizes, "n_face", next_rule(ctx, pool), max_lead=ml, lead_cap=cap, special=pat,
                               via=rng.choice(["dataarray", "dataarray", "dask", "dataset-getitem"])))
    calls.append(make_call(rng, sizes, "n_face", next_rule(ctx, pool), max_lead=ml, lead_cap=cap, via="dask"))
    # the documented path uxds[name].integrate() and the legacy UxDataset.integrate()
    calls.append(make_call(rng, sizes, "n_face", next_rule(ctx, pool), max_lead=ml, lead_cap=cap, via="dataset-getitem"))
    calls.append(make_call(rng, sizes, "n_face", next_rule(ctx, pool), via="dataset-integrate", rank=0))
    if not big:
        calls.append(make_call(rng, sizes, "n_node", next_rule(ctx, pool), via="dataset-getitem"))
        calls.append(make_call(rng, sizes, "n_face", next_rule(ctx, pool), via="dataset-integrate", rank=rng.choice([1, 2])))
        calls.append(make_call(rng, sizes, "n_node", next_rule(ctx, pool), via="dataset-integrate", rank=0))
    rng.shuffle(calls)
    # default-rule integrals against the QUADRATURE's areas whatever the grid carries as `face_areas`
    dflt = ("triangular", 4)

    def default_calls():
        a = make_call(rng, sizes, "n_face", dflt, max_lead=1, lead_cap=cap)
        a["defaults"] = True
        return [a, make_call(rng, sizes, "n_face", dflt, ones=True, rank=0),
                make_call(rng, sizes, "n_face", rng.choice([r for r in RULES if r != dflt]), max_lead=1, lead_cap=cap)]

    tail = default_calls()  # also covers file sources that store their own areas (MPAS areaCell / areaTriangle)
    if "faces" in md:
        # integrate → read face_areas → move the nodes through the public setters → integrate again
        lat = [0.93 * y + 0.4 for y in md["lat"]]
        lon = [x + 0.37 for x in md["lon"]]
        lon = [x - 360.0 if x > 180.0 else x for x in lon]
        tail += [dict(op="read_face_areas"), dict(op="move_nodes", lon=lon, lat=lat)] + default_calls()
        # caller-supplied areas set on the grid
        tail += [dict(op="set_face_areas", areas=[1.5 + 0.25 * (k % 3) for k in range(sizes["n_face"])])] + default_calls()
    pre = ["face_areas"] if rng.random() < 0.5 else []
    return dict(mesh=md, pre=pre, calls=calls + tail)


def sizes_of(md):
    import uxarray as ux

    g = build_grid(md, ux)
    return dict(n_face=int(g.n_face), n_node=int(g.n_node), n_edge=int(g.n_edge))


def driver_selftest(ctx):
    """the exact float→rational decoding of the driver against Python's Fraction"""
    rng = ctx.rng
    vals = [0.0, -0.0, 1.0, -1.5, 5e-324, 2.2250738585072014e-308, 1.7976931348623157e308, 0.1]
    vals += [rng.uniform(-1, 1) * 10.0 ** rng.randint(-300, 300) for _ in range(40)]
    for v in vals:
        n, dn = ctx.driver.ask_ints("C06.rat", common.enc_float(v))
        if Fraction(n, dn) != Fraction(v):
            raise RuntimeError(f"driver decodes {v!r} as {n}/{dn}")
    a = [rng.uniform(0, 1) for _ in range(50)]
    n, dn = ctx.driver.ask_ints("C06.total", enc_floats(a))
    if Fraction(n, dn) != sum((Fraction(x) for x in a), Fraction(0)):
        raise RuntimeError("driver total differs from exact sum")
    ctx.hit("driver-decoding-selftest", len(vals) + 1)


def corpus_cases(ctx):
    """minimal witnesses kept from past failures (corpus/C06/*.json, run first)"""
    import json

    out = []
    for f in sorted((common.CORPUS / "C06").glob("*.json")):
        out.append(json.loads(f.read_text()))
    ctx.hit("corpus-cases", len(out))
    return out


def run(ctx):
    import uxarray as ux  # noqa: F401

    rng = ctx.rng
    ctx.rule = ("histories of integrate() calls on one grid object: meshes = pyramids (n_node=n_face, incl. tetrahedron), single "
                "polygons and disjoint triangles (n_node=n_edge), harness/meshes.zoo, sample files (thorough); per call: element dim "
                "n_face / n_node / n_edge / malformed, 0..3 leading dims, dtype float64/float32/int64/int32/bool, name, all 15 "
                "(rule, order) pairs round-robin, constant-1 data once per grid; distinct = distinct (mesh, call); non-trivial = "
                "non-face element dim, or non-constant data on >1 faces; NAME × LENGTH product of the last dimension; PROCESS-STATE "
                "streams: 24 (quick) / 40 (thorough) grids of one family (equal n_face, different geometry; rings, hulls, patches), "
                "interleaved with grids of another size, built → integrated with one (mostly non-default) rule → released "
                "(del + gc.collect(), no reference kept) one after another, every fifth kept alive next to its successor; every history "
                "ends with default-rule integrals (integrate() without arguments, explicit triangular/4, another rule) → read "
                "grid.face_areas → move the nodes through the node_lon/node_lat setters → the same integrals → grid.face_areas = "
                "<other areas> → the same integrals; MPAS primal and dual sample (stored areaCell/areaTriangle) in every tier")
    ctx.assumptions = [
        "face areas are inputs of the model: they are the floats returned by an independent compute_face_areas(rule, order) call "
        "on a separately built Grid (their geometric correctness is C05) — the property's 'areas as computed with the requested rule "
        "and order': NOT whatever the grid carries as its face_areas variable (MPAS areaCell/areaTriangle, caller-set areas), and "
        "after node_lon/node_lat were replaced through the setters the reference grid is rebuilt FRESH from the moved coordinates",
        "float tolerance n_face·2^-52·Σ|terms|: Lean theorem close_of_rounded / spec_values_of_rounded — EVERY bracketing of EVERY permutation "
        "of the terms evaluated in the standard model of binary64 arithmetic (relative error ≤ 2^-53 per product and per addition, FMA "
        "included) lies inside it, for n_face ≤ 2^53; assumed, not proved: that np.einsum / np.dot obey the standard model "
        "(no underflow/overflow, no reduced-precision accumulation)",
        "the element dimension is the last one (DESIGN 'Interpretation choices'); a non-grid name is judged when its length equals "
        "n_node or n_edge (must be rejected), otherwise only compared with the model (rejected, as /repo does)",
        "no dependence on previously integrated grids / on process state is a CORRESPONDENCE obligation, not a theorem: the model's "
        "integrate is a function of (this grid's areas, the data) by construction; the process-state streams test that the code is "
        "too (address re-use by later grids is counted in coverage.process_state, it cannot be forced)",
        "UxDataset can only be built from a dict of variables here; the legacy UxDataset.integrate is exercised on 1-D variables",
        "unsupported orders are never generated (gaussian 11 segfaults inside numba: out of the property's quantifier)",
    ]
    driver_selftest(ctx)
    for case in corpus_cases(ctx):
        judge_history(ctx, case, "corpus")
    pool = []
    ms = [pyramid(3, rng), pyramid(rng.choice([4, 5, 6, 7]), rng), meshes.hull(4, rng), polygon(rng.choice([3, 4, 5, 6, 7, 8]), rng),
          meshes.isolated(rng.choice([2, 3])), balanced(rng.choice([6, 7, 8, 9]), rng)]
    zoo = meshes.zoo(rng, big=False)
    rng.shuffle(zoo)
    ms += zoo[: ctx.n(6, len(zoo))]
    for rep in range(ctx.n(0, 6)):
        z = meshes.zoo(rng, big=(rep == 0))
        ms += z + [pyramid(k, rng) for k in (3, 4, 5, 6, 7, 8)] + [polygon(k, rng) for k in (3, 4, 5, 6, 7, 8)]
        ms += [meshes.isolated(k) for k in (1, 2, 3)] + [balanced(n, rng) for n in (5, 6, 8, 10, 13)]
    for m in ms:
        md = mesh_dict(m)
        try:
            sizes = sizes_of(md)
        except Exception as e:
            ctx.hit(f"skipped:grid-construction-{type(e).__name__}")
            continue
        big = sizes["n_face"] > 150
        judge_history(ctx, history_for(ctx, md, sizes, pool, ctx.n(2, 5), big=big))
    files = ["quad-hexagon", "mpas-QU-1920km", "mpas-QU-1920km+dual"] if not (ctx.thorough or ctx.escalate) else list(FILES) + ["mpas-QU-1920km+dual"]
    for f in files:
        md = dict(file=FILES[f.split("+")[0]], kind=f, **({"use_dual": True} if f.endswith("+dual") else {}))
        f = f.split("+")[0]
        if not sample_path(FILES[f]).exists():
            ctx.hit("skipped:file-missing")
            continue
        try:
            sizes = sizes_of(md)
        except Exception as e:
            ctx.hit(f"skipped:file-{f}-{type(e).__name__}")
            continue
        big = sizes["n_face"] > 150
        judge_history(ctx, history_for(ctx, md, sizes, pool, ctx.n(2, 3), big=big))
    # process-state streams (no dependence on previously integrated grids)
    import gc

    gc.collect()
    for _ in range(ctx.n(3, 10)):
        run_process(ctx, gen_process(ctx, ctx.n(24, 40)))
    ctx.extra["rules_covered"] = sorted(k for k in ctx.stats if k.startswith("rule:"))


def replay(ctx, rp):
    if rp["input"].get("kind") == "process":
        run_process(ctx, rp["input"])
    else:
        judge_history(ctx, rp["input"], "replay")
