"""C03 — incidence tables are exact transposes of one another.

Correspondence: Grid.node_face_connectivity / edge_face_connectivity / face_face_connectivity /
hole_edge_indices / n_max_node_faces / n_max_face_faces of the real code vs the Lean model
`Incidence.build`; the verdict on the implementation's output is the Lean predicate
`Incidence.Spec` (proved of the model for every input meeting `Incidence.Pre` in Props/C03.lean).
"""

from __future__ import annotations

import numpy as np

from . import common, meshes
from .common import INT_FILL, enc_ints, enc_pairs, enc_rows

SPEC_MAX_FACES = 90  # the Lean spec is O(F^2 E); larger meshes are judged through the model


def observe(g):
    NF = g.node_face_connectivity.values
    EF = g.edge_face_connectivity.values
    FF = np.asarray(g.face_face_connectivity.values)
    H = np.asarray(g.hole_edge_indices.values)
    return dict(
        nodeFace=[[int(x) for x in r] for r in NF],
        edgeFace=[(int(a), int(b)) for a, b in EF],
        faceFace=[[int(x) for x in r] for r in FF],
        holes=[int(x) for x in H],
        n_max_node_faces=int(g.n_max_node_faces),
        n_max_face_faces=int(g.n_max_face_faces),
        dtypes=dict(node_face=str(NF.dtype), edge_face=str(EF.dtype), face_face=str(FF.dtype)),
        fills=dict(
            node_face=g.node_face_connectivity.attrs.get("_FillValue"),
            edge_face=g.edge_face_connectivity.attrs.get("_FillValue"),
            face_face=g.face_face_connectivity.attrs.get("_FillValue"),
        ),
    )


def enc_in(n, w, t, FE, N, n_edge):
    return " ".join([str(n), str(w), enc_rows(t), enc_rows(FE), enc_ints(N), str(n_edge)])


def msets(table):
    return [sorted(x for x in r if x != INT_FILL) for r in table]


def judge_grid(ctx, g, inp, tag, key, prefix="C03/"):
    d = ctx.driver
    t = [[int(x) for x in r] for r in g.face_node_connectivity.values]
    FE = [[int(x) for x in r] for r in g.face_edge_connectivity.values]
    N = [int(x) for x in g.n_nodes_per_face.values]
    n, w, n_edge = int(g.n_node), int(g.n_max_face_nodes), int(g.n_edge)
    try:
        o = observe(g)
    except Exception as e:
        ctx.case(key, sample=inp)
        ctx.fail(f"{prefix}raises/{type(e).__name__}", f"incidence construction raises {type(e).__name__}: {e}", inp)
        return
    enc = enc_in(n, w, t, FE, N, n_edge)
    pre = d.ask("C03.pre", enc)
    ctx.case(key, nontrivial=len(t) > 1, sample=dict(inp, implementation=o) if len(t) <= 3 else None)
    ctx.hit("pre-holds" if pre == "1" else "pre-fails(non-manifold)")
    if pre != "1":
        return  # outside the property's quantifier (not manifold): not judged
    iso = sum(1 for r in o["faceFace"] if all(x == INT_FILL for x in r))
    ctx.hit("isolated-face" if iso else "no-isolated-face")
    ctx.hit("holes" if o["holes"] else "closed")
    ctx.hit("valence<=%d" % min(8, o["n_max_node_faces"]))
    # run-time type facts (not model facts): standard integer type and padding value
    for name, dt in o["dtypes"].items():
        if dt != "int64":
            ctx.fail(f"C03/dtype/{name}={dt}", f"{name}_connectivity has dtype {dt}, not the standard integer type", inp, o, None, ["dtype"])
    for name, fv in o["fills"].items():
        if fv is not None and int(fv) != INT_FILL:
            ctx.fail(f"C03/fill/{name}", f"{name}_connectivity declares _FillValue {fv}", inp, o, None, ["fill"])
    mo = common.Tok(d.ask("C03.model", enc))
    model = dict(nodeFace=mo.rows(), edgeFace=mo.pairs(), faceFace=mo.rows(), holes=mo.ints())
    same = all(o[k] == model[k] for k in ("nodeFace", "edgeFace", "faceFace", "holes"))
    if same:
        ctx.hit("identical-to-model")
    if len(t) <= SPEC_MAX_FACES or not same:
        verdict = d.ask("C03.spec", enc, enc_rows(o["nodeFace"]), enc_pairs(o["edgeFace"]),
                        enc_rows(o["faceFace"]), enc_ints(o["holes"]))
        ctx.hit("lean-spec-evaluated")
        if verdict != "ok":
            clauses = verdict.split(" ", 1)[1].split(",")
            ctx.fail(prefix + "+".join(clauses), "incidence tables are not mutual transposes: " + verdict, inp, o, model, clauses)
            return
    if o["n_max_node_faces"] != len(o["nodeFace"][0]):
        ctx.fail("C03/n_max_node_faces", "n_max_node_faces differs from the table width", inp, o, model, ["n_max_node_faces"])
    if o["n_max_face_faces"] != len(o["faceFace"][0]):
        ctx.fail("C03/n_max_face_faces", "n_max_face_faces differs from the table width", inp, o, model, ["n_max_face_faces"])
    if not same:
        # padding position is free for node_face / face_face: compare rows as multisets
        if (msets(o["nodeFace"]) != msets(model["nodeFace"]) or msets(o["faceFace"]) != msets(model["faceFace"])
                or o["edgeFace"] != model["edgeFace"] or sorted(o["holes"]) != sorted(model["holes"])):
            ctx.mismatch("C03/tables-as-multisets", inp, o, model)


def judge(ctx, m, tag):
    import uxarray as ux

    inp = dict(mesh=m.describe(), table=m.rows(), tag=tag)
    g = meshes.to_grid(m, ux)
    judge_grid(ctx, g, inp, tag, (tag, m.rows()))


PRE_ATTRS = ["edge_node_connectivity", "face_edge_connectivity", "edge_face_connectivity", "node_face_connectivity",
             "face_face_connectivity", "hole_edge_indices", "edge_face_distances"]


def draw_derivation(rng, m):
    """what is read on the parent first, then 1-2 selections (faces in ANY order, non-adjacent, single; or by
    nodes / edges) and possibly a copy(): the tables of the derived grid must be transposes of ITS face table"""
    pre = rng.sample(PRE_ATTRS, rng.randint(0, 4))
    steps, nf = [], m.n_face
    for i in range(rng.choice([1, 1, 2])):
        if nf < 1:
            break
        if i == 0 and rng.random() < 0.25:
            kind = rng.choice(["n_node", "n_edge"])
            hi = m.n_node if kind == "n_node" else max(1, m.n_face)  # an edge index below n_face always exists? no: clipped at run time
            steps.append([kind, rng.sample(range(hi), rng.randint(1, min(hi, 4)))])
            break
        k = rng.randint(1, max(1, min(nf, 12)))
        sel = rng.sample(range(nf), k)
        if rng.random() < 0.3:
            sel.sort()
        steps.append(["n_face", sel])
        nf = k
    if rng.random() < 0.2:
        steps.append(["copy", []])
    return dict(pre=pre, steps=steps)


def derive(g, der):
    for name in der["pre"]:
        getattr(g, name)
    for kind, sel in der["steps"]:
        if kind == "copy":
            g = g.copy()
        else:
            hi = {"n_face": g.n_face, "n_node": g.n_node, "n_edge": g.n_edge}[kind]
            g = g.isel(**{kind: [int(x) % hi for x in sel]})
    return g


def judge_derived(ctx, m, tag, der=None):
    import uxarray as ux

    der = der or draw_derivation(ctx.rng, m)
    inp = dict(mesh=m.describe(), table=m.rows(), tag=tag, derivation=der)
    key = (tag, m.rows(), str(der))
    try:
        g = derive(meshes.to_grid(m, ux), der)
    except Exception as e:
        ctx.case(key, sample=inp)
        ctx.fail(f"C03/derived/raises/{type(e).__name__}", f"deriving the grid raises {type(e).__name__}: {e}", inp)
        return
    ctx.hit("derived:" + "+".join(k for k, _ in der["steps"]))
    ctx.hit("derived:parent-read-first" if der["pre"] else "derived:fresh-parent")
    judge_grid(ctx, g, inp, tag, key, prefix="C03/derived/")


def sample_files(ctx):
    """sources that ship their own tables (MPAS): judged by the same Lean spec"""
    import uxarray as ux

    f = common.REPO / "test/meshfiles/mpas/QU/mesh.QU.1920km.151026.nc"
    if not f.exists():
        ctx.notes.append("MPAS sample file missing: supplied-table case skipped")
        return
    for dual in (False, True):
        try:
            g = ux.open_grid(str(f), use_dual=dual)
        except Exception as e:
            ctx.notes.append(f"MPAS sample (dual={dual}) could not be opened: {e}")
            continue
        supplied = [k for k in ("node_face_connectivity", "edge_face_connectivity", "face_face_connectivity") if k in g._ds]
        ctx.hit("mpas-supplied:" + ",".join(s.split("_conn")[0] for s in supplied))
        inp = dict(file=str(f.relative_to(common.REPO)), use_dual=dual, supplied=supplied)
        judge_supplied(ctx, g, inp)


def judge_supplied(ctx, g, inp):
    """file-supplied tables: every clause of the spec is about membership, so it applies as is"""
    d = ctx.driver
    t = [[int(x) for x in r] for r in g.face_node_connectivity.values]
    FE = [[int(x) for x in r] for r in g.face_edge_connectivity.values]
    N = [int(x) for x in g.n_nodes_per_face.values]
    n, w, n_edge = int(g.n_node), int(g.n_max_face_nodes), int(g.n_edge)
    if len(t) > 3 * SPEC_MAX_FACES:
        ctx.notes.append("supplied-table sample too large for the Lean spec: skipped")
        return
    enc = enc_in(n, w, t, FE, N, n_edge)
    ctx.case(("file", inp["file"], inp["use_dual"]), sample=None)
    if d.ask("C03.pre", enc) != "1":
        ctx.hit("supplied:pre-fails")
        ctx.notes.append(f"{inp}: supplied face_edge table does not meet Pre (e.g. its own edge numbering is not tied to face_edge): not judged")
        return
    o = observe(g)
    verdict = d.ask("C03.spec", enc, enc_rows(o["nodeFace"]), enc_pairs(o["edgeFace"]), enc_rows(o["faceFace"]), enc_ints(o["holes"]))
    if verdict != "ok":
        clauses = verdict.split(" ", 1)[1].split(",")
        ctx.fail("C03/supplied/" + "+".join(clauses), "file-supplied incidence tables are not mutual transposes after reading: " + verdict,
                 inp, dict(dtypes=o["dtypes"]), None, clauses)


def small_scope(ctx):
    """random small tables: <= 5 faces of sizes 3..5 over <= 8 nodes, any numbering (faces with and
    without neighbours interleaved, faces sharing only a corner, several shared edges); inputs that are
    not manifold are filtered out by the Lean precondition"""
    import itertools

    rng = ctx.rng
    N = 8
    xyz = np.array([meshes._ll(41.0 * i - 170, 13.0 * i - 45) for i in range(N)])
    done, tries = 0, 0
    want = ctx.n(60, 1500)
    while done < want and tries < 20 * want:
        tries += 1
        nf = rng.randint(2, 5)
        fs = []
        for _ in range(nf):
            k = rng.choice([3, 3, 4, 5])
            fs.append(rng.sample(range(N), k))
        used = sorted({v for f in fs for v in f})
        if rng.random() < 0.4:
            # keep nodes that no face uses (valence 0), anywhere in the numbering: a regional cut-out
            # that kept its parent's node arrays
            keep = sorted(set(used) | set(rng.sample(range(N), rng.randint(1, 2))))
            ctx.hit("unused-node" if len(keep) > len(used) else "no-unused-node")
            used = keep
        mp = {v: i for i, v in enumerate(used)}
        m = meshes.AMesh([[mp[v] for v in f] for f in fs], xyz[used], False, "small-scope")
        before = ctx.stats["pre-holds"]
        judge(ctx, m, "small")
        if ctx.stats["pre-holds"] > before:
            done += 1


def run(ctx):
    ctx.rule = ("meshes from harness/meshes.zoo (closed and partial, isolated faces, holes, valence 3..8, mixed sizes, random "
                "renumbering; archipelagos interleaving faces with and without neighbours) + random small tables (2..5 faces "
                "over <= 8 nodes) filtered by the Lean precondition Incidence.Pre; grids DERIVED from them (random reads on the parent, then "
                "isel by faces in any order / nodes / edges, chains, copy()) judged against their own face table; MPAS sample with file-supplied tables; distinct = "
                "distinct face-node table; non-trivial = more than one face")
    ctx.assumptions = ["dict/list/np.pad semantics of the Python loops are tied to the model only by this differential run",
                       "face_edge_connectivity / n_nodes_per_face are taken from the implementation (their correctness is C02)"]
    small_scope(ctx)
    for rep in range(ctx.n(2, 10)):
        for m in meshes.zoo(ctx.rng, big=(ctx.thorough or ctx.escalate or rep == 0)):
            judge(ctx, m, m.kind)
            if m.n_face <= 40 and ctx.rng.random() < 0.35:
                mo = meshes.with_orphans(m, ctx.rng)
                ctx.hit("orphan-nodes@" + mo.kind.rsplit("@", 1)[1])
                judge(ctx, mo, mo.kind)
            if m.n_face <= 200 and ctx.rng.random() < 0.5:
                judge_derived(ctx, m, m.kind + "+derived")
    sample_files(ctx)


def replay(ctx, rp):
    inp = rp["input"]
    if "table" not in inp:
        sample_files(ctx)
        return
    t = inp["table"]
    faces = [[v for v in r if v != INT_FILL] for r in t]
    n = max(max(f) for f in faces) + 1
    xyz = np.array([meshes._ll(37.0 * i - 170, 11.0 * (i % 14) - 70) for i in range(n)])
    m = meshes.AMesh(faces, xyz, inp["mesh"].get("closed", False), "replay")
    if inp.get("derivation"):
        judge_derived(ctx, m, "replay", inp["derivation"])
        return
    judge(ctx, m, "replay")
