"""C03 — incidence tables are exact transposes of one another.

Correspondence: Grid.node_face_connectivity / edge_face_connectivity / face_face_connectivity /
hole_edge_indices / n_max_node_faces / n_max_face_faces of the real code vs the Lean model
`Incidence.build`; the verdict on the implementation's output is the Lean predicate
`Incidence.Spec` (proved of the model for every input meeting `Incidence.Pre` in Props/C03.lean).
"""

from __future__ import annotations

import numpy as np

from . import common, meshes
from .common import INT_FILL, enc_ints, enc_pairs, enc_rows

# The driver decides Pre / Spec with `Incidence.preFast` / `Incidence.failingFast`, PROVED equal to the
# specification's own Booleans (C03.preFast_eq, C03.failingFast_eq, C03.specFast_eq_spec), so every case of
# any size is judged by the Lean spec.  The specification's own (cubic) decision procedure is run next to
# it on small cases only, as a cross-check of the compiled driver.
REF_MAX_FACES = 12


READS = ("node_face", "edge_face", "face_face", "holes")


def observe(g, first=None):
    """read the four incidence variables of the grid, `first` first (each getter may build and cache others: the
    first access decides which code path fills the caches)"""
    got = {}
    for name in ([first] if first else []) + [r for r in READS if r != first]:
        if name == "holes":
            got[name] = np.asarray(g.hole_edge_indices.values)
        else:
            got[name] = np.asarray(getattr(g, name + "_connectivity").values)
    NF, EF, FF, H = got["node_face"], got["edge_face"], got["face_face"], got["holes"]
    return dict(
        nodeFace=[[int(x) for x in r] for r in NF],
        edgeFace=[(int(a), int(b)) for a, b in EF],
        faceFace=[[int(x) for x in r] for r in FF],
        holes=[int(x) for x in H],
        n_max_node_faces=int(g.n_max_node_faces),
        n_max_face_faces=int(g.n_max_face_faces),
        dtypes=dict(node_face=str(NF.dtype), edge_face=str(EF.dtype), face_face=str(FF.dtype)),
        fills=dict(
            node_face=g.node_face_connectivity.attrs.get("_FillValue"),
            edge_face=g.edge_face_connectivity.attrs.get("_FillValue"),
            face_face=g.face_face_connectivity.attrs.get("_FillValue"),
        ),
    )


def first_read_of(key):
    """which variable is read first on this grid: a function of the case (all four occur across a run) that does
    not consume the case generator's random stream"""
    import zlib

    return READS[zlib.crc32(repr(key).encode()) % 4]


def enc_in(n, w, t, FE, N, n_edge):
    return " ".join([str(n), str(w), enc_rows(t), enc_rows(FE), enc_ints(N), str(n_edge)])


def msets(table):
    return [sorted(x for x in r if x != INT_FILL) for r in table]


def judge_grid(ctx, g, inp, tag, key, prefix="C03/", first=None):
    d = ctx.driver
    t = [[int(x) for x in r] for r in g.face_node_connectivity.values]
    FE = [[int(x) for x in r] for r in g.face_edge_connectivity.values]
    N = [int(x) for x in g.n_nodes_per_face.values]
    n, w, n_edge = int(g.n_node), int(g.n_max_face_nodes), int(g.n_edge)
    first = first or inp.get("first_read") or first_read_of(key)
    inp = dict(inp, first_read=first)
    ctx.hit("first-read:" + first)
    try:
        o = observe(g, first)
    except Exception as e:
        ctx.case(key, sample=inp)
        ctx.fail(f"{prefix}raises/{type(e).__name__}", f"incidence construction raises {type(e).__name__}: {e}", inp)
        return
    enc = enc_in(n, w, t, FE, N, n_edge)
    pre = d.ask("C03.pre", enc)
    if len(t) <= REF_MAX_FACES and d.ask("C03.pre_ref", enc) != pre:
        raise RuntimeError(f"C03 driver: preFast and decide Pre disagree on {inp}")
    ctx.case(key, nontrivial=len(t) > 1, sample=dict(inp, implementation=o) if len(t) <= 3 else None)
    ctx.hit("pre-holds" if pre == "1" else "pre-fails(non-manifold)")
    if pre != "1":
        return  # outside the property's quantifier (not manifold): not judged
    iso = sum(1 for r in o["faceFace"] if all(x == INT_FILL for x in r))
    ctx.hit("isolated-face" if iso else "no-isolated-face")
    ctx.hit("holes" if o["holes"] else "closed")
    ctx.hit("valence<=%d" % min(8, o["n_max_node_faces"]))
    # run-time type facts (not model facts): standard integer type and padding value
    for name, dt in o["dtypes"].items():
        if dt != "int64":
            ctx.fail(f"C03/dtype/{name}={dt}", f"{name}_connectivity has dtype {dt}, not the standard integer type", inp, o, None, ["dtype"])
    for name, fv in o["fills"].items():
        if fv is not None and int(fv) != INT_FILL:
            ctx.fail(f"C03/fill/{name}", f"{name}_connectivity declares _FillValue {fv}", inp, o, None, ["fill"])
    mo = common.Tok(d.ask("C03.model", enc))
    model = dict(nodeFace=mo.rows(), edgeFace=mo.pairs(), faceFace=mo.rows(), holes=mo.ints())
    same = all(o[k] == model[k] for k in ("nodeFace", "edgeFace", "faceFace", "holes"))
    if same:
        ctx.hit("identical-to-model")
    out_enc = (enc_rows(o["nodeFace"]), enc_pairs(o["edgeFace"]), enc_rows(o["faceFace"]), enc_ints(o["holes"]))
    verdict = d.ask("C03.spec", enc, *out_enc)
    ctx.hit("lean-spec-evaluated")
    if len(t) > 90:
        ctx.hit("lean-spec-evaluated:>90-faces")
    if len(t) <= REF_MAX_FACES:
        if d.ask("C03.spec_ref", enc, *out_enc) != verdict:
            raise RuntimeError(f"C03 driver: failingFast and failing disagree on {inp}")
        ctx.hit("fast==reference-spec")
    if verdict != "ok":
        clauses = verdict.split(" ", 1)[1].split(",")
        ctx.fail(prefix + "+".join(clauses), "incidence tables are not mutual transposes: " + verdict, inp, o, model, clauses)
        return
    if o["n_max_node_faces"] != len(o["nodeFace"][0]):
        ctx.fail("C03/n_max_node_faces", "n_max_node_faces differs from the table width", inp, o, model, ["n_max_node_faces"])
    if o["n_max_face_faces"] != len(o["faceFace"][0]):
        ctx.fail("C03/n_max_face_faces", "n_max_face_faces differs from the table width", inp, o, model, ["n_max_face_faces"])
    if not same:
        # padding position is free for node_face / face_face: compare rows as multisets
        if (msets(o["nodeFace"]) != msets(model["nodeFace"]) or msets(o["faceFace"]) != msets(model["faceFace"])
                or o["edgeFace"] != model["edgeFace"] or sorted(o["holes"]) != sorted(model["holes"])):
            ctx.mismatch("C03/tables-as-multisets", inp, o, model)
        else:
            ctx.hit("differs-from-model-in-free-order-only")


def judge(ctx, m, tag, first=None):
    import uxarray as ux

    inp = dict(mesh=m.describe(), table=m.rows(), tag=tag)
    if first:
        inp["first_read"] = first
    g = meshes.to_grid(m, ux)
    judge_grid(ctx, g, inp, tag, (tag, m.rows()) + ((first,) if first else ()), first=first)


def disjoint_union(ms, extra_nodes=0, kind="union"):
    """several meshes side by side as ONE grid (disconnected components), plus nodes no face uses"""
    faces, xyz, off = [], [], 0
    for m in ms:
        faces += [[v + off for v in f] for f in m.faces]
        xyz.append(m.xyz)
        off += m.n_node
    for i in range(extra_nodes):
        xyz.append(np.array([meshes._ll(160.0 - 7 * i, -60.0 + 5 * i)]))
    return meshes.AMesh(faces, np.vstack(xyz), False, kind)


def patches_stream(ctx):
    """NON-closed meshes on which the Euler count V - E + F takes the values 1, 2, 3, ... : k = 1, 2, 3 disconnected
    open patches / isolated faces (V - E + F = k), an annulus (0) with 0..2 unused nodes (0, 1, 2); every mesh is
    judged four times on a FRESH grid, each of hole_edge_indices / node_face / edge_face / face_face read first"""
    rng = ctx.rng

    def piece(i):
        lon0, lat0 = -150.0 + 70.0 * i, rng.choice([-40.0, 5.0, 35.0])
        kind = rng.choice(["tri", "quad", "patch", "fan"])
        if kind == "tri":
            xyz = np.array([meshes._ll(lon0, lat0), meshes._ll(lon0 + 10, lat0), meshes._ll(lon0 + 5, lat0 + 9)])
            return meshes.AMesh(meshes._orient([[0, 1, 2]], xyz), xyz, False, "tri")
        if kind == "fan":
            return meshes.fan(rng.choice([3, 4, 5]), lon0=lon0, lat0=lat0, r=9.0, full=False)
        nx, ny = (1, 1) if kind == "quad" else (rng.choice([1, 2, 3]), rng.choice([1, 2]))
        return meshes.patch(nx, ny, lon0=lon0, lat0=lat0)

    cases = []
    for k in (1, 2, 3):
        for _ in range(ctx.n(1, 4)):
            cases.append(disjoint_union([piece(i) for i in range(k)], kind=f"{k}-patches"))
    ring = meshes.patch(3, 3)
    ring = ring.select([i for i in range(9) if i != 4], kind="annulus")
    for j in (0, 1, 2):
        cases.append(disjoint_union([ring], extra_nodes=j, kind=f"annulus+{j}-unused-nodes"))
    cases.append(disjoint_union([meshes.isolated(2)], kind="two-isolated-triangles"))
    for m in cases:
        if rng.random() < 0.5:
            m = m.renumber(rng)
        ctx.hit("euler-count(non-closed)=%d" % (m.n_node - len({tuple(sorted(e)) for f in m.faces for e in zip(f, f[1:] + f[:1])}) + m.n_face))
        for first in READS:
            judge(ctx, m, m.kind + "+first=" + first, first=first)




PRE_ATTRS = ["edge_node_connectivity", "face_edge_connectivity", "edge_face_connectivity", "node_face_connectivity",
             "face_face_connectivity", "hole_edge_indices", "edge_face_distances"]


def draw_derivation(rng, m):
    """what is read on the parent first, then 1-2 selections (faces in ANY order, non-adjacent, single; or by
    nodes / edges) and possibly a copy(): the tables of the derived grid must be transposes of ITS face table"""
    pre = rng.sample(PRE_ATTRS, rng.randint(0, 4))
    steps, nf = [], m.n_face
    for i in range(rng.choice([1, 1, 2])):
        if nf < 1:
            break
        if i == 0 and rng.random() < 0.25:
            kind = rng.choice(["n_node", "n_edge"])
            hi = m.n_node if kind == "n_node" else max(1, m.n_face)  # an edge index below n_face always exists? no: clipped at run time
            steps.append([kind, rng.sample(range(hi), rng.randint(1, min(hi, 4)))])
            break
        k = rng.randint(1, max(1, min(nf, 12)))
        sel = rng.sample(range(nf), k)
        if rng.random() < 0.3:
            sel.sort()
        steps.append(["n_face", sel])
        nf = k
    if rng.random() < 0.2:
        steps.append(["copy", []])
    return dict(pre=pre, steps=steps)


def derive(g, der):
    for name in der["pre"]:
        getattr(g, name)
    for kind, sel in der["steps"]:
        if kind == "copy":
            g = g.copy()
        else:
            hi = {"n_face": g.n_face, "n_node": g.n_node, "n_edge": g.n_edge}[kind]
            g = g.isel(**{kind: [int(x) % hi for x in sel]})
    return g


def judge_derived(ctx, m, tag, der=None):
    import uxarray as ux

    der = der or draw_derivation(ctx.rng, m)
    inp = dict(mesh=m.describe(), table=m.rows(), tag=tag, derivation=der)
    key = (tag, m.rows(), str(der))
    try:
        g = derive(meshes.to_grid(m, ux), der)
    except Exception as e:
        ctx.case(key, sample=inp)
        ctx.fail(f"C03/derived/raises/{type(e).__name__}", f"deriving the grid raises {type(e).__name__}: {e}", inp)
        return
    ctx.hit("derived:" + "+".join(k for k, _ in der["steps"]))
    ctx.hit("derived:parent-read-first" if der["pre"] else "derived:fresh-parent")
    judge_grid(ctx, g, inp, tag, key, prefix="C03/derived/")


BUILT_SAMPLES_QUICK = ["test/meshfiles/exodus/mixed/mixed.exo", "test/meshfiles/ugrid/ov_RLL10deg_CSne4/ov_RLL10deg_CSne4.ug",
                       "test/meshfiles/geos-cs/c12/test-c12.native.nc4", "test/meshfiles/ugrid/geoflow-small/grid.nc"]
BUILT_SAMPLES_THOROUGH = ["test/meshfiles/scrip/outCSne8/outCSne8.nc", "test/meshfiles/ugrid/outCSne30/outCSne30.ug"]


def _sample(rel):
    """a sample data file: from the tree under test, else (scratch copies made with `rsync uxarray/` carry no
    data files) from /repo — the data are inputs, not code under test"""
    from pathlib import Path

    p = common.REPO / rel
    return p if p.exists() else Path("/repo") / rel


def sample_files(ctx):
    """sources that ship their own tables (MPAS, primal and dual): judged by the same Lean spec; and the
    suite's larger sample grids (hundreds to thousands of faces, tables built by the code), judged like
    every generated mesh: by the Lean spec and against the model"""
    import uxarray as ux

    mpas = "test/meshfiles/mpas/QU/mesh.QU.1920km.151026.nc"
    f = _sample(mpas)
    if not f.exists():
        ctx.notes.append("MPAS sample file missing: supplied-table case skipped")
    else:
        for dual in (False, True):
            try:
                g = ux.open_grid(str(f), use_dual=dual)
            except Exception as e:
                # the file is a valid MPAS mesh (it opens on the unchanged code): not being able to read it is a failure
                ctx.case(("file", mpas, dual), sample=None)
                ctx.fail(f"C03/supplied/open-raises/{type(e).__name__}", f"opening the MPAS sample (use_dual={dual}) raises {type(e).__name__}: {e}",
                         dict(file=mpas, use_dual=dual))
                continue
            supplied = [k for k in ("node_face_connectivity", "edge_face_connectivity", "face_face_connectivity") if k in g._ds]
            ctx.hit("mpas-supplied:" + ",".join(s.split("_conn")[0] for s in supplied))
            inp = dict(file=mpas, use_dual=dual, supplied=supplied)
            judge_supplied(ctx, g, inp)
    for rel in BUILT_SAMPLES_QUICK + (BUILT_SAMPLES_THOROUGH if ctx.thorough else []):
        p = _sample(rel)
        if not p.exists():
            ctx.notes.append(f"sample grid {rel} missing: skipped")
            continue
        try:
            g = ux.open_grid(str(p))
        except Exception as e:
            ctx.case(("file", rel), sample=None)
            ctx.fail(f"C03/file/open-raises/{type(e).__name__}", f"opening the sample grid {rel} raises {type(e).__name__}: {e}", dict(file=rel))
            continue
        ctx.hit("sample-grid-file")
        judge_grid(ctx, g, dict(file=rel), "file", ("file", rel), prefix="C03/file/")


STORES = {"i32": np.int32, "i64": np.int64, "f64": np.float64}
TABLES = ("face_node_connectivity", "edge_node_connectivity", "face_edge_connectivity", "edge_face_connectivity",
          "face_face_connectivity", "node_face_connectivity", "hole_edge_indices", "n_nodes_per_face")


def snapshot(g):
    """every table of the grid the specification reads, as the user sees it now"""
    return {k: np.asarray(getattr(g, k).values).tolist() for k in TABLES}


def judge_reopened(ctx, fmt, src, opens, inp, key, opener=None, comparable=None, expect_pre=False, post=None):
    """the SAME source (an in-memory dataset, or a file) is opened once per entry of `opens` (keyword arguments of
    open_grid): every grid is judged by the Lean spec against its own tables; afterwards every earlier grid must
    still show the tables it showed when it was opened (and still meet the spec), and grids opened the same way
    must show the same tables.  A source that a reader converts in place gives a right first grid and wrong /
    changed later ones."""
    import uxarray as ux

    opener = opener or (lambda src, kw: ux.open_grid(src, **kw))
    comparable = comparable or (lambda i, k: opens[i] == opens[k])
    grids, snaps = [], []
    for k, kw in enumerate(opens):
        sub = "" if k == 0 else "reopened/"
        inp_k = dict(inp, opening=k, open_kwargs=kw)
        try:
            g = opener(src, kw)
        except Exception as e:
            ctx.case(key + (k,), sample=None)
            ctx.fail(f"C03/supplied/{sub}{fmt}/open-raises/{type(e).__name__}",
                     f"opening #{k + 1} of the same {fmt} source raises {type(e).__name__}: {e}", inp_k)
            return
        supplied = [x for x in ("node_face_connectivity", "edge_face_connectivity", "face_face_connectivity") if x in g._ds]
        if k == 0:
            ctx.hit(f"{fmt}-supplied:" + ",".join(x.split("_conn")[0] for x in supplied))
        else:
            ctx.hit(f"{fmt}-reopened")
        judge_supplied(ctx, g, dict(inp_k, supplied=supplied), key=key + (k,), prefix=f"C03/supplied/{sub}{fmt}/", expect_pre=expect_pre)
        if post:
            post(g, inp_k, f"C03/supplied/{sub}{fmt}/")
        try:
            snaps.append(snapshot(g))
        except Exception as e:
            ctx.fail(f"C03/supplied/{sub}{fmt}/raises/{type(e).__name__}", f"reading the tables of grid #{k + 1} raises {type(e).__name__}: {e}", inp_k)
            return
        grids.append(g)
    if len(grids) < 2:
        return
    for k, g in enumerate(grids[:-1]):
        try:
            now = snapshot(g)
        except Exception as e:
            ctx.fail(f"C03/supplied/reopened/{fmt}/raises/{type(e).__name__}", f"grid #{k + 1} raises after the source was opened again: {e}", inp)
            return
        changed = [t for t in TABLES if now[t] != snaps[k][t]]
        if changed:
            ctx.fail(f"C03/supplied/reopened/{fmt}/grid-{k + 1}-changed/" + "+".join(changed),
                     f"the tables of grid #{k + 1} changed after the same source was opened again: {changed}",
                     dict(inp, opening=k), {t: now[t] for t in changed}, {t: snaps[k][t] for t in changed}, ["tables_stable"])
            return
    # the first grid once more through the Lean spec (what it reports now, cached derived tables included)
    judge_supplied(ctx, grids[0], dict(inp, opening=0, rejudged_after=len(grids) - 1), key=key + ("rejudged",), prefix=f"C03/supplied/reopened/{fmt}/rejudged/")
    for k in range(1, len(grids)):
        first = next(i for i in range(k + 1) if i == k or comparable(i, k))
        if first == k:
            continue
        differ = [t for t in TABLES if snaps[k][t] != snaps[first][t]]
        if differ:
            ctx.fail(f"C03/supplied/reopened/{fmt}/tables-of-grid-{k + 1}-differ-from-grid-{first + 1}/" + "+".join(differ),
                     f"the same source opened the same way twice gives different tables: {differ}",
                     dict(inp, opening=k), {t: snaps[k][t] for t in differ}, {t: snaps[first][t] for t in differ}, ["same_source_same_tables"])
            return
    ctx.hit(f"{fmt}-reopened:all-grids-agree")


def _with_source(ctx, ds, via_file, name, body):
    """run body(src) with src = the in-memory dataset itself (REUSED by every opening) or a NetCDF file of it"""
    if not via_file:
        return body(ds)
    import os, shutil, tempfile

    tmp = tempfile.mkdtemp(prefix="c03_src_")
    try:
        path = os.path.join(tmp, name)
        ds.to_netcdf(path)
        return body(path)
    finally:
        shutil.rmtree(tmp, ignore_errors=True)


def draw_source_dialect(rng, **kw):
    return dict(store=rng.choice(["i32", "i64", "i64", "f64"]), n_open=rng.choice([2, 2, 3]), via_file=rng.random() < 0.25, **kw)


def icon_like(ctx, m, tag, dialect=None):
    """an ICON-style source: a triangle mesh whose file supplies face_edge / edge_face / face_face / edge_node itself
    (one-based, stored (n_max, n_elem) as int32, int64 or float64, a missing neighbour written as 0 or -1, the neighbour
    of slot j lying across edge slot j so that padding may sit in the MIDDLE of a face_face row).  The supplied tables
    are written from a grid of the same mesh whose tables were built by the code; what is judged is every grid read
    back through the ICON reader from the SAME source opened two or three times (judge_reopened)."""
    import uxarray as ux
    import xarray as xr

    dialect = dict(dict(store="i32", n_open=1, via_file=False), **(dialect or draw_source_dialect(ctx.rng, missing=ctx.rng.choice([0, -1]))))
    inp = dict(mesh=m.describe(), table=m.rows(), tag=tag, icon_like=dialect, file="icon-like:" + tag, use_dual=False)
    miss, dt = dialect["missing"], STORES[dialect["store"]]
    g0 = meshes.to_grid(m, ux)
    T = g0.face_node_connectivity.values
    FE0, EF0, EN0 = g0.face_edge_connectivity.values, g0.edge_face_connectivity.values, g0.edge_node_connectivity.values

    def one_based(tab):
        return np.where(tab == INT_FILL, miss, tab + 1).astype(dt).T.copy()

    nb = np.full(FE0.shape, INT_FILL, dtype=np.int64)
    for f in range(FE0.shape[0]):
        for j, e in enumerate(FE0[f]):
            if e != INT_FILL:
                other = [int(x) for x in EF0[e] if x != INT_FILL and x != f]
                nb[f, j] = other[0] if other else INT_FILL

    def lonlat(xyz):
        xyz = xyz / np.linalg.norm(xyz, axis=1, keepdims=True)
        return np.arctan2(xyz[:, 1], xyz[:, 0]), np.arcsin(np.clip(xyz[:, 2], -1, 1))

    el, ea = lonlat(m.xyz[EN0[:, 0]] + m.xyz[EN0[:, 1]])
    cl, ca = lonlat(np.array([m.xyz[[v for v in r if v != INT_FILL]].mean(axis=0) for r in T]))
    ds = xr.Dataset()
    ds["vlon"] = xr.DataArray(np.radians(m.lon), dims=["vertex"])
    ds["vlat"] = xr.DataArray(np.radians(m.lat), dims=["vertex"])
    ds["elon"], ds["elat"] = xr.DataArray(el, dims=["edge"]), xr.DataArray(ea, dims=["edge"])
    ds["clon"], ds["clat"] = xr.DataArray(cl, dims=["cell"]), xr.DataArray(ca, dims=["cell"])
    ds["vertex_of_cell"] = xr.DataArray(one_based(T), dims=["nv", "cell"])
    ds["edge_of_cell"] = xr.DataArray(one_based(FE0), dims=["nv", "cell"])
    ds["neighbor_cell_index"] = xr.DataArray(one_based(nb), dims=["nv", "cell"])
    ds["adjacent_cell_of_edge"] = xr.DataArray(one_based(EF0), dims=["nc", "edge"])
    ds["edge_vertices"] = xr.DataArray(one_based(EN0), dims=["nc", "edge"])
    ctx.hit("icon-like:holes" if (EF0[:, 1] == INT_FILL).any() else "icon-like:closed")
    ctx.hit("source-store:" + dialect["store"] + ("/file" if dialect["via_file"] else "/in-memory"))
    key = ("icon", tag, m.rows(), str(sorted(dialect.items())))
    _with_source(ctx, ds, dialect["via_file"], "icon_like.nc",
                 lambda src: judge_reopened(ctx, "icon", src, [{}] * dialect["n_open"], inp, key))


def ugrid_supplied(ctx, m, tag, dialect=None):
    """a UGRID source that supplies ALL the incidence tables itself (face_edge, edge_face, face_face, node_face, edge_node),
    in a drawn storage dtype / start_index / fill value, the same dataset opened two or three times"""
    import uxarray as ux
    import xarray as xr

    dialect = dialect or draw_source_dialect(ctx.rng, start=ctx.rng.choice([0, 1]), fill=ctx.rng.choice(["std", -1, 999999]))
    inp = dict(mesh=m.describe(), table=m.rows(), tag=tag, ugrid_supplied=dialect, file="ugrid-supplied:" + tag, use_dual=False)
    dt, start = STORES[dialect["store"]], dialect["start"]
    fv = INT_FILL if dialect["fill"] == "std" else dialect["fill"]
    if dialect["store"] != "i64" and fv == INT_FILL:
        fv = -1
    g0 = meshes.to_grid(m, ux)
    ds = xr.Dataset()
    ds["Mesh2"] = xr.DataArray(np.int32(0), attrs=dict(
        cf_role="mesh_topology", topology_dimension=2, node_coordinates="Mesh2_node_x Mesh2_node_y",
        face_node_connectivity="Mesh2_face_nodes", edge_node_connectivity="Mesh2_edge_nodes", face_edge_connectivity="Mesh2_face_edges",
        edge_face_connectivity="Mesh2_edge_faces", face_face_connectivity="Mesh2_face_faces", node_face_connectivity="Mesh2_node_faces",
        edge_dimension="nMesh2_edge", edge_coordinates="Mesh2_edge_x Mesh2_edge_y"))
    ds["Mesh2_node_x"] = xr.DataArray(m.lon.copy(), dims=["nMesh2_node"])
    ds["Mesh2_node_y"] = xr.DataArray(m.lat.copy(), dims=["nMesh2_node"])
    # edge coordinates: the reader names the edge dimension after them
    EN0 = g0.edge_node_connectivity.values
    exyz = m.xyz[EN0[:, 0]] + m.xyz[EN0[:, 1]]
    exyz = exyz / np.linalg.norm(exyz, axis=1, keepdims=True)
    ds["Mesh2_edge_x"] = xr.DataArray(np.degrees(np.arctan2(exyz[:, 1], exyz[:, 0])), dims=["nMesh2_edge"])
    ds["Mesh2_edge_y"] = xr.DataArray(np.degrees(np.arcsin(np.clip(exyz[:, 2], -1, 1))), dims=["nMesh2_edge"])
    for name, attr, dims in (("Mesh2_face_nodes", "face_node_connectivity", ("nMesh2_face", "nMaxMesh2_face_nodes")),
                             ("Mesh2_edge_nodes", "edge_node_connectivity", ("nMesh2_edge", "Two")),
                             ("Mesh2_face_edges", "face_edge_connectivity", ("nMesh2_face", "nMaxMesh2_face_nodes")),
                             ("Mesh2_edge_faces", "edge_face_connectivity", ("nMesh2_edge", "Two")),
                             ("Mesh2_face_faces", "face_face_connectivity", ("nMesh2_face", "nMaxMesh2_face_nodes")),
                             ("Mesh2_node_faces", "node_face_connectivity", ("nMesh2_node", "nMaxMesh2_node_faces"))):
        tab = np.asarray(getattr(g0, attr).values)
        ds[name] = xr.DataArray(np.where(tab == INT_FILL, fv, tab + start).astype(dt), dims=dims,
                                attrs=dict(start_index=start, _FillValue=dt(fv)))
    ctx.hit("source-store:" + dialect["store"] + ("/file" if dialect["via_file"] else "/in-memory"))
    key = ("ugrid-supplied", tag, m.rows(), str(sorted(dialect.items(), key=str)))
    _with_source(ctx, ds, dialect["via_file"], "ugrid_supplied.nc",
                 lambda src: judge_reopened(ctx, "ugrid", src, [{}] * dialect["n_open"], inp, key))


TOPO_FORMS = [("std", 0), (-1, 0), (-1, 1), (0, 1), (999999, 1)]
TOPO_TABLES = ("edge_node_connectivity", "face_edge_connectivity", "edge_face_connectivity", "node_face_connectivity", "face_face_connectivity")


def topology_supplied(ctx, m, tag, dialect=None):
    """explicit topology with caller-supplied OPTIONAL tables: Grid.from_topology(..., fill_value, start_index, **tables) and
    open_grid(dict).  A drawn subset of {edge_node, face_edge, edge_face, node_face, face_face} is supplied (node_face /
    edge_face / face_face as the Lean model builds them, edge_node / face_edge as a grid of the same mesh derives them),
    written - like face_node itself - with a drawn (fill_value, start_index) and storage dtype.  Supplied tables are
    carried as they are, so the Lean spec must hold on them against the grid's own zero-based face table; the same
    arrays are used for two or three constructions through both entries (judge_reopened)."""
    import uxarray as ux

    rng = ctx.rng
    if dialect is None:
        fv, start = rng.choice(TOPO_FORMS)
        k = rng.randint(1, len(TOPO_TABLES))
        dialect = dict(fill=fv, start=start, store=rng.choice(["i64", "i64", "i32", "f64"]), tables=sorted(rng.sample(TOPO_TABLES, k)),
                       entries=[rng.choice(["from_topology", "open_grid"]) for _ in range(rng.choice([2, 2, 3]))])
    inp = dict(mesh=m.describe(), table=m.rows(), tag=tag, topology_supplied=dialect, file="topology:" + tag, use_dual=False)
    start = dialect["start"]
    fv = INT_FILL if dialect["fill"] == "std" else dialect["fill"]
    store = dialect["store"] if fv != INT_FILL else "i64"
    dt = STORES[store]
    g0 = meshes.to_grid(m, ux)
    t = [[int(x) for x in r] for r in g0.face_node_connectivity.values]
    FE = [[int(x) for x in r] for r in g0.face_edge_connectivity.values]
    N = [int(x) for x in g0.n_nodes_per_face.values]
    n, w, n_edge = int(g0.n_node), int(g0.n_max_face_nodes), int(g0.n_edge)
    mo = common.Tok(ctx.driver.ask("C03.model", enc_in(n, w, t, FE, N, n_edge)))
    model = dict(node_face_connectivity=mo.rows(), edge_face_connectivity=[list(p) for p in mo.pairs()], face_face_connectivity=mo.rows())
    std = dict(model, face_node_connectivity=t, face_edge_connectivity=FE,
               edge_node_connectivity=[[int(x) for x in r] for r in g0.edge_node_connectivity.values])

    def written(name):
        a = np.asarray(std[name], dtype=np.int64)
        return np.where(a == INT_FILL, fv, a + start).astype(dt)

    src = dict(node_lon=m.lon.copy(), node_lat=m.lat.copy(), face_node_connectivity=written("face_node_connectivity"),
               fill_value=dt(fv) if store != "f64" else float(fv), start_index=start)
    for name in dialect["tables"]:
        src[name] = written(name)
    ctx.hit(f"topology-form:fill={dialect['fill']},start={start}")
    ctx.hit("source-store:" + store + "/arrays")
    ctx.hit("topology-tables:%d" % len(dialect["tables"]))

    def opener(src, kw):
        ctx.hit("topology-entry:" + kw["entry"])
        return ux.Grid.from_topology(**src) if kw["entry"] == "from_topology" else ux.open_grid(src)

    def carried(g, inp_k, prefix):
        # a supplied table is carried as it is (re-based to zero, standard fill): the grid shows exactly what was written
        for name in ["face_node_connectivity"] + list(dialect["tables"]):
            try:
                got = [[int(x) for x in r] for r in np.asarray(getattr(g, name).values).tolist()]
            except Exception as e:
                ctx.fail(f"{prefix}carried/{name}/raises/{type(e).__name__}", f"reading the supplied {name} raises {type(e).__name__}: {e}", inp_k)
                continue
            if got != std[name]:
                ctx.fail(f"{prefix}carried/{name}", f"the supplied {name} is not carried over zero-based with the standard fill value", inp_k,
                         got[:30], std[name][:30], ["carried"])

    pre0 = ctx.driver.ask("C03.pre", enc_in(n, w, t, FE, N, n_edge)) == "1"
    key = ("topology", tag, m.rows(), str(sorted(dialect.items(), key=str)))
    judge_reopened(ctx, "topology", src, [dict(entry=e) for e in dialect["entries"]], inp, key, opener=opener, comparable=lambda i, k: True,
                   expect_pre=pre0, post=carried)


def mpas_reopened(ctx, dialect=None):
    """the MPAS sample as ONE in-memory dataset (connectivity kept int32 or widened to int64) opened as primal, dual, primal"""
    import xarray as xr

    mpas = "test/meshfiles/mpas/QU/mesh.QU.1920km.151026.nc"
    f = _sample(mpas)
    if not f.exists():
        return
    dialect = dialect or dict(store=ctx.rng.choice(["i32", "i64"]))
    with xr.open_dataset(str(f)) as fds:
        ds = fds.load()
    if dialect["store"] == "i64":
        for k in list(ds.data_vars):
            if ds[k].dtype.kind == "i":
                ds[k] = ds[k].astype(np.int64)
    ctx.hit("source-store:" + dialect["store"] + "/in-memory")
    inp = dict(file=mpas, mpas_reopened=dialect, use_dual=None)
    judge_reopened(ctx, "mpas", ds, [{}, {"use_dual": True}, {}], inp, ("mpas-reopened", dialect["store"]))


def judge_supplied(ctx, g, inp, key=None, prefix="C03/supplied/", expect_pre=False):
    """file-supplied tables: every clause of the spec is about membership, so it applies as is"""
    d = ctx.driver
    ctx.case(key or ("file", inp["file"], inp["use_dual"]), nontrivial=True, sample=None)
    try:
        t = [[int(x) for x in r] for r in g.face_node_connectivity.values]
        FE = [[int(x) for x in r] for r in g.face_edge_connectivity.values]
        N = [int(x) for x in g.n_nodes_per_face.values]
        n, w, n_edge = int(g.n_node), int(g.n_max_face_nodes), int(g.n_edge)
    except Exception as e:
        ctx.fail(f"{prefix}raises/{type(e).__name__}", f"reading the face tables of a grid with file-supplied tables raises {type(e).__name__}: {e}", inp)
        return
    enc = enc_in(n, w, t, FE, N, n_edge)
    if d.ask("C03.pre", enc) != "1":
        ctx.hit("supplied:pre-fails")
        if expect_pre:
            # the tables written into the source meet Pre (decided by Lean before writing): the grid's own face_edge / face_node no longer do
            ctx.fail(prefix + "pre-lost", "the source's tables meet Incidence.Pre but the grid's face_node / face_edge / n_edge read back do not "
                     "(entries out of range or an edge in no / more than two faces)", inp, dict(face_node=t[:20], face_edge=FE[:20], n_edge=n_edge), None, ["pre"])
            return
        ctx.notes.append(f"{ {k: v for k, v in inp.items() if k != 'table'} }: supplied face_edge table does not meet Pre (e.g. its own edge numbering is not tied to face_edge): not judged")
        return
    try:
        o = observe(g)
    except Exception as e:
        ctx.fail(f"{prefix}raises/{type(e).__name__}", f"reading the incidence tables of a grid with file-supplied tables raises {type(e).__name__}: {e}", inp)
        return
    verdict = d.ask("C03.spec", enc, enc_rows(o["nodeFace"]), enc_pairs(o["edgeFace"]), enc_rows(o["faceFace"]), enc_ints(o["holes"]))
    ctx.hit("supplied:lean-spec-evaluated")
    if verdict != "ok":
        clauses = verdict.split(" ", 1)[1].split(",")
        ctx.fail(prefix + "+".join(clauses), "file-supplied incidence tables are not mutual transposes after reading: " + verdict,
                 inp, dict(dtypes=o["dtypes"]), None, clauses)


def small_scope(ctx):
    """random small tables: <= 5 faces of sizes 3..5 over <= 8 nodes, any numbering (faces with and
    without neighbours interleaved, faces sharing only a corner, several shared edges); inputs that are
    not manifold are filtered out by the Lean precondition"""
    import itertools

    rng = ctx.rng
    N = 8
    xyz = np.array([meshes._ll(41.0 * i - 170, 13.0 * i - 45) for i in range(N)])
    done, tries = 0, 0
    want = ctx.n(60, 1500)
    while done < want and tries < 20 * want:
        tries += 1
        nf = rng.randint(2, 5)
        fs = []
        for _ in range(nf):
            k = rng.choice([3, 3, 4, 5])
            fs.append(rng.sample(range(N), k))
        used = sorted({v for f in fs for v in f})
        if rng.random() < 0.4:
            # keep nodes that no face uses (valence 0), anywhere in the numbering: a regional cut-out
            # that kept its parent's node arrays
            keep = sorted(set(used) | set(rng.sample(range(N), rng.randint(1, 2))))
            ctx.hit("unused-node" if len(keep) > len(used) else "no-unused-node")
            used = keep
        mp = {v: i for i, v in enumerate(used)}
        m = meshes.AMesh([[mp[v] for v in f] for f in fs], xyz[used], False, "small-scope")
        before = ctx.stats["pre-holds"]
        judge(ctx, m, "small")
        if ctx.stats["pre-holds"] > before:
            done += 1


def run(ctx):
    ctx.rule = ("meshes from harness/meshes.zoo (closed and partial, isolated faces, holes, valence 3..8, mixed sizes, random "
                "renumbering; archipelagos interleaving faces with and without neighbours) + random small tables (2..5 faces "
                "over <= 8 nodes) filtered by the Lean precondition Incidence.Pre; grids DERIVED from them (random reads on the parent, then "
                "isel by faces in any order / nodes / edges, chains, copy()) judged against their own face table; MPAS sample (primal and dual) with "
                "file-supplied tables, synthetic ICON-style sources (triangle meshes, closed and with holes, whose file supplies face_edge / edge_face / "
                "face_face one-based with 0 or -1 for a missing neighbour) and UGRID sources supplying all incidence tables, stored as int32 / int64 / float64, "
                "k = 1..3 disconnected open patches and an annulus with unused nodes (Euler count 0..3 on NON-closed meshes); the variable read FIRST on each fresh "
                "grid (hole_edge_indices / node_face / edge_face / face_face) is a drawn dimension, all four on every patch mesh; explicit topologies (Grid.from_topology(**tables) / open_grid(dict)) with drawn subsets of caller-supplied tables written in a drawn (fill_value, start_index) and dtype; "
                "the SAME in-memory dataset / arrays (or file) opened 2-3 times (MPAS: primal, dual, primal): every grid judged, earlier grids re-read and re-judged, grids compared and the suite's larger sample grids (up to 3840 faces in quick, 5400 in thorough), all judged by the Lean spec; distinct = "
                "distinct face-node table; non-trivial = more than one face")
    ctx.assumptions = ["dict/list/np.pad semantics of the Python loops are tied to the model only by this differential run",
                       "face_edge_connectivity / n_nodes_per_face are taken from the implementation (their correctness is C02)"]
    small_scope(ctx)
    for rep in range(ctx.n(2, 10)):
        for m in meshes.zoo(ctx.rng, big=(ctx.thorough or ctx.escalate or rep == 0)):
            judge(ctx, m, m.kind)
            if m.n_face <= 40 and ctx.rng.random() < 0.35:
                mo = meshes.with_orphans(m, ctx.rng)
                ctx.hit("orphan-nodes@" + mo.kind.rsplit("@", 1)[1])
                judge(ctx, mo, mo.kind)
            if m.n_face <= 200 and ctx.rng.random() < 0.5:
                judge_derived(ctx, m, m.kind + "+derived")
    for rep in range(ctx.n(6, 40)):
        rng = ctx.rng
        m = rng.choice([meshes.icosa, lambda: meshes.hull(rng.choice([6, 9, 14, 25]), rng), lambda: meshes.bipyramid(rng.choice([3, 4, 5, 6])),
                        lambda: meshes.fan(rng.choice([3, 4, 5, 6]))])()
        if rng.random() < 0.6:
            m = m.drop_faces(rng, rng.choice([0.2, 0.4, 0.7]))
        if rng.random() < 0.7:
            m = m.renumber(rng)
        if all(len(f) == 3 for f in m.faces):
            dl = draw_source_dialect(rng, missing=rng.choice([0, -1]))
            if rep < 2:  # always present: the dataset already holds the standard integer type, in memory, opened three times
                dl.update(store="i64", via_file=False, n_open=3)
            icon_like(ctx, m, m.kind + "+icon-like", dl)
    for rep in range(ctx.n(4, 30)):
        rng = ctx.rng
        m = rng.choice([lambda: meshes.patch(rng.choice([1, 2, 3]), rng.choice([1, 2])).split_some(rng), lambda: meshes.cube_sphere(rng.choice([1, 2])),
                        lambda: meshes.prism(rng.choice([3, 5, 6])), lambda: meshes.dual_of(meshes.hull(rng.choice([8, 12]), rng)).drop_faces(rng, 0.3),
                        lambda: meshes.archipelago(rng)])()
        if rng.random() < 0.7:
            m = m.renumber(rng)
        dl = draw_source_dialect(rng, start=rng.choice([0, 1]), fill=rng.choice(["std", -1, 999999]))
        if rep < 2:
            dl.update(store="i64", via_file=False, n_open=3, start=rep, fill="std" if rep else -1)
        ugrid_supplied(ctx, m, m.kind + "+ugrid-supplied", dl)
    for rep in range(ctx.n(10, 60)):
        rng = ctx.rng
        m = rng.choice([lambda: meshes.patch(rng.choice([1, 2, 3]), rng.choice([1, 2])).split_some(rng), lambda: meshes.cube_sphere(rng.choice([1, 2])),
                        lambda: meshes.prism(rng.choice([3, 5, 6])), lambda: meshes.hull(rng.choice([6, 10]), rng).drop_faces(rng, 0.3),
                        lambda: meshes.fan(rng.choice([4, 6]), full=False), lambda: meshes.archipelago(rng)])()
        if rng.random() < 0.7:
            m = m.renumber(rng)
        dl = None
        if rep < len(TOPO_FORMS):  # every (fill_value, start_index) form with all tables supplied, through both entries, in every run
            dl = dict(fill=TOPO_FORMS[rep][0], start=TOPO_FORMS[rep][1], store=["i64", "i32", "i64", "f64", "i32"][rep], tables=sorted(TOPO_TABLES),
                      entries=["from_topology", "open_grid", "from_topology"])
        topology_supplied(ctx, m, m.kind + "+topology-supplied", dl)
    patches_stream(ctx)
    mpas_reopened(ctx)
    sample_files(ctx)


def replay(ctx, rp):
    inp = rp["input"]
    if "table" not in inp:
        if inp.get("mpas_reopened"):
            mpas_reopened(ctx, inp["mpas_reopened"])
        else:
            sample_files(ctx)
        return
    t = inp["table"]
    faces = [[v for v in r if v != INT_FILL] for r in t]
    n = max(max(f) for f in faces) + 1
    xyz = np.array([meshes._ll(37.0 * i - 170, 11.0 * (i % 14) - 70) for i in range(n)])
    m = meshes.AMesh(faces, xyz, inp["mesh"].get("closed", False), "replay")
    if inp.get("derivation"):
        judge_derived(ctx, m, "replay", inp["derivation"])
        return
    if inp.get("icon_like"):
        icon_like(ctx, m, "replay", inp["icon_like"])
        return
    if inp.get("topology_supplied"):
        topology_supplied(ctx, m, "replay", inp["topology_supplied"])
        return
    if inp.get("ugrid_supplied"):
        ugrid_supplied(ctx, m, "replay", inp["ugrid_supplied"])
        return
    judge(ctx, m, "replay", first=inp.get("first_read"))
