"""C07 — encoding a grid and reading it back preserves the grid.

Lean side (Props/C07.lean, model Model/Encode.lean): ugrid_rt, exodus_rt_perm, scrip_rt, topology_closed (against
the regenerated conventions), template_invariant / encode_history_free (induction over any history),
derived_then_encode.  Tie: histories  [materialise S1 on g1; encode g1 as F1; encode g2 as F2; …]  are run on the
real code; every export is (a) judged by the Lean predicates on the exported structure (topology closed,
serialisable, readable; connect blocks hold the faces; corner table holds the faces), (b) re-opened with
``ux.open_grid`` directly and after ``to_netcdf`` to a scratch file and compared face-for-face with the abstract
mesh by the Lean predicate ``RoundTripOK`` (cyclic order; face order free for Exodus), (c) compared with the Lean
model's output for the whole history (``Encode.run`` with ``Cfg.repaired``).
"""

from __future__ import annotations

import hashlib
import json
import os
import re
import shutil
import tempfile

import numpy as np

from . import common, meshes, translate_conv
from .common import INT_FILL, enc_ints, enc_rows

FMTS = ["ugrid", "exodus", "scrip"]
FMT_CODE = {"ugrid": 0, "exodus": 1, "scrip": 2}
OLD_API = {"ugrid": "UGRID", "exodus": "Exodus", "scrip": "SCRIP"}
DERIVED = ["edge_node_connectivity", "face_edge_connectivity", "edge_face_connectivity", "node_face_connectivity",
           "face_face_connectivity", "n_nodes_per_face", "face_lon", "edge_lon", "node_x", "face_areas", "bounds",
           "edge_node_distances"]
# the eight families of DESIGN.md §6 (thorough: all 2^8 subsets)
FAMILIES = ["edge_node_connectivity", "face_edge_connectivity", "edge_face_connectivity", "node_face_connectivity",
            "face_face_connectivity", "face_lon", "face_areas", "bounds"]
XYZ_OK = 10**9
REPAIRED = "1 1 1 1 1 1 1 1"
SINGLE_BLOCK = "1 1 0 0 1 1 1 1"  # Cfg.repaired with the Exodus fill test / start bookkeeping as they stand


# --------------------------------------------------------------------------------------
# names across the integer-only protocol
# --------------------------------------------------------------------------------------
class Names:
    def __init__(self):
        self.tab = translate_conv.name_table()
        self.ix = {n: i for i, n in enumerate(self.tab)}
        self.rev = dict(enumerate(self.tab))

    def idx(self, s):
        s = str(s)
        if s not in self.ix:
            i = len(self.ix)
            self.ix[s] = i
            self.rev[i] = s
        return self.ix[s]

    def name(self, i):
        return self.rev.get(i, f"?{i}")

    def var(self, v):
        n, dims, attrs = v
        return " ".join([str(self.idx(n)), enc_ints(self.idx(d) for d in dims), str(len(attrs))]
                        + [f"{self.idx(k)} {kd}" for k, kd in attrs])

    def vars(self, vs):
        return " ".join([str(len(vs))] + [self.var(v) for v in vs])

    def topo(self, t):
        return " ".join([str(len(t))] + [f"{self.idx(k)} {enc_ints(self.idx(x) for x in v)}" for k, v in t])


def enc_ints(l):  # accepts generators
    l = [int(x) for x in l]
    return " ".join(str(x) for x in [len(l)] + l)


_STATE = {}


def _state():
    """pristine module-level state of the tree under test, captured before anything is encoded"""
    if not _STATE:
        import uxarray.conventions.ugrid as U

        _STATE["U"] = U
        _STATE["base"] = dict(U.BASE_GRID_TOPOLOGY_ATTRS)
        _STATE["edge"] = dict(U.EDGE_NODE_CONNECTIVITY_ATTRS)
        _STATE["names"] = Names()
    return _STATE


def reset_module_state():
    """every history starts from the state of a fresh process (so that a replay needs no predecessor)"""
    st = _state()
    U = st["U"]
    U.BASE_GRID_TOPOLOGY_ATTRS.clear()
    U.BASE_GRID_TOPOLOGY_ATTRS.update(st["base"])
    U.EDGE_NODE_CONNECTIVITY_ATTRS.clear()
    U.EDGE_NODE_CONNECTIVITY_ATTRS.update(st["edge"])


def split_topo(attrs):
    return [(str(k), v.split()) for k, v in attrs.items() if isinstance(v, str)]


# --------------------------------------------------------------------------------------
# observation helpers
# --------------------------------------------------------------------------------------
def obs_vars(ds, skip=("grid_topology",)):
    out = []
    for name, var in ds.variables.items():
        if name in skip:
            continue
        out.append((str(name), [str(d) for d in var.dims],
                    [(str(k), translate_conv.attr_kind(v)) for k, v in var.attrs.items()]))
    return out


def obs_encoding(ds, skip=("grid_topology",)):
    """xarray's .encoding of every variable that has one: [(name, [keys])]"""
    out = []
    for name, var in ds.variables.items():
        if name in skip or not var.encoding:
            continue
        out.append((str(name), sorted(str(k) for k in var.encoding)))
    return out


def canon_vars(vs):
    """what the correspondence compares of an export's variables: names and dimensions.  Which attributes travel
    is not the property's business beyond 'the file can be written' (judged by Lean on the real export)."""
    d = {}
    for n, dims, _attrs in vs:
        d.setdefault(n, list(dims))
    return d


def unit(lon, lat):
    lon, lat = np.radians(np.asarray(lon, float)), np.radians(np.asarray(lat, float))
    return np.stack([np.cos(lat) * np.cos(lon), np.cos(lat) * np.sin(lon), np.sin(lat)], axis=-1)


class Locator:
    """names a position by the node of the abstract mesh it coincides with (-1: none)"""

    def __init__(self, m, tol=1e-7):
        from scipy.spatial import cKDTree

        self.tree, self.tol = cKDTree(m.xyz), tol
        # nodes of the original that coincide (file sources may list a position twice) share one name
        self.rep = np.arange(m.n_node)
        for a, b in sorted(self.tree.query_pairs(tol)):
            self.rep[b] = min(self.rep[b], self.rep[a])

    def name_faces(self, faces):
        return [[int(self.rep[v]) for v in f] for f in faces]

    def name_rows(self, rows):
        return [[int(self.rep[v]) if v != INT_FILL else INT_FILL for v in r] for r in rows]

    def ids(self, lon, lat):
        p = unit(lon, lat)
        shape = p.shape[:-1]
        p = p.reshape(-1, 3)
        bad = ~np.isfinite(p).all(axis=1)
        p[bad] = 9.0
        d, i = self.tree.query(p)
        i = np.where(d <= self.tol, self.rep[np.minimum(i, len(self.rep) - 1)], -1)
        return i.reshape(shape)


def grid_faces(g, loc):
    """faces of a re-opened grid, corners named by the original node at the same position"""
    t = np.asarray(g.face_node_connectivity.values)
    ids = loc.ids(g.node_lon.values, g.node_lat.values)
    n = len(ids)
    out = []
    for r in t:
        f = []
        for v in r:
            if v == INT_FILL or (isinstance(v, float) and v != v):
                continue
            v = int(v)
            f.append(int(ids[v]) if 0 <= v < n else -1)
        out.append(f)
    return out


CARRIED = ["face_node_connectivity", "face_edge_connectivity", "face_face_connectivity", "edge_node_connectivity",
           "edge_face_connectivity", "node_edge_connectivity", "node_face_connectivity", "n_nodes_per_face"]


def int_rows(vals):
    """an integer table as rows (NaN padding of a float table read back as the fill value); None if not a table"""
    a = np.asarray(vals)
    if a.dtype.kind == "f":
        a = np.where(np.isnan(a), float(INT_FILL), a)
    if a.dtype.kind not in "iuf" or a.ndim not in (1, 2):
        return None
    a = a.astype(np.int64)
    return [a.tolist()] if a.ndim == 1 else a.tolist()


def mesh_json(m, source="topology", form=None):
    """source: 'topology' = Grid.from_topology(node_lon, node_lat, face_node_connectivity) (lon/lat only);
    'xyz' = Grid.from_face_vertices(Cartesian corner positions, latlon=False) (Cartesian only)"""
    j = dict(faces=m.faces, xyz=m.xyz.tolist(), kind=m.kind, closed=bool(m.closed), source=source)
    if form:
        j["coord_form"] = form
    return j


def meshfiles_dir():
    d = common.REPO / "test" / "meshfiles"
    return d if d.is_dir() else common.Path("/repo/test/meshfiles")


# every sample under test/meshfiles that ux.open_grid reads as a grid (fesom.mesh.diag.nc is read with faces and
# corners transposed - that is the readers' property, C01 - and is left out)
SAMPLE_FILES = ["ugrid/quad-hexagon/grid.nc", "ugrid/quad-hexagon/triangulated-grid.nc", "ugrid/ov_RLL10deg_CSne4/ov_RLL10deg_CSne4.ug",
                "ugrid/geoflow-small/grid.nc", "ugrid/outCSne30/outCSne30.ug", "ugrid/outRLL1deg/outRLL1deg.ug",
                "exodus/mixed/mixed.exo", "exodus/outCSne8/outCSne8.g", "scrip/outCSne8/outCSne8.nc",
                "mpas/QU/mesh.QU.1920km.151026.nc", "geos-cs/c12/test-c12.native.nc4", "esmf/ne30/ne30pg3.grid.nc"]


BIG_FILES = {"ugrid/geoflow-small/grid.nc", "ugrid/outCSne30/outCSne30.ug"}
HUGE_FILES = {"ugrid/outRLL1deg/outRLL1deg.ug", "esmf/ne30/ne30pg3.grid.nc"}


def file_json(rel):
    return dict(faces=[], xyz=[], kind="file:" + rel, closed=False, source="file", path=rel)


def grid_mesh(g, kind):
    """the abstract mesh a grid presents, in the grid's own node numbering"""
    t = np.asarray(g._ds["face_node_connectivity"].values)
    if "node_lon" in g._ds:
        xyz = unit(g._ds["node_lon"].values, g._ds["node_lat"].values)
    else:
        xyz = np.stack([g._ds["node_x"].values, g._ds["node_y"].values, g._ds["node_z"].values], axis=-1)
    m = meshes.AMesh([[int(v) for v in r if v != INT_FILL] for r in t], xyz, False, kind)
    m.w = int(t.shape[1])  # the grid's table may be wider than its widest face (a source with a spare padding column)
    return m


def grid_rows(m):
    return m.rows(getattr(m, "w", None))


def dialect_dataset(case):
    """the UGRID-convention dataset of C01's dialect `case` (harness/c01.py: gen_ugrid draws it, conn_array /
    ugrid_optional_elements / src_lon write it - imported, not copied); every table in its OWN dialect.  Kept inside
    the readers' quantifier: an undeclared base only where index 0 is used, no optional table with an empty row."""
    import xarray as xr

    from . import c01

    dl, faces, n = case["dialect"], case["faces"], len(case["lon"])
    nm = dl["names"]

    def table(rows, t, n_elem):
        if not rows or any(len(r) == 0 for r in rows):
            return None
        w = max(map(len, rows)) + t["extra_w"]
        fill = t["fill"]
        if fill is None and any(len(r) != w for r in rows):
            fill = -1
        declared = t["declared"] or not any(0 in r for r in rows)
        arr = c01.conn_array(rows, w, t["base"], fill, t["store"])
        at = {}
        if fill == "nanattr":
            at["_FillValue"] = np.nan
        elif fill not in (None, "nan"):
            at["_FillValue"] = c01.NP_STORE[t["store"]](fill)
        if declared:
            at["start_index"] = np.int32(t["base"])
        return arr, at

    ds = xr.Dataset()
    ds[nm["mesh"]] = xr.DataArray(np.int32(0), attrs=dict(cf_role="mesh_topology", topology_dimension=2,
                                                         node_coordinates=f"{nm['x']} {nm['y']}", face_node_connectivity=nm["conn"]))
    ds[nm["x"]] = xr.DataArray(c01.src_lon(case), dims=[nm["nd"]], attrs=dict(standard_name="longitude", units="degrees_east"))
    ds[nm["y"]] = xr.DataArray(np.asarray(case["lat"], float), dims=[nm["nd"]], attrs=dict(standard_name="latitude", units="degrees_north"))
    arr, at = table(faces, dl, n)
    ds[nm["conn"]] = xr.DataArray(arr, dims=[nm["fd"], nm["md"]], attrs=dict(at, cf_role="face_node_connectivity"))
    if dl.get("tables"):
        elems = c01.ugrid_optional_elements(faces, n)
        for k, (name, t) in enumerate(sorted(dl["tables"].items(), key=lambda kv: kv[1].get("order", 0))):
            rows, n_elem = elems[name]
            r = table(rows, t, n_elem)
            if r is None:
                continue
            var = f"{nm['conn']}_{name[:-13]}"
            tat = dict(r[1])
            if t.get("via") == "cf_role":
                tat["cf_role"] = name
            else:
                ds[nm["mesh"]].attrs[name] = var
            ds[var] = xr.DataArray(r[0], dims=[f"d{k}_rows", f"d{k}_cols"], attrs=tat)
    return ds


COORD_FORMS = ["float64", "float32", "int64", "int-list", "float-list"]


def whole(a):
    return bool(np.allclose(a, np.round(a), atol=1e-9))


def coord_as(a, form):
    """node_lon / node_lat in the dtype or container form of the history (integer forms only for whole degrees)"""
    a = np.asarray(a, float)
    if form in ("int64", "int-list") and not whole(a):
        form = "float64" if form == "int64" else "float-list"
    if form == "float32":
        return a.astype(np.float32)
    if form == "int64":
        return np.round(a).astype(np.int64)
    if form == "int-list":
        return [int(round(x)) for x in a]
    if form == "float-list":
        return [float(x) for x in a]
    return a.copy()


def whole_degree_mesh(rng, both=False):
    """meshes whose longitudes (and, with `both`, latitudes) are whole degrees: prisms over a divisor of 360, lattices"""
    if both:
        return meshes.patch(rng.choice([2, 3]), rng.choice([1, 2]), lon0=rng.choice([-30, 150, 170]), lat0=rng.choice([-20, 40, 70]),
                            dlon=rng.choice([5, 8]), dlat=rng.choice([4, 7]))
    k = rng.choice([3, 4, 5, 6, 8])
    return meshes.prism(k, lat=rng.choice([22.5, 35.26, 41.0]), lon0=float(rng.choice([-180, -90, 0, 45, 30])))


def draw_form(rng, m):
    lon_f = COORD_FORMS if whole(m.lon) else ["float64", "float32", "float-list"]
    lat_f = COORD_FORMS if whole(m.lat) else ["float64", "float32", "float-list"]
    return dict(lon=rng.choice(lon_f), lat=rng.choice(lat_f))


def build_grid(ux, m, source, j=None, tmp=None, hit=lambda k: None):
    """the grid and the abstract mesh in the GRID's node numbering (a face-vertex source numbers its nodes itself;
    for a sample file the grid ux.open_grid returns IS the original the exports are compared with)"""
    if source == "file":
        g = ux.open_grid(str(meshfiles_dir() / j["path"]))
        m2 = grid_mesh(g, j.get("kind", "file"))
        return g, m2
    if source == "dialect":
        # a grid the UGRID reader makes of a source in one of C01's dialects (start_index 0/1 declared or not, fill value
        # forms, storage types, optional tables each in its own dialect), in memory or through a file
        case = j["dialect_case"]
        try:
            src = dialect_dataset(case)
            if case.get("via_file"):
                fn = os.path.join(tmp, f"dl{len(os.listdir(tmp))}.nc")
                src.to_netcdf(fn)
                src = fn
            g = ux.open_grid(src)
            m2 = grid_mesh(g, m.kind + "+dialect")
            loc0 = Locator(m)
            ids = loc0.ids(m2.lon, m2.lat)
            if [[int(ids[v]) for v in f] for f in m2.faces] == loc0.name_faces(m.faces):
                dl = case["dialect"]
                hit("source:dialect")
                hit(f"source-dialect:start={dl['base'] if dl['declared'] else 'absent'}")
                hit(f"source-dialect:fill={dl['fill']}/{dl['store']}")
                return g, m2
            hit("source:dialect-grid-differs-from-input(readers, C01)")
        except Exception as e:
            hit(f"source:dialect-could-not-be-built:{type(e).__name__}")
        return meshes.to_grid(m, ux), m
    if source.startswith("reopened:"):
        # a grid that is itself the re-opened FILE of an earlier export (so it carries xarray's .encoding, the
        # reader's attributes, and - for UGRID/Exodus - every node of the first grid, unused ones included)
        fmt0 = source.split(":", 1)[1]
        try:
            fn = os.path.join(tmp, f"src{len(os.listdir(tmp))}.nc")
            meshes.to_grid(m, ux).to_xarray(fmt0).to_netcdf(fn)
            g = ux.open_grid(fn)
            m2 = grid_mesh(g, m.kind + "+" + source)
            ids = Locator(m).ids(m2.lon, m2.lat)
            same = ([[int(ids[v]) for v in f] for f in m2.faces] == Locator(m).name_faces(m.faces)) if fmt0 != "exodus" else (m2.n_face == m.n_face)
            if same:
                hit("source:" + source)
                return g, m2
            hit("source:reopened-differs-from-first-grid")  # reported by the histories that export the first grid
        except Exception:
            hit("source:reopened-could-not-be-built")
        return meshes.to_grid(m, ux), m
    form = (j or {}).get("coord_form")
    if source != "xyz":
        if not form:
            return meshes.to_grid(m, ux), m
        # the dtype / container form of the source coordinates is a dimension of the histories
        lon, lat = coord_as(m.lon, form.get("lon", "float64")), coord_as(m.lat, form.get("lat", "float64"))
        g = ux.Grid.from_topology(node_lon=lon, node_lat=lat, face_node_connectivity=m.table().copy(), fill_value=INT_FILL)
        hit(f"coord-form:lon={form.get('lon')},lat={form.get('lat')}")
        m2 = grid_mesh(g, m.kind + "+" + form.get("lon", "") + "/" + form.get("lat", ""))  # what the grid holds IS the original
        m2.tol = 1e-5 if "float32" in form.values() else 1e-7
        return g, m2
    verts = np.full((m.n_face, m.width, 3), float(INT_FILL))
    for i, f in enumerate(m.faces):
        verts[i, : len(f)] = m.xyz[f]
    if form and form.get("xyz") == "float32":
        verts = verts.astype(np.float32)
        verts[verts < -1e18] = np.float32(INT_FILL)
        hit("coord-form:xyz=float32")
    g = ux.Grid.from_face_vertices(verts, latlon=False)
    t = np.asarray(g._ds["face_node_connectivity"].values)
    xyz = np.stack([g._ds["node_x"].values, g._ds["node_y"].values, g._ds["node_z"].values], axis=-1)
    m2 = meshes.AMesh([[int(v) for v in r if v != INT_FILL] for r in t], xyz, m.closed, m.kind + "+xyz")
    if form and form.get("xyz") == "float32":
        m2.tol = 1e-5
    return g, m2


def mesh_from(j):
    if j.get("source") == "file":
        return None
    return meshes.AMesh(j["faces"], np.array(j["xyz"], float), j.get("closed", False), j.get("kind", "replay"))


def qual(m):
    s = set(m.sizes())
    if max(s) > 8:
        return "face-size>8"
    return "mixed-sizes" if len(s) > 1 else "uniform-size"


# --------------------------------------------------------------------------------------
# one history on the real code
# --------------------------------------------------------------------------------------
def execute(H, driver, stats=None):
    """Run history H on the implementation.  Returns dict(failures, mismatches, steps)."""
    import uxarray as ux

    st = _state()
    N, U = st["names"], st["U"]
    hit = (lambda k: stats.__setitem__(k, stats.get(k, 0) + 1)) if stats is not None else (lambda k: None)
    reset_module_state()
    ms0 = [mesh_from(j) for j in H["meshes"]]
    tmp = tempfile.mkdtemp(prefix="c07_")
    try:
        built = [build_grid(ux, m, j.get("source", "topology"), j, tmp, hit) for m, j in zip(ms0, H["meshes"])]
    except Exception:
        shutil.rmtree(tmp, ignore_errors=True)
        raise
    grids, ms = [b[0] for b in built], [b[1] for b in built]
    locs = [Locator(m, getattr(m, "tol", 1e-7)) for m in ms]
    init_vars = [obs_vars(g._ds, skip=()) for g in grids]
    init_enc = [obs_encoding(g._ds) for g in grids]
    init_start = [g._ds["face_node_connectivity"].attrs.get("start_index") for g in grids]
    failures, mismatches, steps = [], [], []
    model_ops, impl_outs = [], []
    for gi, (m0, m) in enumerate(zip(ms0, ms)):
        # a face-vertex source must describe the mesh it was given (that is the reader's property, C01)
        if m0 is None:
            hit("source:file")
        elif H["meshes"][gi].get("source", "").startswith(("reopened:", "dialect")):
            pass
        elif m is not m0:
            ids = Locator(m0, getattr(m, "tol", 1e-7)).ids(m.lon, m.lat)
            if [[int(ids[v]) for v in f] for f in m.faces] != m0.faces:
                mismatches.append(dict(relation="C07/source/face-vertices-grid-differs-from-input", step=-1))
            hit("source:xyz")

    def fail(step, sig, what, impl=None, clauses=()):
        failures.append(dict(signature=sig, what=what, step=step, implementation=impl, clauses=list(clauses)))

    try:
        for si, op in enumerate(H["ops"]):
            gi = op[1]
            g, m, loc = grids[gi], ms[gi], locs[gi]
            if op[0] == "mat":
                before = list(g._ds.variables)
                for q in op[2]:
                    try:
                        getattr(g, q)
                        hit("materialise:" + q)
                    except Exception as e:  # not this property's business
                        hit(f"materialise-raises:{q}:{type(e).__name__}")
                new = [v for v in obs_vars(g._ds, skip=()) if v[0] not in before]
                model_ops.append(f"0 {gi} {N.vars(new)}")
                impl_outs.append(None)
                same_pos = True
                if "node_lon" in g._ds:
                    same_pos = bool(np.abs(unit(g._ds["node_lon"].values, g._ds["node_lat"].values) - m.xyz).max() < 1e-9)
                if not (np.array_equal(g._ds["face_node_connectivity"].values, m.table(getattr(m, "w", None))) and same_pos):
                    mismatches.append(dict(relation="C07/frame/materialise-leaves-defining-variables", step=si))
                continue
            # ---- encode ----
            fmt, api = op[2], op[3]
            model_ops.append(f"1 {gi} {FMT_CODE[fmt]}")
            q = qual(m)
            rec = dict(step=si, fmt=fmt, grid=gi, qual=q)
            steps.append(rec)
            hit(f"encode:{fmt}")
            hit(f"class:{q}")
            try:
                hit(f"entry:{api}")
                if api == "encode_as":
                    out = g.encode_as(OLD_API[fmt])
                elif api == "to_xarray()" and fmt == "ugrid":
                    out = g.to_xarray()
                else:
                    out = g.to_xarray(fmt)
            except Exception as e:
                impl_outs.append(None)
                fail(si, f"C07/{fmt}/encode/raises/{type(e).__name__}/{q}",
                     f"encoding a {q} grid as {fmt} raises {type(e).__name__}: {str(e)[:160]}", None, ["encodes"])
                rec["result"] = "encode-raises"
                continue
            export_ok = True
            obs = {}
            # (a) the exported structure, judged by Lean
            if fmt == "ugrid":
                vs = obs_vars(out)
                topo = split_topo(out["grid_topology"].attrs) if "grid_topology" in out else []
                enc_o = obs_encoding(out)
                fs_o = out["face_node_connectivity"].attrs.get("start_index") if "face_node_connectivity" in out else None
                obs = dict(vars=canon_vars(vs), topo=dict(topo), encoding=dict(enc_o),
                           face_node_start_index=None if fs_o is None else int(fs_o))
                impl_outs.append(("ugrid", obs))
                v = driver.ask("C07.ugridspec", N.vars(vs), N.topo(topo), N.topo(enc_o))
                if v != "ok":
                    export_ok = False
                    cl = v.split(" ", 1)[1].split(",")
                    sig = "C07/ugrid/export/" + "+".join(cl)
                    what = "the UGRID export is not self-consistent / writable: " + ", ".join(cl)
                    if "encoding_conflict" in cl:
                        clash = sorted({k for n_, _, at in vs for k, _ in at if k in dict(enc_o).get(n_, [])})
                        sig += "/both-in-attrs-and-encoding=" + ",".join(clash)
                        what += f" (keys {clash} are both attributes and .encoding entries of a variable: to_netcdf refuses)"
                    if "serialisable" in cl:
                        bad = sorted({k for _, _, at in vs for k, kd in at if kd >= 3})
                        sig += "/attrs=" + ",".join(bad)
                        what += f" (attributes {bad} cannot be netCDF attributes)"
                    if "topology_closed" in cl:
                        names = {n for n, _, _ in vs} | {d for _, ds_, _ in vs for d in ds_}
                        missing = sorted({x for k, vv in topo if k not in ("cf_role", "long_name") for x in vv if x not in names})
                        what += f" (grid_topology names {missing}, absent from the dataset)"
                        kinds = []
                        if {"node_lon", "node_lat"} & set(missing):
                            kinds.append("node-coordinates-absent")
                        if set(missing) - {"node_lon", "node_lat"}:
                            kinds.append("names-left-by-another-export")
                        sig += "/" + "+".join(kinds)
                    fail(si, sig, what, obs, cl)
            elif fmt == "exodus":
                blocks, b = [], 1
                while f"connect{b}" in out:
                    arr = np.asarray(out[f"connect{b}"].values)
                    gid = np.asarray(out[f"global_id{b}"].values) if f"global_id{b}" in out else np.array([0])
                    rows = arr.tolist() if arr.ndim == 2 else [[int(x)] for x in arr.ravel()]
                    blocks.append((int(arr.shape[1]) if arr.ndim == 2 else 1, int(gid[0]) if gid.size else 0,
                                   [[int(x) for x in r] for r in rows]))
                    b += 1
                c = np.asarray(out["coord"].values, float)
                if c.ndim == 2 and c.shape[0] == 3:
                    nrm = np.linalg.norm(c, axis=0)
                    c = c / np.where(nrm > 0, nrm, 1.0)  # positions on the sphere are directions
                cls = []
                wrong = unit_rad(m.lon, m.lat)  # degrees handed to the radians function
                ctol = 1e-9 if getattr(m, "tol", 1e-7) <= 1e-7 else 1e-5  # float32 sources: their own precision
                for i in range(m.n_node):
                    if c.shape == (3, m.n_node) and np.abs(c[:, i] - m.xyz[i]).max() < ctol:
                        cls.append(i + XYZ_OK)
                    elif c.shape == (3, m.n_node) and np.abs(c[:, i] - wrong[i]).max() < ctol:
                        cls.append(i)
                    else:
                        cls.append(-1)
                obs = dict(blocks=blocks, coord=cls)
                impl_outs.append(("exodus", obs))
                encb = " ".join([str(len(blocks))] + [f"{k} {fid} {enc_rows(rows)}" for k, fid, rows in blocks])
                allok, lastok = driver.ask("C07.exospec", enc_rows(grid_rows(m)), encb).split()
                rec["blocks"] = len(blocks)
                hit(f"exodus-blocks={min(len(blocks), 5)}")
                if allok != "1":
                    export_ok = False
                    fail(si, f"C07/exodus/export/blocks-do-not-hold-the-faces/{q}",
                         "the connect blocks of the Exodus export are not the faces of the grid "
                         f"({len(blocks)} block(s) for face sizes {sorted(set(m.sizes()))})", obs, ["exodus_blocks"])
                rec["last_block_reader_suffices"] = lastok == "1"
                if any(x < XYZ_OK for x in cls):
                    export_ok = False
                    kind = "degrees-as-radians" if all(0 <= x < XYZ_OK for x in cls if x < XYZ_OK) else "wrong-position"
                    fail(si, f"C07/exodus/export/coord/{kind}",
                         "the Cartesian coordinates of the Exodus export are not the nodes' positions"
                         + (" (node_lon/node_lat in degrees are passed to a function expecting radians)" if kind.startswith("deg") else ""),
                         dict(coord_class=cls[:8]), ["exodus_coord"])
            else:
                lonc, latc = np.asarray(out["grid_corner_lon"].values), np.asarray(out["grid_corner_lat"].values)
                rows = loc.ids(lonc, latc).tolist() if lonc.ndim == 2 else []
                obs = dict(corners=rows)
                impl_outs.append(("scrip", obs))
                if driver.ask("C07.scripspec", enc_rows(loc.name_rows(grid_rows(m))), enc_rows(rows)) != "1":
                    export_ok = False
                    fail(si, f"C07/scrip/export/corners/{q}", "the corner table of the SCRIP export does not hold the faces' corner positions in order",
                         obs, ["scrip_corners"])
            # (b) re-open directly and after to_netcdf
            orig = loc.name_faces(m.faces)
            results = {}
            tables = {}
            carried = []
            if fmt == "ugrid":
                # every connectivity table the export carries, as the grid holds it NOW (copied: a reader that
                # works in place on shared arrays must not be able to touch the reference)
                for name in CARRIED:
                    if name in out and name in g._ds:
                        rows_o = int_rows(np.array(g._ds[name].values, copy=True))
                        if rows_o is not None:
                            sidx = out[name].attrs.get("start_index")
                            carried.append((name, sidx, rows_o))
                hit(f"carried-tables={min(len(carried), 8)}")
                if any(len(t) and min((x for r_ in t for x in r_ if x != INT_FILL), default=0) > 0 for _, _, t in carried):
                    hit("carried-table-not-using-index-0")
            for path in ("direct", "netcdf"):
                src = out
                if path == "netcdf":
                    fn = os.path.join(tmp, f"s{si}.nc")
                    try:
                        out.to_netcdf(fn)
                    except Exception as e:
                        mm = re.search(r"attr(?:ibute)? b?'([^']+)'", str(e))
                        m2_ = re.search(r"Key '([^']+)' already exists in attrs", str(e))
                        what_attr = ("both-in-attrs-and-encoding:" + m2_.group(1)) if m2_ else (mm.group(1) if mm else "")
                        results[path] = ("to_netcdf", type(e).__name__, what_attr, str(e)[:160])
                        continue
                    src = fn
                try:
                    r = ux.open_grid(src)
                    got = grid_faces(r, loc)
                except Exception as e:
                    results[path] = ("raises", type(e).__name__, "", str(e)[:160])
                    continue
                finally:
                    if path == "netcdf":
                        try:
                            os.remove(src)
                        except OSError:
                            pass
                v = driver.ask("C07.rt", FMT_CODE[fmt], enc_rows(orig), enc_rows(got))
                results[path] = ("ok",) if v == "ok" else ("faces", v.split(" ", 1)[1], "", dict(n_face=len(got), first=got[:3]))
                if carried:
                    req, gots = [], {}
                    for name, sidx, rows_o in carried:
                        rows_g = int_rows(r._ds[name].values) if name in r._ds else None
                        gots[name] = rows_g
                        has = sidx is not None
                        req.append(f"{N.idx(name)} {int(has)} {int(sidx) if has else 0} {enc_rows(rows_o)} "
                                   f"{enc_rows(rows_g if rows_g is not None else [])}")
                    ans = common.Tok(driver.ask("C07.tables", len(req), " ".join(req)))
                    bad = [N.name(i) for i in ans.ints()]
                    model_bad = [N.name(i) for i in ans.ints()]
                    # face_node_connectivity is judged by RoundTripOK (start corner free), the others entry by entry
                    bad = [b_ for b_ in bad if b_ != "face_node_connectivity"]
                    detail = {}
                    for b_ in bad[:3]:
                        ro = dict((n_, t_) for n_, _, t_ in carried)[b_]
                        rg = gots[b_]
                        k = next((i for i, (x, y) in enumerate(zip(ro, rg or [])) if x != y), 0)
                        detail[b_] = dict(row=k, grid=ro[k] if k < len(ro) else None,
                                          reopened=(rg[k] if rg and k < len(rg) else rg))
                    tables[path] = (tuple(bad), tuple(model_bad), detail)
            rec["reopen"] = {k: v[0] for k, v in results.items()}
            hit("reopen-ok" if all(v[0] == "ok" for v in results.values()) else "reopen-not-ok")
            # attribute a failure of a correct export to the reader
            why = q
            if fmt == "exodus" and export_ok and len(obs.get("blocks", [])) > 1 and not rec.get("last_block_reader_suffices"):
                why = "reader-keeps-last-block"
            elif fmt == "scrip" and export_ok and q != "uniform-size":
                why = "padding-corners-kept"
            elif not export_ok:
                why = "export-wrong"
            if tables:
                tsame = tables.get("direct", ((), (), {}))[:2] == tables.get("netcdf", ((), (), {}))[:2] and len(tables) == 2
                for path in ("direct", "netcdf"):
                    if path not in tables or (tsame and path == "netcdf"):
                        continue
                    bad, model_bad, detail = tables[path]
                    where = "reopen" if tsame else f"reopen-{path}"
                    if bad:
                        fail(si, f"C07/ugrid/{where}/carried-table-differs/" + "+".join(bad),
                             f"connectivity table(s) {list(bad)} of the grid re-opened from the ugrid export "
                             f"({'both paths' if tsame else path}) differ entry by entry from the tables of the encoded grid: {detail}",
                             detail, ["carried_tables"])
                    elif model_bad:
                        mismatches.append(dict(relation="C07/reader-model/standardize", step=si,
                                               implementation=list(model_bad), model=path))
            same = results["direct"][:3] == results["netcdf"][:3]
            for path in ("direct", "netcdf"):
                res = results[path]
                if res[0] == "ok" or (same and path == "netcdf"):
                    continue
                where = "reopen" if same else f"reopen-{path}"
                if res[0] == "to_netcdf":
                    fail(si, f"C07/{fmt}/to_netcdf/raises/{res[1]}" + (f"/attr={res[2]}" if res[2] else ""),
                         f"the {fmt} export cannot be written to NetCDF: {res[1]}: {res[3]}", None, ["writable"])
                elif res[0] == "raises":
                    fail(si, f"C07/{fmt}/{where}/raises/{res[1]}/{why}",
                         f"ux.open_grid on the {fmt} export ({'both paths' if same else path}) raises {res[1]}: {res[3]}", None, ["reopens"])
                else:
                    fail(si, f"C07/{fmt}/{where}/{res[1].replace(',', '+')}/{why}",
                         f"the grid re-opened from the {fmt} export ({'both paths' if same else path}) does not have the faces of the original ({res[1]}; {why})",
                         res[3], res[1].split(","))
        # (c) the Lean model on the whole history
        base = split_topo(st["base"])
        def ds0(m, iv):
            names = [v[0] for v in iv]
            extras = [v for v in iv if v[0] not in ("node_lon", "node_lat", "face_node_connectivity")]
            return f"{enc_rows(grid_rows(m))} {m.n_node} {int('node_lon' in names)} {N.vars(extras)}"

        def st0(v):
            return "0 0" if v is None else f"1 {int(v)}"

        encg = " ".join([str(len(ms))] + [ds0(m, iv) + " " + N.topo(ie) + " " + st0(fs)
                                          for m, iv, ie, fs in zip(ms, init_vars, init_enc, init_start)])
        ans = common.Tok(driver.ask("C07.run", REPAIRED, N.topo(base), encg, str(len(model_ops)), " ".join(model_ops)))
        model_outs = parse_outs(ans, N)
        final_tmpl = parse_topo(ans, N)
        # the Exodus encoder as it stands (one full-width block, exodus_rt_single_block) is the other
        # encoder with a proved round trip: accept whichever of the two the implementation is
        exo = [i for i, (io, mo) in enumerate(zip(impl_outs, model_outs))
               if io is not None and mo is not None and io[0] == "exodus" and canon_out(io) != canon_out(mo)]
        if exo:
            alt = parse_outs(common.Tok(driver.ask("C07.run", SINGLE_BLOCK, N.topo(base), encg, str(len(model_ops)),
                                                   " ".join(model_ops))), N)
            if all(alt[i] is not None and canon_out(impl_outs[i]) == canon_out(alt[i]) for i in exo):
                for i in exo:
                    model_outs[i] = alt[i]
                hit("exodus-output-matches=single-full-width-block-model")
        elif any(io is not None and io[0] == "exodus" for io in impl_outs):
            hit("exodus-output-matches=blocks-by-size-model")
        for si, mo in enumerate(model_outs):
            if mo is not None and mo[0] == "scrip" and mo[1] is not None and si < len(H["ops"]):
                mo[1]["corners"] = locs[H["ops"][si][1]].name_rows(mo[1]["corners"])
        for si, (io, mo) in enumerate(zip(impl_outs, model_outs)):
            if io is None or mo is None:
                continue
            if io[0] != mo[0] or canon_out(io) != canon_out(mo):
                mismatches.append(dict(relation=f"C07/model-vs-impl/{io[0]}", step=si, implementation=canon_out(io), model=canon_out(mo)))
        now = split_topo(U.BASE_GRID_TOPOLOGY_ATTRS)
        nonstr_now = {k: repr(v) for k, v in U.BASE_GRID_TOPOLOGY_ATTRS.items() if not isinstance(v, str)}
        nonstr0 = {k: repr(v) for k, v in st["base"].items() if not isinstance(v, str)}
        if dict(now) != dict(final_tmpl) or nonstr_now != nonstr0:
            mismatches.append(dict(relation="C07/template-invariant", implementation=dict(now), model=dict(final_tmpl)))
    finally:
        shutil.rmtree(tmp, ignore_errors=True)
        reset_module_state()
    return dict(failures=failures, mismatches=mismatches, steps=steps)


def unit_rad(lon, lat):
    lon, lat = np.asarray(lon, float), np.asarray(lat, float)
    return np.stack([np.cos(lat) * np.cos(lon), np.cos(lat) * np.sin(lon), np.sin(lat)], axis=-1)


def parse_topo(t, N):
    n = t.int()
    out = []
    for _ in range(n):
        k = N.name(t.int())
        out.append((k, [N.name(i) for i in t.ints()]))
    return out


def parse_vars(t, N):
    n = t.int()
    out = []
    for _ in range(n):
        name = N.name(t.int())
        dims = [N.name(i) for i in t.ints()]
        na = t.int()
        attrs = [(N.name(t.int()), t.int()) for _ in range(na)]
        out.append((name, dims, attrs))
    return out


def parse_outs(t, N):
    n = t.int()
    outs = []
    for _ in range(n):
        tag = t.int()
        if tag == 0:
            outs.append(None)
        elif tag == 1:
            topo = parse_topo(t, N)
            vs = parse_vars(t, N)
            enc_m = parse_topo(t, N)
            has_s, val_s = t.int(), t.int()
            outs.append(("ugrid", dict(vars=canon_vars(vs), topo=dict(topo), encoding={k: sorted(v) for k, v in enc_m if v},
                                       face_node_start_index=val_s if has_s else None)))
        elif tag == 2:
            if t.int() == 0:
                outs.append(("exodus", None))
            else:
                coord = t.ints()
                nb = t.int()
                blocks = []
                for _ in range(nb):
                    k, fid = t.int(), t.int()
                    blocks.append((k, fid, t.rows()))
                outs.append(("exodus", dict(blocks=blocks, coord=coord)))
        else:
            outs.append(("scrip", None if t.int() == 0 else dict(corners=t.rows())))
    return outs


def canon_out(o):
    c = json.loads(json.dumps(common._jsonable(o[1])))
    # The name of the SECOND axis of a source-supplied edge table is not compared: the generator names it
    # d<k>_cols, and /repo replaces an incomplete supplied edge table by the derived one under the canonical
    # name "two" when a face-edge table is first needed (C02 buildGiven_rederived, fix 2e3b10c9) - a step the
    # C07 export model does not contain (found by seed 15, DESIGN 13). The element axis and the rank are compared.
    try:
        d = c["vars"]["edge_node_connectivity"]
        if len(d) == 2 and (d[1] == "two" or re.fullmatch(r"d\d+_cols", d[1])):
            d[1] = "<second-axis>"
    except (KeyError, TypeError, IndexError):
        pass
    return c


# --------------------------------------------------------------------------------------
# generators
# --------------------------------------------------------------------------------------
def with_orphans(m, rng, where):
    """the same faces over a node list with nodes no face uses at the start / middle / end of the numbering
    (left-over nodes, or a face subset kept without renumbering)"""
    k = rng.choice([1, 1, 2, 3])
    n = m.n_node
    pos = dict(start=0, middle=max(1, n // 2), end=n)[where]
    extra = []
    while len(extra) < k:
        p = np.array([rng.gauss(0, 1) for _ in range(3)])
        p /= np.linalg.norm(p)
        if np.min(np.linalg.norm(np.vstack([m.xyz] + extra) - p, axis=1)) > 0.02:
            extra.append(p[None, :])
    xyz = np.vstack([m.xyz[:pos]] + extra + [m.xyz[pos:]])
    faces = [[v + k if v >= pos else v for v in f] for f in m.faces]
    return meshes.AMesh(faces, xyz, m.closed, m.kind + f"+unused@{where}")


def union(a, b):
    """two meshes side by side (disjoint node sets), faces of `a` first"""
    return meshes.AMesh(a.faces + [[v + a.n_node for v in f] for f in b.faces], np.vstack([a.xyz, b.xyz]), False,
                        a.kind + "|" + b.kind)


def isolated_first(rng):
    """face 0 shares no edge with any face (so it is nobody's neighbour); the other faces are connected"""
    iso = meshes.fan(3, lon0=rng.choice([-150.0, 120.0]), lat0=-55.0, r=6.0).select([0], kind="isolated-first")
    rest = rng.choice([meshes.patch(2, 2, lon0=-10, lat0=10), meshes.fan(5, lon0=40.0, lat0=30.0), meshes.prism(5, lat=70.0)])
    if isinstance(rest, meshes.AMesh) and rest.closed:
        rest = rest.drop_faces(rng, 0.3)
    return union(iso, rest)


def three_sizes(rng):
    for _ in range(50):
        k = rng.choice([5, 6, 7, 8])
        m = meshes.prism(k, lat=20 + 4 * k, lon0=rng.uniform(-180, 180)).split_some(rng, p=0.5)
        if len(set(m.sizes())) >= 3:
            return m
    h = meshes.dual_of(meshes.hull(16, rng)).merge_some(rng, tries=5)
    return h


def pick_mesh(rng, cls=None, big=False):
    cls = cls or rng.choice(["uniform4", "uniform3", "two", "three", "three", "partial", "zoo"])
    if cls == "uniform4":
        m = rng.choice([meshes.cube_sphere(1), meshes.cube_sphere(2), meshes.patch(rng.choice([1, 2, 3]), rng.choice([1, 2]),
                        lon0=rng.choice([-30, 150, 170]), lat0=rng.choice([-20, 40, 70]))])
    elif cls == "uniform3":
        m = rng.choice([meshes.icosa(), meshes.hull(rng.choice([6, 9, 14]), rng), meshes.bipyramid(rng.choice([3, 5, 6])),
                        meshes.fan(rng.choice([3, 5, 7])), meshes.isolated(rng.choice([1, 2, 3]))])
    elif cls == "two":
        m = rng.choice([meshes.prism(rng.choice([3, 5, 6, 7, 8])), meshes.antiprism(rng.choice([4, 5, 6]))])
    elif cls == "three":
        m = three_sizes(rng)
    elif cls == "partial":
        p = meshes.patch(rng.choice([2, 3]), rng.choice([1, 2, 3]), lon0=rng.choice([-30, 150, 170, -5]), lat0=rng.choice([-20, 40, 70, -80]))
        m = rng.choice([p.split_some(rng), p.split_some(rng).merge_some(rng), meshes.cube_sphere(2).drop_faces(rng, 0.4),
                        meshes.dual_of(meshes.hull(14, rng)).drop_faces(rng, 0.3), meshes.fan(rng.choice([3, 4, 5]), full=False)])
    else:
        z = [x for x in meshes.zoo(rng, big=big) if max(x.sizes()) <= 8]
        m = rng.choice(z)
    if rng.random() < 0.4:
        m = m.rotated(meshes.random_rotation(rng))
    if rng.random() < 0.6:
        m = m.renumber(rng)
    if rng.random() < 0.3:
        m = with_orphans(m, rng, rng.choice(["start", "start", "middle", "end"]))
    return m


ENTRIES = ["to_xarray", "encode_as", "to_xarray()"]  # to_xarray() = the default argument (ugrid)


def api(rng):
    """every public entry point that exports, drawn at random (both map to the ONE model operation Op.encode)"""
    return rng.choice(["to_xarray", "to_xarray", "encode_as", "encode_as", "to_xarray()"])


def dialect_json(m, case):
    return dict(mesh_json(m, "dialect"), dialect_case=case)


def dialect_histories(rng, count):
    """grids the UGRID reader makes of sources in C01's dialects (drawn by C01's own generator), exported in all three
    formats through both dispatchers; the declared one-based sources (FESOM / Fortran style) are always there"""
    from . import c01

    out = []
    forced = [dict(base=1, declared=True), dict(base=1, declared=False), dict(base=0, declared=False), dict(base=0, declared=True),
              dict(base=1, declared=True, via_file=True), dict(base=1, declared=True, tables=True)]
    for i in range(count):
        m = pick_mesh(rng, cls=rng.choice(["two", "three", "uniform4", "uniform3", "partial"]))
        if "unused@" in m.kind and rng.random() < 0.5:
            pass  # unused nodes stay: the reader keeps them, an undeclared base is then forced to be declared
        case = c01.gen_ugrid(rng, m)
        if i < len(forced):
            f = forced[i]
            case["dialect"]["base"], case["dialect"]["declared"] = f["base"], f["declared"]
            case["via_file"] = f.get("via_file", case["via_file"])
            if f.get("tables") and not case["dialect"].get("tables"):
                case["dialect"]["tables"] = {x: dict(c01.draw_table_dialect(rng, x == "edge_node_connectivity"), order=k, via="attr")
                                             for k, x in enumerate(["edge_node_connectivity", "face_edge_connectivity", "node_face_connectivity"])}
        ops = [["enc", 0, f_, api(rng)] for f_ in FMTS]
        if rng.random() < 0.4:
            ops.insert(0, ["mat", 0, rng.sample(["edge_node_connectivity", "face_face_connectivity", "face_lon", "node_x"], 2)])
        ops.append(["enc", 0, "ugrid", rng.choice(["to_xarray", "encode_as"])])
        out.append(dict(meshes=[dialect_json(m, json.loads(json.dumps(common._jsonable(case))))], ops=ops))
    return out


def coord_form_histories(rng):
    """node_lon and node_lat independently float64 / float32 / int64 (whole degrees) / Python int list / Python float list,
    Cartesian vertices float32: every format through both dispatchers (dtype promotion is exercised, not modelled)"""
    out = []
    combos = [dict(lon="int64", lat="float64"), dict(lon="int-list", lat="float-list"), dict(lon="float64", lat="int64"),
              dict(lon="float32", lat="float32"), dict(lon="int64", lat="int64"), dict(lon="float-list", lat="float32"),
              dict(lon="int-list", lat="float64"), dict(lon="float32", lat="float64")]
    for c in combos:
        both = c["lat"] in ("int64", "int-list")
        m = whole_degree_mesh(rng, both=both)
        if rng.random() < 0.5:
            m = m.renumber(rng)
        out.append(dict(meshes=[mesh_json(m, "topology", c)], ops=[["enc", 0, f, api(rng)] for f in FMTS]))
    for _ in range(3):
        m = whole_degree_mesh(rng, both=rng.random() < 0.4)
        out.append(dict(meshes=[mesh_json(m, "topology", draw_form(rng, m))],
                        ops=[["mat", 0, rng.sample(["edge_node_connectivity", "face_lon", "node_x", "face_areas"], 2)]]
                        + [["enc", 0, f, api(rng)] for f in rng.sample(FMTS, 3)]))
    m = pick_mesh(rng, cls="two")
    out.append(dict(meshes=[mesh_json(m, "xyz", dict(xyz="float32"))], ops=[["enc", 0, f, api(rng)] for f in FMTS]))
    return out


def file_histories(rng, thorough):
    """grids opened from the sample files of the repository (all formats), exported through both entry points,
    fresh and after something was materialised; the exports are compared with the opened grid itself"""
    out = []
    base = meshfiles_dir()
    for rel in SAMPLE_FILES:
        f = base / rel
        if not f.is_file():
            continue
        if rel in HUGE_FILES:  # tens of thousands of faces: one UGRID export in the thorough tier
            if thorough:
                out.append(dict(meshes=[file_json(rel)], ops=[["enc", 0, "ugrid", "to_xarray"]]))
            continue
        big = rel in BIG_FILES  # thousands of faces: thorough tier, ordered formats only (the Exodus multiset check is quadratic)
        if big and not thorough:
            continue
        fm = ["ugrid", "scrip"] if big else FMTS
        out.append(dict(meshes=[file_json(rel)], ops=[["enc", 0, f_, a] for f_, a in zip(fm, ["to_xarray", "encode_as", "to_xarray"])]
                        + [["enc", 0, "ugrid", "encode_as"]]))
        out.append(dict(meshes=[file_json(rel)], ops=[["mat", 0, rng.sample(["edge_node_connectivity", "face_lon", "node_face_connectivity",
                                                                             "n_nodes_per_face", "node_x", "face_edge_connectivity"], 3)],
                                                      ["enc", 0, "ugrid", api(rng)], ["enc", 0, rng.choice(fm), api(rng)]]))
    return out


def directed(rng):
    """histories aimed at each mechanism the property names"""
    H = []
    mixed, uni, three = meshes.prism(5), meshes.cube_sphere(1), three_sizes(rng)
    for S in (["edge_node_connectivity"], ["face_lon", "edge_lon"], ["face_face_connectivity", "node_face_connectivity"], DERIVED):
        H.append(dict(meshes=[mixed, uni], ops=[["mat", 0, S], ["enc", 0, "ugrid", "to_xarray"], ["enc", 1, "ugrid", "to_xarray"]]))
    H.append(dict(meshes=[uni, mixed], ops=[["mat", 0, DERIVED], ["enc", 0, "ugrid", "encode_as"], ["enc", 1, "exodus", "to_xarray"],
                                            ["enc", 1, "ugrid", "to_xarray"], ["enc", 1, "scrip", "to_xarray"]]))
    # two grids over the same mesh (same sizes of every dimension), and one grid exported before and after
    # it grows: nothing keyed on sizes or on the grid object may carry over
    for f in FMTS:
        H.append(dict(meshes=[mixed, mixed], ops=[["mat", 0, ["edge_node_connectivity", "face_lon", "node_x"]], ["enc", 0, f, "to_xarray"],
                                                  ["enc", 1, f, "to_xarray"]]))
        H.append(dict(meshes=[three], ops=[["enc", 0, f, "to_xarray"], ["mat", 0, ["edge_lon", "face_face_connectivity", "bounds"]],
                                           ["enc", 0, f, "to_xarray"]]))
    H.append(dict(meshes=[uni, uni.renumber(rng)], ops=[["enc", 0, "ugrid", "to_xarray"], ["enc", 1, "ugrid", "to_xarray"],
                                                        ["enc", 0, "exodus", "to_xarray"], ["enc", 1, "exodus", "to_xarray"],
                                                        ["enc", 0, "scrip", "to_xarray"], ["enc", 1, "scrip", "to_xarray"]]))
    for f in FMTS:
        H.append(dict(meshes=[three], ops=[["enc", 0, f, "to_xarray"]]))
        H.append(dict(meshes=[uni], ops=[["enc", 0, f, "to_xarray"]]))
        H.append(dict(meshes=[mixed], ops=[["mat", 0, DERIVED], ["enc", 0, f, api(rng)]]))
    H.append(dict(meshes=[mixed], ops=[["mat", 0, ["bounds"]], ["enc", 0, "ugrid", "to_xarray"]]))
    H.append(dict(meshes=[uni], ops=[["mat", 0, ["node_x"]], ["enc", 0, "exodus", "to_xarray"]]))
    H.append(dict(meshes=[uni, uni], ops=[["enc", 0, "exodus", "to_xarray"], ["mat", 1, ["node_x"]], ["enc", 1, "exodus", "to_xarray"]]))
    H.append(dict(meshes=[meshes.prism(9)], ops=[["enc", 0, "exodus", "to_xarray"]]))
    H.append(dict(meshes=[meshes.prism(10)], ops=[["enc", 0, "ugrid", "to_xarray"], ["enc", 0, "scrip", "to_xarray"]]))
    # nodes that no face uses (node 0 in particular), an isolated first face: tables whose smallest entry is not 0
    TABLES = ["edge_node_connectivity", "face_edge_connectivity", "edge_face_connectivity", "node_face_connectivity",
              "face_face_connectivity", "n_nodes_per_face"]
    for where in ("start", "middle", "end"):
        mo = with_orphans(rng.choice([mixed, uni, three]), rng, where)
        H.append(dict(meshes=[mo], ops=[["enc", 0, f, "to_xarray"] for f in FMTS]))
        H.append(dict(meshes=[mo], ops=[["mat", 0, TABLES], ["enc", 0, "ugrid", api(rng)], ["enc", 0, "exodus", "to_xarray"]]))
    iso = isolated_first(rng)
    H.append(dict(meshes=[iso], ops=[["mat", 0, TABLES], ["enc", 0, "ugrid", "to_xarray"], ["enc", 0, "scrip", "to_xarray"]]))
    H.append(dict(meshes=[with_orphans(iso, rng, "start"), uni],
                  ops=[["mat", 0, TABLES + ["face_lon", "bounds"]], ["enc", 0, "ugrid", "encode_as"], ["enc", 1, "ugrid", "to_xarray"],
                       ["enc", 0, "exodus", "to_xarray"]]))
    out = [dict(meshes=[mesh_json(m) for m in h["meshes"]], ops=h["ops"]) for h in H]
    # file-sourced RE-exports of grids whose lowest-numbered node(s) no face uses: the first grid is exported as
    # UGRID / Exodus / SCRIP, written, re-opened - and that re-opened grid is exported again in all three formats
    for where in ("start", "middle"):
        mo = with_orphans(rng.choice([mixed, uni, three]), rng, where)
        for f0 in FMTS:
            out.append(dict(meshes=[mesh_json(mo, "reopened:" + f0)], ops=[["enc", 0, f, api(rng)] for f in FMTS]))
        out.append(dict(meshes=[mesh_json(mo, "reopened:ugrid")],
                        ops=[["mat", 0, ["edge_node_connectivity", "face_face_connectivity", "node_face_connectivity"]],
                             ["enc", 0, "ugrid", api(rng)], ["enc", 0, "exodus", api(rng)]]))
    # every entry point x every format x every kind of source, on a FRESH grid (nothing asked of it before) and
    # after materialisations: the export must not depend on which dispatcher was called
    for src in ("topology", "xyz"):
        for m in (uni, mixed):
            for f in FMTS:
                for a in (ENTRIES if f == "ugrid" else ENTRIES[:2]):
                    out.append(dict(meshes=[mesh_json(m, src)], ops=[["enc", 0, f, a]]))
            out.append(dict(meshes=[mesh_json(m, src), mesh_json(m, src)],
                            ops=[["mat", 0, ["edge_node_connectivity", "face_face_connectivity"]], ["mat", 1, ["edge_node_connectivity", "face_face_connectivity"]],
                                 ["enc", 0, "ugrid", "to_xarray"], ["enc", 1, "ugrid", "encode_as"],
                                 ["enc", 0, "scrip", "encode_as"], ["enc", 1, "scrip", "to_xarray"],
                                 ["enc", 0, "exodus", "to_xarray"], ["enc", 1, "exodus", "encode_as"]]))
    # Cartesian-only sources (no node_lon/node_lat in the dataset until something asks for them)
    for m in (uni, mixed, three):
        for f in FMTS:
            out.append(dict(meshes=[mesh_json(m, "xyz")], ops=[["enc", 0, f, "to_xarray"]]))
        out.append(dict(meshes=[mesh_json(m, "xyz")], ops=[["enc", 0, "scrip", "to_xarray"], ["enc", 0, "ugrid", "to_xarray"],
                                                           ["mat", 0, ["edge_node_connectivity", "face_lon"]], ["enc", 0, "ugrid", "encode_as"]]))
    out.append(dict(meshes=[mesh_json(mixed, "xyz"), mesh_json(uni)], ops=[["mat", 0, DERIVED], ["enc", 0, "ugrid", "to_xarray"],
                                                                           ["enc", 1, "ugrid", "to_xarray"], ["enc", 0, "exodus", "to_xarray"]]))
    return out


def random_history(rng, big=False):
    ng = rng.choice([1, 2, 2, 3])
    ms = [pick_mesh(rng, big=big) for _ in range(ng)]
    ops, n_enc = [], 0
    for _ in range(rng.randint(2, 6)):
        gi = rng.randrange(ng)
        if rng.random() < 0.35:
            ops.append(["mat", gi, rng.sample(DERIVED, rng.randint(1, 4))])
        else:
            ops.append(["enc", gi, rng.choice(FMTS), api(rng)])
            n_enc += 1
    if n_enc == 0:
        ops.append(["enc", rng.randrange(ng), rng.choice(FMTS), api(rng)])
    js = []
    for m in ms:
        if rng.random() < 0.35:
            js.append(mesh_json(m, rng.choice(["xyz", "xyz", "reopened:ugrid", "reopened:exodus", "reopened:scrip"])))
        elif rng.random() < 0.3:
            js.append(mesh_json(m, "topology", draw_form(rng, m)))
        else:
            js.append(mesh_json(m))
    return dict(meshes=js, ops=ops)


def subset_histories(rng, count=None):
    """[materialise S on g; encode as ugrid, exodus, scrip] for subsets S of the eight families"""
    subs = [[f for j, f in enumerate(FAMILIES) if (k >> j) & 1] for k in range(1 << len(FAMILIES))]
    if count is not None:
        subs = rng.sample(subs, count)
    out = []
    for S in subs:
        m = pick_mesh(rng, cls=rng.choice(["two", "three", "uniform4", "partial"]))
        out.append(dict(meshes=[mesh_json(m, "xyz" if rng.random() < 0.2 else "topology")],
                        ops=([["mat", 0, S]] if S else []) + [["enc", 0, f, "to_xarray"] for f in FMTS]))
    return out


# --------------------------------------------------------------------------------------
# verdicts
# --------------------------------------------------------------------------------------
def sub_history(H, step):
    """the operations on the failing step's grid only, re-indexed"""
    gi = H["ops"][step][1]
    ops = [[o[0], 0] + o[2:] for o in H["ops"][: step + 1] if o[1] == gi]
    return dict(meshes=[H["meshes"][gi]], ops=ops)


def report(ctx, H, res, collect=True):
    """failures of one history.  In a generated run they are collected per signature (with a cheap in-process
    attempt at a smaller history) and settled by `finalize`; in a replay they are reported at once."""
    for f in res["failures"]:
        inp = dict(history=dict(meshes=H["meshes"], ops=H["ops"][: f["step"] + 1]), failing_step=f["step"])
        if not collect:
            ctx.fail(f["signature"], f["what"], inp, f["implementation"], None, f["clauses"])
            continue
        cands = ctx.extra.setdefault("_cands", {}).setdefault(f["signature"], [])
        ctx.hit("failing-steps")
        if not cands:  # first occurrence: try the failing grid alone
            op = H["ops"][f["step"]]
            for cand in (dict(meshes=[H["meshes"][op[1]]], ops=[[op[0], 0] + op[2:]]), sub_history(H, f["step"])):
                if len(cand["ops"]) >= len(inp["history"]["ops"]) and len(cand["meshes"]) >= len(inp["history"]["meshes"]):
                    continue
                try:
                    r2 = execute(cand, ctx.driver)
                except Exception:
                    continue
                hitf = [g for g in r2["failures"] if g["signature"] == f["signature"]]
                if hitf:
                    cands.append(dict(f, input=dict(history=cand, failing_step=hitf[0]["step"])))
                    break
        cands.append(dict(f, input=inp))
    for mm in res["mismatches"]:
        ctx.mismatch(mm["relation"], dict(history=H, step=mm.get("step")), mm.get("implementation"), mm.get("model"))


_CONFIRM = """
import sys, json, warnings
warnings.filterwarnings('ignore')
sys.path.insert(0, %r)
from harness import common, c07
common.use_repo()
d = common.Driver('C07')
c07._state()
r = c07.execute(json.load(open(sys.argv[1])), d)
d.close()
print('SIGS=' + json.dumps([f['signature'] for f in r['failures']]))
"""


def confirm_fresh(history, signature):
    """does the history alone, in a fresh interpreter, fail with this signature?  (module-level state that
    an earlier history of this process may have left behind cannot help it there)"""
    import subprocess
    import sys

    tmp = tempfile.mkdtemp(prefix="c07_confirm_")
    try:
        fn = os.path.join(tmp, "h.json")
        with open(fn, "w") as fh:
            json.dump(history, fh)
        p = subprocess.run([sys.executable, "-c", _CONFIRM % str(common.VERIF), fn], capture_output=True, text=True,
                           timeout=600, cwd=str(common.VERIF))
        for line in p.stdout.splitlines():
            if line.startswith("SIGS="):
                return signature in json.loads(line[5:])
        return None
    except Exception:
        return None
    finally:
        shutil.rmtree(tmp, ignore_errors=True)


def finalize(ctx):
    """one replay per signature, the smallest history that reproduces the failure in a fresh process"""
    from concurrent.futures import ThreadPoolExecutor

    cands = ctx.extra.pop("_cands", {})
    known = {f["signature"] for f in common.load_known().get("findings", []) if f.get("property") == ctx.prop}

    def settle(item):
        sig, cs = item
        cs = sorted(cs, key=lambda c: len(json.dumps(common._jsonable(c["input"]))))
        uniq = []
        for c in cs:
            if all(c["input"] != u["input"] for u in uniq):
                uniq.append(c)
        if sig in known:
            return sig, uniq[0], "not-needed (listed finding)"
        tried = uniq[:3] + ([uniq[-1]] if len(uniq) > 3 else [])
        for c in tried:
            ok = confirm_fresh(c["input"]["history"], sig)
            if ok:
                return sig, c, True
            if ok is None:
                return sig, c, "confirmation-could-not-run"
        return sig, tried[-1], False

    with ThreadPoolExecutor(max_workers=6) as ex:
        for sig, c, conf in ex.map(settle, sorted(cands.items())):
            inp = dict(c["input"], reproduces_in_fresh_process=conf)
            what = c["what"]
            if conf is False:
                what += " [seen only after earlier histories of the same process: module-level state carried over; replay the whole check]"
            ctx.fail(sig, what, inp, c["implementation"], None, c["clauses"])


def run_history(ctx, H, tag):
    stats = {}
    res = execute(H, ctx.driver, stats)
    for k, v in stats.items():
        ctx.hit(k, v)
    ctx.hit(f"history:{tag}")
    ctx.hit(f"history-grids={len(H['meshes'])}")
    hh = hashlib.sha1(json.dumps(H, sort_keys=True).encode()).hexdigest()
    for s in res["steps"]:
        nontriv = s["qual"] != "uniform-size" or len(H["ops"]) > 1
        ctx.case((hh, s["step"]), nontrivial=nontriv,
                 sample=dict(ops=H["ops"], mesh_sizes=[sorted({len(f) for f in j["faces"]}) for j in H["meshes"]],
                             sources=[j.get("source", "topology") for j in H["meshes"]], step=s)
                 if len(H["ops"]) <= 3 else None)
    report(ctx, H, res)


def run(ctx):
    ctx.rule = ("histories [materialise S on g_i | encode g_j as ugrid/exodus/scrip via Grid.to_xarray(fmt), Grid.to_xarray() or Grid.encode_as(FMT), "
                "drawn at random and all mapped to the one model operation] over 1-3 grids; grids also opened from every readable sample "
                "file under test/meshfiles (UGRID, Exodus, SCRIP, MPAS, GEOS-CS; ESMF/RLL1deg in the thorough tier) and grids that are "
                "the re-opened netCDF file of an earlier UGRID/Exodus/SCRIP export (unused first nodes included) and grids the UGRID reader "
                "makes of sources in every dialect C01 generates (start_index 0/1 declared or not, fill forms, storage types, optional "
                "tables each in its own dialect; harness/c01.py's generator and writers are imported); node_lon / node_lat of explicit-topology "
                "sources independently float64 / float32 / int64 / Python int list / Python float list, Cartesian vertices also float32 "
                "(position tolerance 1e-5 when float32 is involved, 1e-7 otherwise); xarray's .encoding of "
                "every variable is observed and judged by the model's to_netcdf conflict rule "
                "(harness/meshes generators, built by Grid.from_topology (lon/lat only) or Grid.from_face_vertices (Cartesian only): uniform tri/quad, prisms/antiprisms (two sizes), split prisms and merged duals "
                "(three or more sizes), partial lattices/fans/isolated faces, random renumbering/rotation, nodes that no face uses at the "
                "start/middle/end of the numbering, an isolated first face; sizes 3..8, plus 9-/10-gons), "
                "directed histories for each mechanism + random histories (+ subsets of the eight derived families); every "
                "export re-opened directly and after to_netcdf to a mkdtemp scratch file, faces compared by Lean's RoundTripOK and EVERY "
                "carried-over connectivity table (face_edge, face_face, edge_node, edge_face, node_face, n_nodes_per_face) entry by entry "
                "(Lean: carriedFailing; reader model: standardize with the export's start_index attribute); one case = one encode step; "
                "non-trivial = mixed sizes or a history with more than one operation")
    ctx.assumptions = [
        "netCDF4/xarray serialisation, Dataset.rename/copy semantics and NumPy indexing are tied to the model only by this differential run",
        "corner positions are compared through the nearest node of the abstract mesh within 1e-7 (chord) on the unit sphere",
        "module-level state (BASE_GRID_TOPOLOGY_ATTRS, EDGE_NODE_CONNECTIVITY_ATTRS) is reset to its import-time value before each "
        "history so that every replay is self-contained; leakage inside a history is what is tested",
        "the readers are those of the tree under test (property C01); a failure of a correct export to re-open is attributed to the reader in the signature",
    ]
    st = _state()
    rng = ctx.rng
    # the regenerated Lean table is the live module's template (translator tie)
    N = st["names"]
    ctx.hit("exodus-element-types-total=" + ctx.driver.ask("C07.exototal"))
    lean_tmpl = parse_topo(common.Tok(ctx.driver.ask("C07.template")), N)
    if dict(lean_tmpl) != dict(split_topo(st["base"])):
        ctx.mismatch("C07/translator/BASE_GRID_TOPOLOGY_ATTRS", dict(module=st["base"]), dict(split_topo(st["base"])), dict(lean_tmpl))
    # minimised past failures first
    cdir = common.CORPUS / "C07"
    if cdir.is_dir():
        for f in sorted(cdir.glob("*.json")):
            run_history(ctx, json.loads(f.read_text())["history"], "corpus")
    for H in directed(rng):
        run_history(ctx, H, "directed")
    for H in file_histories(rng, ctx.thorough or ctx.escalate):
        run_history(ctx, H, "sample-file")
    for H in coord_form_histories(rng):
        run_history(ctx, H, "coordinate-dtype-forms")
    for H in dialect_histories(rng, ctx.n(14, 160)):
        run_history(ctx, H, "ugrid-dialect-source")
    for _ in range(ctx.n(24, 1200)):
        run_history(ctx, random_history(rng, big=ctx.thorough), "random")
    for H in subset_histories(rng, None if (ctx.thorough or ctx.escalate) else 10):
        run_history(ctx, H, "subsets")
    finalize(ctx)


def replay(ctx, rp):
    _state()
    H = rp["input"]["history"]
    res = execute(H, ctx.driver)
    for s in res["steps"]:
        ctx.case(("replay", s["step"]))
    report(ctx, H, res, collect=False)
