"""Shared machinery of the /verif harness.

* paths and the implementation-under-test import (VERIF_REPO, default /repo)
* the Lean side: translate -> lake build -> axiom audit (under a lock), the driver pipe
* evidence / replay / known-finding plumbing and the common verdict rules (DESIGN.md §3)

Everything random derives from one ``random.Random(VERIF_SEED)``.
"""

from __future__ import annotations

import fcntl
import hashlib
import json
import os
import random
import re
import subprocess
import sys
import time
from collections import Counter
from pathlib import Path

VERIF = Path(__file__).resolve().parent.parent
LEAN = VERIF / "lean"
REPO = Path(os.environ.get("VERIF_REPO", "/repo")).resolve()
EVIDENCE = VERIF / "evidence"
REPLAYS = EVIDENCE / "replays"
CORPUS = VERIF / "corpus"
KNOWN = VERIF / "known_findings.json"

ALLOWED_AXIOMS = {"propext", "Classical.choice", "Quot.sound"}
FORBIDDEN = re.compile(
    r"\bsorry\b|\badmit\b|^\s*axiom\s|native_decide|bv_decide|implemented_by|\bunsafe\s|maxHeartbeats\s+0\b",
    re.M,
)

INT_FILL = -9223372036854775808


def use_repo():
    """Make ``import uxarray`` resolve to the tree under test (wins over the editable install)."""
    if not (REPO / "uxarray" / "__init__.py").exists():
        # never fall back silently to another tree (e.g. the editable install of /repo)
        raise RuntimeError(f"tree under test not found: {REPO}/uxarray (VERIF_REPO={os.environ.get('VERIF_REPO')!r})")
    p = str(REPO)
    if p in sys.path:
        sys.path.remove(p)
    sys.path.insert(0, p)
    os.environ.setdefault("UXARRAY_VERIF", "1")
    # keep numba caches out of the tree under test when it is a scratch copy
    return REPO


# --------------------------------------------------------------------------------------
# Lean side
# --------------------------------------------------------------------------------------


def _strip_comments(src: str) -> str:
    # remove /- ... -/ (nested) and -- ... comments
    out, i, depth, n = [], 0, 0, len(src)
    while i < n:
        if src.startswith("/-", i):
            depth += 1
            i += 2
        elif depth and src.startswith("-/", i):
            depth -= 1
            i += 2
        elif depth:
            i += 1
        elif src.startswith("--", i):
            j = src.find("\n", i)
            i = n if j < 0 else j
        else:
            out.append(src[i])
            i += 1
    return "".join(out)


def theorems_of(prop: str):
    """Every ``theorem`` of Props/<prop>.lean is an obligation; returns fully qualified names."""
    f = LEAN / "UxVerif" / "Props" / f"{prop}.lean"
    if not f.exists():
        return []
    src = _strip_comments(f.read_text())
    ns = []
    names = []
    for line in src.splitlines():
        m = re.match(r"\s*namespace\s+(\S+)", line)
        if m:
            ns.append(m.group(1))
            continue
        m = re.match(r"\s*end\s+(\S+)", line)
        if m and ns and ns[-1] == m.group(1):
            ns.pop()
            continue
        m = re.match(r"\s*(?:@\[[^\]]*\]\s*)?(?:private\s+|protected\s+)?theorem\s+(\S+)", line)
        if m:
            names.append(".".join(ns + [m.group(1)]))
    return names


def top_module(prop: str) -> str:
    """Props/<prop>x.lean, when present, is the property's EXTENSION module: theorems that combine this
    property's model with another property's Props (which Props/<prop>.lean cannot import without a cycle).
    It imports Props/<prop>.lean; its theorems are audited obligations like the others."""
    return f"UxVerif.Props.{prop}x" if (LEAN / "UxVerif" / "Props" / f"{prop}x.lean").exists() else f"UxVerif.Props.{prop}"


def lean_files_for(prop: str):
    """Transitive local imports of the property's top module (for the forbidden-token audit)."""
    seen, todo = set(), [top_module(prop), f"UxVerif.Props.{prop}"]
    while todo:
        mod = todo.pop()
        if mod in seen:
            continue
        f = LEAN / (mod.replace(".", "/") + ".lean")
        if not f.exists():
            continue
        seen.add(mod)
        for m in re.finditer(r"^import\s+(UxVerif\.\S+)", f.read_text(), re.M):
            todo.append(m.group(1))
    return sorted(seen)


class LeanState:
    """Result of translate + build + audit for one property."""

    def __init__(self):
        self.translate_notes = []
        self.gen_checksums = {}
        self.build_ok = False
        self.build_log = ""
        self.driver_ok = False
        self.obligations = []
        self.discharged = []
        self.axioms = {}
        self.forbidden_hits = []
        self.broken = []  # names of obligations that no longer check
        self.wall = 0.0

    @property
    def proofs_ok(self):
        return self.build_ok and not self.broken and not self.forbidden_hits and self.obligations


def _run(cmd, cwd=None, timeout=3000, env=None):
    p = subprocess.run(cmd, cwd=cwd, capture_output=True, text=True, timeout=timeout, env=env)
    return p.returncode, p.stdout + p.stderr


def prepare_lean(prop: str, thorough: bool = False) -> LeanState:
    """translate -> build Props.<prop> + driver -> audit, serialised by a file lock."""
    from . import translate

    st = LeanState()
    t0 = time.time()
    LEAN.mkdir(exist_ok=True)
    lock = open(LEAN / ".build.lock", "w")
    fcntl.flock(lock, fcntl.LOCK_EX)
    try:
        try:
            st.translate_notes, st.gen_checksums = translate.regenerate()
        except Exception as e:  # translator problems never masquerade as a verdict
            st.translate_notes = [f"translator error: {type(e).__name__}: {e}"]
        # the driver first (import-free models): needed for the failing-input search even when a
        # proof is broken
        rc, log = _run(["lake", "build", f"drv_{prop.lower()}"], cwd=LEAN)
        st.driver_ok = rc == 0
        st.build_log += log if rc else ""
        st.obligations = theorems_of(prop) + (theorems_of(prop + "x") if top_module(prop).endswith("x") else [])
        rc, log = _run(["lake", "build", top_module(prop)], cwd=LEAN)
        st.build_ok = rc == 0
        if rc:
            st.build_log += log
        # forbidden tokens in every local file the property depends on
        for mod in lean_files_for(prop):
            f = LEAN / (mod.replace(".", "/") + ".lean")
            for m in FORBIDDEN.finditer(_strip_comments(f.read_text())):
                st.forbidden_hits.append(f"{mod}: {m.group(0).strip()}")
        if st.build_ok:
            audit = LEAN / f".audit_{prop}.lean"
            audit.write_text(
                f"import {top_module(prop)}\n"
                + "".join(f"#print axioms {n}\n" for n in st.obligations)
            )
            rc, log = _run(["lake", "env", "lean", audit.name], cwd=LEAN)
            audit.unlink(missing_ok=True)
            cur = None
            text = log.replace("\n  ", " ")
            for line in text.splitlines():
                m = re.match(r"'(\S+)' depends on axioms: \[(.*)\]", line)
                if m:
                    st.axioms[m.group(1)] = [a.strip() for a in m.group(2).split(",") if a.strip()]
                    continue
                m = re.match(r"'(\S+)' does not depend on any axioms", line)
                if m:
                    st.axioms[m.group(1)] = []
            for n in st.obligations:
                ax = st.axioms.get(n)
                if ax is None:
                    st.broken.append(n + " (not found by audit)")
                elif not set(ax) <= ALLOWED_AXIOMS:
                    st.broken.append(n + " (axioms: " + ",".join(ax) + ")")
                else:
                    st.discharged.append(n)
            if thorough:
                rc, log = _run(
                    ["lake", "env", "leanchecker", top_module(prop)], cwd=LEAN, timeout=3000
                )
                st.leanchecker = "ok" if rc == 0 else "FAILED: " + log[-400:]
                if rc != 0:
                    st.broken.append("leanchecker rejected " + top_module(prop))
        else:
            # which theorem broke: first error line of the build log
            errs = re.findall(r"error: (\S+\.lean:\d+:\d+): (.*)", st.build_log)
            if not errs:
                errs = re.findall(r"(UxVerif/\S+\.lean:\d+:\d+): error[^:]*: (.*)", st.build_log)
            st.broken = [f"{a}: {b}" for a, b in errs[:5]] or ["lake build failed"]
    finally:
        fcntl.flock(lock, fcntl.LOCK_UN)
        lock.close()
        st.wall = time.time() - t0
    return st


class Driver:
    """Pipe to the Lean driver (native exe; `lean --run` as a fall-back)."""

    def __init__(self, prop):
        exe = LEAN / ".lake" / "build" / "bin" / f"drv_{prop.lower()}"
        if exe.exists():
            cmd = [str(exe)]
        else:
            cmd = ["lake", "env", "lean", "--run", f"Drivers/{prop.upper()}.lean"]
        self.p = subprocess.Popen(
            cmd, cwd=LEAN, stdin=subprocess.PIPE, stdout=subprocess.PIPE, text=True, bufsize=1
        )
        self.lines = 0

    def ask(self, cmd: str, *toks) -> str:
        line = cmd + " " + " ".join(str(t) for t in toks)
        self.p.stdin.write(line + "\n")
        self.p.stdin.flush()
        out = self.p.stdout.readline()
        self.lines += 1
        if not out:
            raise RuntimeError("Lean driver died on: " + line[:200])
        out = out.strip()
        if out.startswith("bad-op"):
            raise RuntimeError(f"Lean driver rejected request: {out}: {line[:200]}")
        return out

    def ask_ints(self, cmd, *toks):
        return [int(x) for x in self.ask(cmd, *toks).split()]

    def close(self):
        try:
            self.p.stdin.close()
            self.p.wait(timeout=10)
        except Exception:
            self.p.kill()


# ----- protocol encoders / decoders (mirror UxVerif.Model.Proto) -----


def enc_ints(l):
    l = [int(x) for x in l]
    return " ".join(str(x) for x in [len(l)] + l)


def enc_rows(t):
    t = [list(r) for r in t]
    return " ".join([str(len(t))] + [enc_ints(r) for r in t])


def enc_pairs(l):
    l = [(int(a), int(b)) for a, b in l]
    return " ".join([str(len(l))] + [f"{a} {b}" for a, b in l])


def enc_float(x):
    import struct

    return str(struct.unpack("<Q", struct.pack("<d", float(x)))[0])


def enc_floats(l):
    l = list(l)
    return " ".join([str(len(l))] + [enc_float(x) for x in l])


def dec_float(tok):
    import struct

    return struct.unpack("<d", struct.pack("<Q", int(tok)))[0]


class Tok:
    """reader over a token list"""

    def __init__(self, toks):
        self.t = toks if isinstance(toks, list) else toks.split()
        self.i = 0

    def int(self):
        v = int(self.t[self.i])
        self.i += 1
        return v

    def ints(self):
        n = self.int()
        return [self.int() for _ in range(n)]

    def rows(self):
        n = self.int()
        return [self.ints() for _ in range(n)]

    def pairs(self):
        n = self.int()
        return [(self.int(), self.int()) for _ in range(n)]

    def float(self):
        v = dec_float(self.t[self.i])
        self.i += 1
        return v

    def floats(self):
        n = self.int()
        return [self.float() for _ in range(n)]

    def word(self):
        v = self.t[self.i]
        self.i += 1
        return v

    def done(self):
        return self.i == len(self.t)


# --------------------------------------------------------------------------------------
# Check context, verdict, evidence
# --------------------------------------------------------------------------------------


def _jsonable(x):
    import numpy as np

    if isinstance(x, dict):
        return {str(k): _jsonable(v) for k, v in x.items()}
    if isinstance(x, (list, tuple, set)):
        return [_jsonable(v) for v in x]
    if isinstance(x, np.ndarray):
        return _jsonable(x.tolist())
    if isinstance(x, (np.integer,)):
        return int(x)
    if isinstance(x, (np.floating,)):
        return float(x)
    if isinstance(x, (np.bool_,)):
        return bool(x)
    if isinstance(x, float) and x != x:
        return "NaN"
    if isinstance(x, (str, int, float, bool)) or x is None:
        return x
    return repr(x)


class Ctx:
    def __init__(self, prop, tier, seed):
        self.prop, self.tier, self.seed = prop, tier, seed
        self.thorough = tier == "thorough"
        self.rng = random.Random(seed)
        self.lean_state: LeanState | None = None
        self.driver: Driver | None = None
        self.evaluations = 0
        self._distinct = set()
        self.stats = Counter()
        self.samples = []
        self.failures = []  # spec failures on the implementation
        self.mismatches = []  # model/implementation differ but no spec clause failed
        self.notes = []
        self.rule = ""
        self.assumptions = []
        self.extra = {}
        self.t0 = time.time()
        # when a proof or the correspondence is broken the quick tier searches at thorough size
        self.escalate = False

    # ---- sizing ----
    def n(self, quick, thorough):
        return thorough if (self.thorough or self.escalate) else quick

    # ---- bookkeeping ----
    def case(self, key, nontrivial=True, sample=None):
        self.evaluations += 1
        if nontrivial:
            h = hashlib.sha1(json.dumps(_jsonable(key), sort_keys=True).encode()).hexdigest()
            self._distinct.add(h)
        if sample is not None and len(self.samples) < 4:
            self.samples.append(_jsonable(sample))

    def fail(self, signature, what, input, impl=None, model=None, clauses=()):
        self.failures.append(
            dict(
                signature=signature,
                what=what,
                input=_jsonable(input),
                implementation=_jsonable(impl),
                model=_jsonable(model),
                clauses=list(clauses),
            )
        )

    def mismatch(self, relation, input, impl=None, model=None):
        self.mismatches.append(
            dict(relation=relation, input=_jsonable(input), implementation=_jsonable(impl), model=_jsonable(model))
        )

    def hit(self, branch, k=1):
        self.stats[branch] += k


def load_known():
    """known_findings.json (read-only at run time).  Per-property fragments under
    known_findings.d/ are merged in (same shape); they exist so that the per-property files can
    be edited independently and are folded into the single file at integration time."""
    k = {"findings": [], "fixed": []}
    files = [KNOWN] if KNOWN.exists() else []
    d = VERIF / "known_findings.d"
    if d.is_dir():
        files += sorted(d.glob("*.json"))
    for f in files:
        j = json.loads(f.read_text())
        k["findings"] += j.get("findings", [])
        k["fixed"] += j.get("fixed", [])
    return k


def _size(o):
    return len(json.dumps(o))


def finish(ctx: Ctx) -> int:
    """Apply the verdict rules of DESIGN.md §3, write evidence + replays, print lines."""
    st = ctx.lean_state
    known = load_known()
    sigs = {f["signature"]: f for f in known.get("findings", []) if f.get("property") == ctx.prop}
    REPLAYS.mkdir(parents=True, exist_ok=True)
    lines, violations, matched = [], 0, Counter()

    # smallest replay per signature
    by_sig = {}
    for f in ctx.failures:
        cur = by_sig.get(f["signature"])
        if cur is None or _size(f["input"]) < _size(cur["input"]):
            by_sig[f["signature"]] = f
    n = 0
    for sig, f in sorted(by_sig.items()):
        if sig in sigs:
            matched[sig] += 1
            lines.append(f"KNOWN-FINDING: property={ctx.prop} {sigs[sig]['what_fails']} [{sig}]")
            continue
        path = REPLAYS / f"{ctx.prop}-{ctx.seed}-{n}.json"
        n += 1
        path.write_text(
            json.dumps(
                dict(
                    property=ctx.prop,
                    kind="spec-failure",
                    signature=sig,
                    seed=ctx.seed,
                    tier=ctx.tier,
                    what=f["what"],
                    input=f["input"],
                    implementation=f["implementation"],
                    model=f["model"],
                    spec_clauses_failed=f["clauses"],
                    broken_obligation=None,
                    replay_cmd=f"./check {ctx.prop} --replay {path.relative_to(VERIF)}",
                ),
                indent=1,
            )
        )
        lines.append(f"VIOLATION property={ctx.prop} replay={path.relative_to(VERIF)}")
        violations += 1

    broken = []
    if st is not None:
        if not st.obligations:
            broken.append("no property theorem found for " + ctx.prop)
        broken += [f"theorem {b}" for b in st.broken]
        broken += [f"forbidden token {h}" for h in st.forbidden_hits]
        if not st.driver_ok:
            broken.append("driver does not build (model no longer compiles against regenerated Gen files)")
    if ctx.mismatches:
        rels = Counter(m["relation"] for m in ctx.mismatches)
        broken += [f"correspondence {r} ({c} cases)" for r, c in rels.items()]
    if broken and violations == 0:
        # nothing unlisted failed the spec, but the property is no longer shown to hold
        path = REPLAYS / f"{ctx.prop}-{ctx.seed}-unproved.json"
        path.write_text(
            json.dumps(
                dict(
                    property=ctx.prop,
                    kind="no-failing-input-found",
                    seed=ctx.seed,
                    tier=ctx.tier,
                    broken_obligation=broken,
                    build_log_tail=(st.build_log[-3000:] if st else ""),
                    first_differing_case=(ctx.mismatches[0] if ctx.mismatches else None),
                    searched=dict(evaluations=ctx.evaluations, distinct=len(ctx._distinct)),
                    replay_cmd=f"./check {ctx.prop} --tier {ctx.tier}",
                ),
                indent=1,
            )
        )
        lines.append(
            f"VIOLATION property={ctx.prop} replay={path.relative_to(VERIF)} no-failing-input-found"
        )
        violations += 1

    wall = time.time() - ctx.t0
    cov = dict(
        obligations=len(st.obligations) if st else 0,
        discharged=len(st.discharged) if st else 0,
        checker_cmd=f"cd lean && lake build UxVerif.Props.{ctx.prop} && lake env lean <#print axioms of every theorem>"
        + (" && lake env leanchecker UxVerif.Props." + ctx.prop if ctx.thorough else ""),
        trusted_base=sorted(
            {"Lean 4.33.0 kernel"}
            | {"axiom " + a for ax in (st.axioms.values() if st else []) for a in ax}
            | {f"regenerated {k} sha1={v[:12]}" for k, v in (st.gen_checksums.items() if st else [])}
            | {"harness/translate.py (prints what it reads)", "correspondence harness (differential testing)"}
        ),
        theorems=st.discharged if st else [],
        evaluations=ctx.evaluations,
        distinct_nontrivial=len(ctx._distinct),
        rule=ctx.rule,
        samples=ctx.samples or ["(no sample recorded)"],
        input_distribution=dict(ctx.stats),
        spec_failures=len(ctx.failures),
        correspondence_mismatches=len(ctx.mismatches),
        known_findings_matched=dict(matched),
        broken_obligations=broken,
        translate_notes=st.translate_notes if st else [],
        lean_wall_s=round(st.wall, 1) if st else None,
        driver_lines=ctx.driver.lines if ctx.driver else 0,
    )
    if st is not None and getattr(st, "leanchecker", None):
        cov["leanchecker"] = st.leanchecker
    cov.update(_jsonable(ctx.extra))
    ev = dict(
        property_id=ctx.prop,
        tier=ctx.tier,
        seed=ctx.seed,
        level="proof",
        coverage=cov,
        assumptions=ctx.assumptions,
        wall_s=round(wall, 1),
        violations=violations,
        notes=ctx.notes,
    )
    EVIDENCE.mkdir(exist_ok=True)
    # the registered evidence file is written only by full runs of the registered commands; replays and
    # development runs (--skip-lean) and runs against a scratch copy (VERIF_REPO) leave it alone
    side = getattr(ctx, "is_replay", False) or getattr(ctx, "skip_lean", False) or str(REPO) != "/repo"
    target = (REPLAYS / f"{ctx.prop}-last-side-run-evidence.json") if side else (EVIDENCE / f"{ctx.prop}.json")
    target.write_text(json.dumps(ev, indent=1))
    for l in lines:
        print(l)
    print(
        f"[{ctx.prop}] tier={ctx.tier} seed={ctx.seed} theorems={cov['discharged']}/{cov['obligations']} "
        f"cases={ctx.evaluations} distinct={len(ctx._distinct)} spec_failures={len(ctx.failures)} "
        f"mismatches={len(ctx.mismatches)} violations={violations} wall={wall:.1f}s"
    )
    return 1 if violations else 0
