"""C04 — spherical and Cartesian coordinates always denote the same points.

Lean side (Props/C04.lean): `provenance_agree` / `reports_agree` — for every consistent source
(any provenance combination, either longitude convention, any radius) and EVERY history of
accesses of the lazy coordinate properties (with `normalize_cartesian_coordinates` interleaved),
everything the model's getters return is in range and denotes the true positions; conversions
`xyz_unit`, `normalize_*`, `xyz_of_lonlat_of_xyz`, periodicity, `edge_mid_equidistant`, ….

Tie (differential): a generated *source* (abstract mesh + which of node/edge/face lon-lat / xyz it
supplies, radius, longitude convention) is given to the real `Grid`; a generated *history* of
property reads is run on it and on the Lean model (`C04.run`, evaluated at Float by the driver);
every report must agree (1e-12 on directions / relative on stored vectors).  The verdict on the
implementation's reports is the Lean predicate `C04.spec` (range, lon/lat vs xyz, both vs the
generator's truth, unit length of derived xyz; 1e-12 on directions, 1e-8 pole-snap cap).
"""

from __future__ import annotations

import itertools
import math

import numpy as np

from . import common, meshes
from .common import INT_FILL, enc_floats, enc_ints

KINDS = ["node", "edge", "face"]
RADII = [1.0, 0.5, 2.0, 6371229.0, 1.000003]  # the last: "nearly unit" (inside np.isclose's default rtol)
OPNAME = ["node_lonlat", "edge_lonlat", "face_lonlat", "node_xyz", "edge_xyz", "face_xyz", "normalize"]
EPS = 1e-12
SNAP = 1e-8


# --------------------------------------------------------------------------------------
# sources
# --------------------------------------------------------------------------------------


def unit(v):
    v = np.asarray(v, dtype=float)
    return v / np.linalg.norm(v, axis=-1, keepdims=True)


def ll_of(xyz):
    """independent conversion (Python's libm through NumPy), longitudes in [-180, 180]"""
    xyz = np.asarray(xyz, dtype=float)
    lon = np.degrees(np.arctan2(xyz[:, 1], xyz[:, 0]))
    # atan2(z, hypot(x, y)), not arcsin(z): arcsin loses ulp/cos(lat) near the poles (1.2e-11 on the
    # direction at 1 - |z| = 2e-11), which made a SUPPLIED lon/lat inconsistent with the supplied xyz
    lat = np.degrees(np.arctan2(xyz[:, 2], np.hypot(xyz[:, 0], xyz[:, 1])))
    return lon, lat


def xyz_of(lon, lat):
    lon, lat = np.radians(np.asarray(lon, float)), np.radians(np.asarray(lat, float))
    return np.stack([np.cos(lat) * np.cos(lon), np.cos(lat) * np.sin(lon), np.sin(lat)], axis=1)


def edges_of(faces):
    """independent edge list (sorted pairs, lexicographic) used when the source supplies edge data"""
    s = set()
    for f in faces:
        for j in range(len(f)):
            a, b = f[j], f[(j + 1) % len(f)]
            s.add((min(a, b), max(a, b)))
    return sorted(s)


def perturb(rng, c, deg=0.7):
    """a point near `c` (supplied centres need not be the centroid: MPAS cell centres are not)"""
    d = np.array([rng.gauss(0, 1) for _ in range(3)])
    d -= (d @ c) * c
    n = np.linalg.norm(d)
    if n < 1e-9:
        return c
    a = math.radians(deg) * rng.random()
    return unit(math.cos(a) * c + math.sin(a) * d / n)


class Source:
    """what the 'file' supplies; `truth` is what the positions really are"""

    def __init__(self, faces, node_truth, tag):
        self.faces = [list(map(int, f)) for f in faces]
        self.tag = tag
        self.truth = dict(node=np.asarray(node_truth, float))
        self.ll = dict(node=None, edge=None, face=None)  # (lon, lat) arrays or None
        self.xyz = dict(node=None, edge=None, face=None)  # (n,3) array or None
        self.edges = None  # supplied edge_node_connectivity (list of pairs) or None
        self.prov = dict(node="", edge="none", face="none")
        self.conv = {}
        self.dtype = {}  # kind -> dtype name of the supplied Cartesian arrays when not float64
        self.raw_nodes = None

    def centroid(self, idx):
        # corners: the true unit vectors; for node coordinates stored in a narrow dtype (whole units:
        # no longer ONE radius) the stored vectors themselves, exactly as given, in float64
        base = self.raw_nodes if getattr(self, "raw_nodes", None) is not None else self.truth["node"]
        return base[list(idx)].mean(axis=0)

    def to_json(self):
        j = dict(tag=self.tag, faces=self.faces, edges=self.edges, prov=self.prov, conv=self.conv,
                 truth={k: v.tolist() for k, v in self.truth.items()}, dtype=dict(self.dtype),
                 raw_nodes=self.raw_nodes is not None)
        for k in KINDS:
            j[k + "_ll"] = None if self.ll[k] is None else [list(map(float, self.ll[k][0])), list(map(float, self.ll[k][1]))]
            j[k + "_xyz"] = None if self.xyz[k] is None else np.asarray(self.xyz[k]).tolist()
        return j

    @staticmethod
    def from_json(j):
        s = Source(j["faces"], np.array(j["truth"]["node"], float), j.get("tag", "replay"))
        s.truth = {k: np.array(v, float).reshape(-1, 3) for k, v in j["truth"].items()}
        s.edges = None if j.get("edges") is None else [tuple(e) for e in j["edges"]]
        s.prov = j.get("prov", s.prov)
        s.conv = j.get("conv", {})
        for k in KINDS:
            a = j.get(k + "_ll")
            s.ll[k] = None if a is None else (np.array(a[0], float), np.array(a[1], float))
            b = j.get(k + "_xyz")
            s.xyz[k] = None if b is None else np.array(b, float).reshape(-1, 3)
        s.dtype = dict(j.get("dtype") or {})
        for k, dt in s.dtype.items():
            if s.xyz[k] is not None:
                s.xyz[k] = s.xyz[k].astype(dt)
        if j.get("raw_nodes") and s.xyz["node"] is not None:
            s.raw_nodes = s.xyz["node"].astype(np.float64)
        return s


def conv360(lon):
    """the same longitudes in the 0..360 convention"""
    lon = np.asarray(lon, float).copy()
    lon[lon < 0] += 360.0
    return lon


def make_source(rng, faces, node_truth, tag, combo, node_ll=None):
    """combo = (node_prov, edge_prov, face_prov, radii, conventions)
    node_prov in {ll, xyz, both}; edge/face_prov in {none, ll, xyz, both}"""
    nprov, eprov, fprov, (rn, re_, rf), (cn, ce, cf) = combo
    s = Source(faces, node_truth, tag)
    n_ll = node_ll if node_ll is not None else ll_of(s.truth["node"])
    if np.any(np.abs(np.asarray(n_ll[1], float)) > 90.0):
        # outside the property's domain (not a latitude): a generator defect, never a verdict
        raise AssertionError(f"generator produced a latitude outside [-90, 90] for source {tag}")
    if nprov in ("ll", "both"):
        lon = conv360(n_ll[0]) if cn else np.asarray(n_ll[0], float).copy()
        s.ll["node"] = (lon, np.asarray(n_ll[1], float).copy())
    if nprov in ("xyz", "both"):
        s.xyz["node"] = rn * s.truth["node"]
    s.prov["node"] = nprov + (f"(r={rn:.8g})" if nprov != "ll" else "")
    s.conv["node"] = "0..360" if (cn and nprov != "xyz") else "±180"
    # centres
    ed = edges_of(s.faces)
    ecent = [unit(s.centroid(e)) for e in ed]
    fcent = [unit(s.centroid(f)) for f in s.faces]
    for kind, prov, r, conv, cents in (("edge", eprov, re_, ce, ecent), ("face", fprov, rf, cf, fcent)):
        if prov == "none":
            if kind == "face":
                s.truth["face"] = np.array(cents)
            s.prov[kind] = "none"
            continue
        t = np.array([perturb(rng, c) for c in cents])
        s.truth[kind] = t
        if kind == "edge":
            s.edges = ed
        if prov in ("ll", "both"):
            lon, lat = ll_of(t)
            s.ll[kind] = (conv360(lon) if conv else lon, lat)
        if prov in ("xyz", "both"):
            s.xyz[kind] = r * t
        s.prov[kind] = prov + (f"(r={r:.8g})" if prov != "ll" else "")
        s.conv[kind] = "0..360" if (conv and prov != "xyz") else "±180"
    return s


DTYPES = [("int32", 6371220.0), ("int64", 6371220.0), ("float32", 6371220.0), ("float32", 6371.22)]


def narrow_dtype(s, dtype, radius):
    """Store every Cartesian-ONLY supplied kind at `radius` in `dtype` (whole units for integers).  The
    truth of that kind becomes the direction of the stored values exactly as given, in float64."""
    done = False
    for k in KINDS:
        if s.xyz[k] is None or s.ll[k] is not None:
            continue
        v = radius * s.truth[k]
        stored = np.rint(v).astype(dtype) if dtype.startswith("int") else v.astype(dtype)
        s.xyz[k] = stored
        s.truth[k] = unit(stored.astype(np.float64))
        s.dtype[k] = dtype
        s.prov[k] = f"xyz(r={radius:.8g},{dtype})"
        if k == "node":
            s.raw_nodes = stored.astype(np.float64)
        done = True
    if done and s.raw_nodes is not None and s.prov["face"] == "none":
        s.truth["face"] = np.array([unit(s.centroid(f)) for f in s.faces])
    return done


def degenerate(s):
    """a centroid too close to the origin (outside the property: no direction)"""
    for f in s.faces:
        if np.linalg.norm(s.centroid(f)) < 1e-6:
            return True
    for e in edges_of(s.faces):
        if np.linalg.norm(s.centroid(e)) < 1e-6:
            return True
    return False


def near_cap_boundary(v):
    """true positions whose judgement would depend on rounding rather than on the algorithm:
    |z| within 1e-10 of the snapping threshold (which branch is taken), and the annulus just outside
    the cap, 1e-8 <= 1 - |z| < 1e-7, where the latitude `arcsin(z)` the library derives from a
    Cartesian position is conditioned worse than the 1e-12 comparison tolerance
    (error ~ 2 ulp / sqrt(2 (1 - |z|)) = 1.6e-12 at the threshold, 5e-13 at 1e-7)"""
    d = 1.0 - np.abs(np.asarray(v, float)[:, 2])
    return bool(np.any((d > SNAP - 1e-10) & (d < 1e-7)))


# --------------------------------------------------------------------------------------
# the real code
# --------------------------------------------------------------------------------------


def table_of(faces):
    w = max(len(f) for f in faces)
    t = np.full((len(faces), w), INT_FILL, dtype=np.int64)
    for i, f in enumerate(faces):
        t[i, : len(f)] = f
    return t


def build_grid(ux, s):
    kw = {}
    for k in ("edge", "face"):
        if s.ll[k] is not None:
            kw[f"{k}_lon"], kw[f"{k}_lat"] = s.ll[k][0].copy(), s.ll[k][1].copy()
        if s.xyz[k] is not None:
            kw[f"{k}_x"], kw[f"{k}_y"], kw[f"{k}_z"] = (s.xyz[k][:, i].copy() for i in range(3))
    if s.xyz["node"] is not None:
        kw["node_x"], kw["node_y"], kw["node_z"] = (s.xyz["node"][:, i].copy() for i in range(3))
    if s.edges is not None:
        kw["edge_node_connectivity"] = np.array(s.edges, dtype=np.int64).reshape(-1, 2)
    if s.ll["node"] is not None:
        # public explicit-topology constructor
        return ux.Grid.from_topology(node_lon=s.ll["node"][0].copy(), node_lat=s.ll["node"][1].copy(),
                                     face_node_connectivity=table_of(s.faces), fill_value=INT_FILL, **kw), "from_topology"
    # Cartesian-only nodes: a dataset in the internal (UGRID) naming through Grid.from_dataset
    import xarray as xr
    from uxarray.conventions import ugrid

    ds = xr.Dataset()
    for name, arr in kw.items():
        if name in ugrid.SPHERICAL_COORD_NAMES:
            spec = ugrid.SPHERICAL_COORDS[name]
        elif name in ugrid.CARTESIAN_COORD_NAMES:
            spec = ugrid.CARTESIAN_COORDS[name]
        else:
            spec = ugrid.CONNECTIVITY[name]
        ds[name] = xr.DataArray(data=arr, dims=spec["dims"], attrs=spec["attrs"])
    spec = ugrid.CONNECTIVITY["face_node_connectivity"]
    ds["face_node_connectivity"] = xr.DataArray(data=table_of(s.faces), dims=spec["dims"], attrs=spec["attrs"])
    return ux.Grid.from_dataset(ds, source_grid_spec="User Defined Topology"), "from_dataset"


def read(g, rng, op):
    """one step of a history on the real Grid; returns the report (copied at the time of the read)"""
    if op == 6:
        g.normalize_cartesian_coordinates()
        return ("unit",)
    k = KINDS[op % 3]
    names = ["lon", "lat"] if op < 3 else ["x", "y", "z"]
    order = list(range(len(names)))
    rng.shuffle(order)
    vals = {}
    for i in order:
        vals[names[i]] = np.array(getattr(g, f"{k}_{names[i]}").values, dtype=float).copy()
    return ("ll" if op < 3 else "xyz", k, [vals[n] for n in names])


# --------------------------------------------------------------------------------------
# protocol
# --------------------------------------------------------------------------------------


def enc_cols(cols):
    return " ".join(enc_floats(c) for c in cols)


def enc_opt_cols(cols):
    return "0" if cols is None else "1 " + enc_cols(cols)


def enc_source(s):
    parts = []
    for k in KINDS:
        parts.append(enc_opt_cols(None if s.ll[k] is None else [s.ll[k][0], s.ll[k][1]]))
        parts.append(enc_opt_cols(None if s.xyz[k] is None else [s.xyz[k][:, 0], s.xyz[k][:, 1], s.xyz[k][:, 2]]))
    return " ".join(parts)


def enc_conn(faces, edges):
    fs = " ".join([str(len(faces))] + [enc_ints(f) for f in faces])
    es = " ".join([str(len(edges))] + [f"{int(a)} {int(b)}" for a, b in edges])
    return fs + " " + es


def enc_report(r):
    if r[0] == "unit":
        return "2"
    tag = 0 if r[0] == "ll" else 1
    return f"{tag} {KINDS.index(r[1])} " + enc_opt_cols(r[2])


def dec_reports(line):
    t = common.Tok(line)
    out = []
    for _ in range(t.int()):
        tag = t.int()
        if tag == 2:
            out.append(("unit",))
            continue
        k = KINDS[t.int()]
        if t.int() == 0:
            out.append(("ll" if tag == 0 else "xyz", k, None))
        else:
            cols = [np.array(t.floats()) for _ in range(2 if tag == 0 else 3)]
            out.append(("ll" if tag == 0 else "xyz", k, cols))
    assert t.done()
    return out


def rep_json(r):
    if r[0] == "unit":
        return "normalize()"
    return {f"{r[1]}_{r[0]}": None if r[2] is None else [c.tolist() for c in r[2]]}


# --------------------------------------------------------------------------------------
# one case
# --------------------------------------------------------------------------------------


def same_report(a, b):
    """model and implementation agree on one report"""
    if a[0] != b[0]:
        return False
    if a[0] == "unit":
        return True
    if a[1] != b[1] or (a[2] is None) != (b[2] is None):
        return False
    if a[2] is None:
        return True
    if any(x.shape != y.shape for x, y in zip(a[2], b[2])):
        return False
    if a[0] == "ll":
        pa, pb = xyz_of(a[2][0], a[2][1]), xyz_of(b[2][0], b[2][1])
        return bool(np.all(np.abs(pa - pb) <= EPS)) if len(pa) else True
    va, vb = np.stack(a[2], axis=1), np.stack(b[2], axis=1)
    if not len(va):
        return True
    scale = np.maximum(1.0, np.linalg.norm(vb, axis=1, keepdims=True))
    return bool(np.all(np.abs(va - vb) <= EPS * scale))


def judge(ctx, s, ops, variant=(1, 1, 1), impl_runner=None, inp_extra=None, sup_override=None):
    """`impl_runner(ux) -> (grid, ctor, reports)` replaces "build the grid from `s` and read `ops`"
    (used for the segment after a construct_face_centers() call, where `s` is the re-based source)."""
    import uxarray as ux

    d, rng = ctx.driver, ctx.rng
    inp = dict(source=s.to_json(), ops=[int(o) for o in ops], history=[OPNAME[o] for o in ops])
    if inp_extra:
        inp.update(inp_extra)
    key = (s.tag, s.faces, s.prov, s.conv, tuple(ops),
           [None if s.ll[k] is None else s.ll[k][0].tolist() for k in KINDS])
    small = len(s.faces) <= 2
    ctx.case(key, nontrivial=True, sample=dict(tag=s.tag, prov=s.prov, conv=s.conv, history=inp["history"],
                                                 n_node=len(s.truth["node"]), n_face=len(s.faces)) if small else None)
    for k in KINDS:
        ctx.hit(f"{k}:src={s.prov[k].split('(')[0]}")
        if s.ll[k] is not None and s.conv.get(k) == "0..360":
            ctx.hit(f"{k}:lon-0..360")
    ctx.hit("first-access=" + OPNAME[ops[0]])
    if 6 in ops:
        ctx.hit("history-with-normalize")
    # ---- the implementation ----
    try:
        if impl_runner is not None:
            g, ctor, impl = impl_runner(ux)
        else:
            g, ctor = build_grid(ux, s)
            impl = [read(g, rng, o) for o in ops]
        ctx.hit("ctor=" + ctor)
        edges = [(int(a), int(b)) for a, b in np.asarray(g.edge_node_connectivity.values).reshape(-1, 2)]
    except Exception as e:
        ctx.fail(f"C04/raises/{type(e).__name__}", f"coordinate access raises {type(e).__name__}: {e}", inp)
        return
    if s.edges is not None and edges != [tuple(e) for e in s.edges]:
        # the grid re-ordered the supplied edges: supplied edge centres no longer belong to them
        ctx.fail("C04/edge/supplied-edge-order-changed", "edge_node_connectivity differs from the supplied one", inp,
                 dict(edge_node_connectivity=edges))
        return
    # truth of the edge centres the source does not supply: arc midpoints of the grid's own edges
    truth = dict(s.truth)
    # The truth of every centre the source does NOT supply is the property's own definition — the
    # normalised Cartesian mean of the element's own real corners (padding excluded; an edge centre is
    # the normalised mean of its two ends) — evaluated BY LEAN (`faceCentroid` / `edgeCentroid`, the
    # functions of centroid_row_local / centroid_orphans_irrelevant) from the true node positions
    # and the connectivity; independent of the implementation and of the node/face numbering.
    tn = s.raw_nodes if s.raw_nodes is not None else truth["node"]
    cl = common.Tok(d.ask("C04.centres", enc_cols([tn[:, 0], tn[:, 1], tn[:, 2]]), enc_conn(s.faces, edges)))
    lean_face = np.stack([np.array(cl.floats()) for _ in range(3)], axis=1).reshape(-1, 3)
    lean_edge = np.stack([np.array(cl.floats()) for _ in range(3)], axis=1).reshape(-1, 3)
    py_face = np.array([unit(s.centroid(f)) for f in s.faces]).reshape(-1, 3)
    py_edge = np.array([unit(s.centroid(e)) for e in edges]).reshape(-1, 3)
    if np.abs(lean_face - py_face).max(initial=0) > 1e-13 or np.abs(lean_edge - py_edge).max(initial=0) > 1e-13:
        raise RuntimeError("oracle disagreement: Lean corner means differ from the generator's")
    if s.ll["face"] is None and s.xyz["face"] is None:
        truth["face"] = lean_face
        ctx.hit("face:truth=lean-corner-mean")
    if s.ll["edge"] is None and s.xyz["edge"] is None:
        truth["edge"] = lean_edge
        ctx.hit("edge:truth=lean-corner-mean")
    for k in KINDS:
        if near_cap_boundary(truth[k]):
            ctx.hit("dropped:cap-boundary")
            return
        z = np.abs(truth[k][:, 2]) if len(truth[k]) else np.zeros(0)
        if np.any(z > 1 - SNAP):
            ctx.hit(f"{k}:inside-snap-cap")
        if np.any(z == 1.0):
            ctx.hit(f"{k}:at-pole")
    lon_n = ll_of(truth["node"])[0]
    if np.any(np.abs(np.abs(lon_n) - 180.0) < 1e-9):
        ctx.hit("node:on-antimeridian")
    if np.any((np.abs(lon_n) < 1e-9) & (np.abs(truth["node"][:, 2]) < 1 - SNAP)):
        ctx.hit("node:on-prime-meridian")
    if np.any(lon_n < -1e-9):
        ctx.hit("node:west-of-greenwich")
    # ---- the model ----
    line = d.ask("C04.run", *variant, enc_source(s), enc_conn(s.faces, edges), enc_ints(ops))
    if line == "bad-conn":
        raise RuntimeError("generator produced an invalid connectivity")
    model = dec_reports(line)
    # ---- the Lean specification on the implementation's reports ----
    sup = sup_override if sup_override is not None else [int(s.xyz[k] is not None) for k in KINDS]
    tr = " ".join(enc_cols([truth[k][:, 0], truth[k][:, 1], truth[k][:, 2]]) for k in KINDS)
    verdict = d.ask("C04.spec", *sup, tr, len(impl), " ".join(enc_report(r) for r in impl))
    obs = dict(reports=[rep_json(r) for r in impl], edge_node_connectivity=edges if small else "…")
    mod = dict(reports=[rep_json(r) for r in model])
    if verdict != "ok":
        clauses = verdict.split(" ", 1)[1].split(",")
        for cl in clauses:
            name, kind = cl.split("/")[0], cl.split("/")[1]
            ctx.fail(f"C04/{kind}/{name}/src={s.prov[kind].split('(')[0]}" + ("-nonunit" if "(r=" in s.prov[kind] and "(r=1)" not in s.prov[kind] else "")
                     + ("-" + s.dtype[kind] if kind in s.dtype else ""),
                     f"{kind} coordinates: clause {name} fails (source supplies {kind} as {s.prov[kind]}, history {inp['history']})",
                     inp, obs, mod, [cl])
        return
    ctx.hit("spec-ok")
    # ---- correspondence ----
    if len(model) != len(impl) or not all(same_report(a, b) for a, b in zip(impl, model)):
        bad = [i for i, (a, b) in enumerate(zip(impl, model)) if not same_report(a, b)]
        ctx.mismatch("C04/reports", dict(inp, first_differing_report=bad[:1]), obs, mod)
    else:
        ctx.hit("model=impl")
        # informational (no verdict: the property fixes the direction and the range, not the
        # representative): do implementation and model also report the SAME numbers, i.e. the
        # convention proved in lonlat_of_xyz_of_lonlat / wrap180_seam (seam -> -180, cap -> lon 0)?
        for a, b in zip(impl, model):
            if a[0] == "ll" and a[2] is not None and len(a[2][0]):
                away = np.abs(b[2][1]) < 89.99
                same = np.all(np.abs(a[2][1] - b[2][1]) <= 1e-8) and np.all(np.abs(a[2][0] - b[2][0])[away] <= 1e-8)
                ctx.hit("representative:identical" if same else "note:representative-differs")
    # observation outside the property's statement: normalize_cartesian_coordinates leaves stored
    # centre vectors un-normalised when the nodes are already unit (its check looks at nodes only)
    if 6 in ops:
        last = {}
        for o, r in zip(ops, impl):
            if r[0] == "xyz":
                last[r[1]] = (o, r)
        after = ops.index(6)
        for k, (o, r) in last.items():
            i = max(j for j, oo in enumerate(ops) if oo == o)
            if i > after and np.any(np.abs(np.sum(np.stack(r[2], 1) ** 2, axis=1) - 1) > 1e-6):
                ctx.hit(f"note:{k}-xyz-not-unit-after-normalize()")


# --------------------------------------------------------------------------------------
# construct_face_centers(method=...) inside a history
# --------------------------------------------------------------------------------------

METHODS = ["cartesian average", "welzl"]


def judge_construct(ctx, s, pre, method, post):
    """pre-reads, `Grid.construct_face_centers(method)`, post-reads on ONE grid.

    The call is not an operation of the Lean state machine; it is handled here as a RE-BASING of the
    source (tested, not proved): afterwards the grid stores both face representations, and
      * "welzl": they denote the Welzl centre points the call itself reports (not modelled — judged:
        range, unit length, lon/lat-vs-xyz agreement in every later read, and the centre lies within
        the cap around the corner mean that contains all corners);
      * "cartesian average": if Cartesian face centres were stored (supplied, or any face centre read
        before) lon/lat are re-derived from them (same points as before); otherwise the centres become
        the normalised corner means, overriding supplied lon/lat (as documented).
    Segment 1 (pre) and segment 2 (the stored lon/lat right after the call + post) are each judged by
    the Lean spec and compared with the Lean model started from the (re-based) source."""
    rng = ctx.rng
    box = {}
    extra = dict(construct=dict(source=s.to_json(), pre=list(pre), method=method, post=list(post)))

    def runner1(ux):
        g, ctor = build_grid(ux, s)
        box["g"] = g
        return g, ctor, [read(g, rng, o) for o in pre]

    ctx.hit("construct:" + method)
    ctx.hit("construct:pre-reads=%d" % len(pre))
    if pre:
        judge(ctx, s, pre, impl_runner=runner1, inp_extra=extra)
    else:
        import uxarray as ux

        box["g"] = build_grid(ux, s)[0]
    g = box.get("g")
    if g is None:
        return
    inp = dict(extra, source=s.to_json(), ops=list(pre), history=[OPNAME[o] for o in pre] + [f"construct_face_centers({method})"])
    try:
        g.construct_face_centers(method=method)
        W = [np.array(g.face_lon.values, float).copy(), np.array(g.face_lat.values, float).copy()]
        impl2 = [("ll", "face", W)] + [read(g, rng, o) for o in post]
    except Exception as e:
        ctx.fail(f"C04/raises/construct_face_centers({method})/{type(e).__name__}",
                 f"construct_face_centers({method}) raises {type(e).__name__}: {e}", inp)
        return
    # Cartesian face centres are stored iff supplied, or face_x/y/z was read, or face_lon/lat was read
    # while no face lon/lat was stored (only then does that getter populate anything)
    stored_xyz = s.xyz["face"] is not None or 5 in pre or (2 in pre and s.ll["face"] is None)
    s2 = Source.from_json(s.to_json())
    s2.prov, s2.conv = dict(s.prov), dict(s.conv)
    s2.tag = s.tag + f"+construct({method})"
    cent = np.array([unit(s.centroid(f)) for f in s.faces]).reshape(-1, 3)
    if method == "welzl":
        t = xyz_of(W[0], W[1])
        s2.truth["face"], s2.ll["face"], s2.xyz["face"] = t, (W[0].copy(), W[1].copy()), t.copy()
        s2.prov["face"] = "welzl"
        # the Welzl centre lies in the cap around the corner mean that contains every corner
        for fi, f in enumerate(s.faces):
            rad = max(math.acos(max(-1.0, min(1.0, float(cent[fi] @ s.truth["node"][v])))) for v in f)
            if math.acos(max(-1.0, min(1.0, float(cent[fi] @ t[fi])))) > rad + 1e-9:
                ctx.fail("C04/face/welzl-outside-face-cap", "the Welzl centre point lies outside the cap that contains the face's corners",
                         inp, dict(face=fi, welzl=[float(W[0][fi]), float(W[1][fi])]), None, ["welzl-inside-cap"])
                return
    else:
        t = s.truth["face"] if stored_xyz else cent
        lon, lat = ll_of(t)
        s2.truth["face"], s2.ll["face"] = t, (lon, lat)
        s2.xyz["face"] = s.xyz["face"].copy() if s.xyz["face"] is not None else t.copy()
        s2.prov["face"] = "recentred(" + ("stored-xyz" if stored_xyz else "corner-mean") + ")"
    s2.conv["face"] = "±180"
    sup = [int(s.xyz["node"] is not None), int(s.xyz["edge"] is not None), int(s.xyz["face"] is not None and method != "welzl")]
    judge(ctx, s2, [2] + list(post), impl_runner=lambda ux: (g, "after-construct", impl2), inp_extra=extra, sup_override=sup)


def irregular_source(rng):
    """non-regular quads, a pentagon and a triangle at mid latitude, away from the seam and the poles
    (the Welzl centre differs visibly from the corner mean)"""
    lon0, lat0, d = rng.uniform(-140, 120), rng.uniform(-45, 35), rng.uniform(4.0, 9.0)
    lon = np.array([lon0 + d * (i + rng.uniform(-0.3, 0.3)) for j in range(3) for i in range(3)])
    lat = np.array([lat0 + d * (j + rng.uniform(-0.3, 0.3)) for j in range(3) for i in range(3)])
    faces = [[0, 1, 4, 3], [1, 2, 5, 4], [3, 4, 8, 7, 6], [4, 5, 8]]
    return "irregular", lon, lat, faces


# --------------------------------------------------------------------------------------
# sample files: the same Lean specification on what the real readers produce
# --------------------------------------------------------------------------------------

FILES = [("scrip", "scrip/outCSne8/outCSne8.nc"), ("exodus", "exodus/outCSne8/outCSne8.g"),
         ("geos-cs", "geos-cs/c12/test-c12.native.nc4"), ("mpas", "mpas/QU/mesh.QU.1920km.151026.nc"),
         ("ugrid", "ugrid/outCSne30/outCSne30.ug")]


def judge_file(ctx, fmt, rel, ops):
    """No abstract source here: the reference direction of each kind is the first Cartesian report
    of that kind; every report of the history must agree with it (range, lon/lat vs xyz)."""
    import uxarray as ux

    d, rng = ctx.driver, ctx.rng
    path = common.REPO / "test" / "meshfiles" / rel
    if not path.exists():
        path = common.Path("/repo/test/meshfiles") / rel
    if not path.exists():
        ctx.hit("file-missing")
        return
    inp = dict(file=rel, format=fmt, ops=[int(o) for o in ops], history=[OPNAME[o] for o in ops])
    ctx.case(("file", rel, tuple(ops)), nontrivial=True)
    ctx.hit("file=" + fmt)
    try:
        g = ux.open_grid(str(path))
        impl = [read(g, rng, o) for o in ops]
    except Exception as e:
        ctx.fail(f"C04/raises/file={fmt}/{type(e).__name__}", f"coordinate access on {rel} raises {type(e).__name__}: {e}", inp)
        return
    truth = {}
    for r in impl:
        if r[0] == "xyz" and r[1] not in truth:
            truth[r[1]] = unit(np.stack(r[2], axis=1))
    if set(truth) != set(KINDS) or any(near_cap_boundary(truth[k]) for k in KINDS):
        ctx.hit("file-dropped")
        return
    tr = " ".join(enc_cols([truth[k][:, 0], truth[k][:, 1], truth[k][:, 2]]) for k in KINDS)
    verdict = d.ask("C04.spec", 1, 1, 1, tr, len(impl), " ".join(enc_report(r) for r in impl))
    if verdict != "ok":
        for cl in verdict.split(" ", 1)[1].split(","):
            name, kind = cl.split("/")[0], cl.split("/")[1]
            ctx.fail(f"C04/{kind}/{name}/file={fmt}", f"{rel}: {kind} coordinates: clause {name} fails, history {inp['history']}",
                     inp, dict(n=len(truth[kind])), None, [cl])
        return
    ctx.hit("file:spec-ok")


# --------------------------------------------------------------------------------------
# generators
# --------------------------------------------------------------------------------------

def vary_numbering(rng, faces, xyz, ll=None):
    """Element numbering and coverage as a random dimension of every source: a node shared under two
    ids (duplicate coordinates), node order (kept / descending / shuffled), face order (biggest face
    first / last / in the middle), nodes that no face uses numbered first / in the middle / LAST.
    Returns (faces, xyz, ll, tags); positions are untouched."""
    faces = [list(f) for f in faces]
    xyz = np.asarray(xyz, float).copy()
    ll = None if ll is None else (np.asarray(ll[0], float).copy(), np.asarray(ll[1], float).copy())
    tags = []

    def take(idx):
        nonlocal xyz, ll
        xyz = xyz[idx]
        if ll is not None:
            ll = (ll[0][idx], ll[1][idx])

    # duplicate coordinates under a different id
    if rng.random() < 0.25:
        fi = rng.randrange(len(faces))
        j = rng.randrange(len(faces[fi]))
        v = faces[fi][j]
        take(list(range(len(xyz))) + [v])
        faces[fi][j] = len(xyz) - 1
        tags.append("dup-coords")
    # node order
    r = rng.random()
    n = len(xyz)
    if r < 0.25:
        new_of_old = [n - 1 - i for i in range(n)]
        tags.append("nodes-descending")
    elif r < 0.5:
        new_of_old = list(range(n))
        rng.shuffle(new_of_old)
        tags.append("nodes-shuffled")
    else:
        new_of_old = list(range(n))
    old_of_new = [0] * n
    for o, nw in enumerate(new_of_old):
        old_of_new[nw] = o
    take(old_of_new)
    faces = [[new_of_old[v] for v in f] for f in faces]
    # face order
    r = rng.random()
    if r < 0.6 and len({len(f) for f in faces}) > 1:
        big = max(range(len(faces)), key=lambda i: len(faces[i]))
        rest = [f for i, f in enumerate(faces) if i != big]
        where = rng.choice(["first", "last", "middle"])
        pos = {"first": 0, "last": len(rest), "middle": len(rest) // 2}[where]
        faces = rest[:pos] + [faces[big]] + rest[pos:]
        tags.append("biggest-face-" + where)
    # nodes used by no face
    r = rng.random()
    if r < 0.6:
        where = rng.choice(["start", "middle", "end"])
        k = rng.randint(1, 3)
        n = len(xyz)
        pos = {"start": 0, "middle": max(1, n // 2), "end": n}[where]
        elon = np.array([rng.uniform(-170, 170) for _ in range(k)])
        elat = np.array([rng.uniform(-80, 80) for _ in range(k)])
        xyz = np.vstack([xyz[:pos], xyz_of(elon, elat), xyz[pos:]])
        if ll is not None:
            ll = (np.concatenate([ll[0][:pos], elon, ll[0][pos:]]), np.concatenate([ll[1][:pos], elat, ll[1][pos:]]))
        faces = [[v if v < pos else v + k for v in f] for f in faces]
        tags.append("orphans@" + where)
    return faces, xyz, ll, tags


def fine_patch(rng, d=None, where=None):
    """Element SIZE as a generator dimension: an nx × ny lattice (some quads split into triangles)
    whose spacing d is log-uniform in [1e-6, 1] rad — from elements far below the 1e-5 relative
    tolerances used inside the library up to continental size — placed at a random position, at
    high latitude, across the antimeridian or across the prime meridian.
    Returns (name, lon, lat, faces)."""
    d = d if d is not None else math.exp(rng.uniform(math.log(1e-6), math.log(1.0)))
    where = where or rng.choice(["random", "high-lat", "antimeridian", "prime-meridian"])
    nx, ny = rng.randint(1, 3), rng.randint(1, 3)
    if d * max(nx, ny) > 1.2:
        nx = ny = 1
    ddeg = math.degrees(d)
    maxlat = 85.0 - ny * ddeg if d < 0.05 else 45.0 - ny * ddeg / 2
    maxlat = max(maxlat, 5.0)
    if where == "high-lat" and d < 0.05:
        lat0 = rng.choice([-1, 1]) * rng.uniform(70.0, 84.0)
        lat0 = lat0 if lat0 > 0 else lat0 - ny * ddeg
        lat0 = min(lat0, 85.0 - ny * ddeg)
    else:
        lat0 = rng.uniform(-maxlat, maxlat - ny * ddeg) if maxlat - ny * ddeg > -maxlat else -ny * ddeg / 2
    # every latitude of the lattice must be a latitude: lat0 .. lat0 + ny*ddeg inside [-88, 88]
    # (a southern high-latitude patch of coarse spacing used to start below -90: generator defect, DESIGN §13)
    lat0 = min(max(lat0, -88.0), 88.0 - ny * ddeg)
    dlon = ddeg / max(math.cos(math.radians(abs(lat0) + ny * ddeg)), 0.05)
    dlon = min(dlon, 100.0 / nx)
    if where == "antimeridian":
        lon0 = 180.0 - dlon * rng.uniform(0.2, nx - 0.2)
    elif where == "prime-meridian":
        lon0 = -dlon * rng.uniform(0.2, nx - 0.2)
    else:
        lon0 = rng.uniform(-175.0, 175.0 - nx * dlon)
    lon = np.array([lon0 + i * dlon for j in range(ny + 1) for i in range(nx + 1)])
    lon = (lon + 180.0) % 360.0 - 180.0
    lat = np.array([lat0 + j * ddeg for j in range(ny + 1) for i in range(nx + 1)])
    faces = []
    for j in range(ny):
        for i in range(nx):
            a = j * (nx + 1) + i
            q = [a, a + 1, a + nx + 2, a + nx + 1]
            if rng.random() < 0.3:
                faces += [q[:3], [q[0], q[2], q[3]]]
            else:
                faces.append(q)
    return f"fine({ddeg:.3g}deg)@{where}", lon, lat, faces


NODE_PROV = ["ll", "xyz", "both"]
CENTRE_PROV = ["none", "ll", "xyz", "both"]


def random_combo(rng):
    return (rng.choice(NODE_PROV), rng.choice(CENTRE_PROV), rng.choice(CENTRE_PROV),
            tuple(rng.choice(RADII) for _ in range(3)), tuple(rng.random() < 0.5 for _ in range(3)))


def all_combos(rng):
    out = []
    for n in NODE_PROV:
        for e in CENTRE_PROV:
            for f in CENTRE_PROV:
                out.append((n, e, f, tuple(rng.choice(RADII) for _ in range(3)),
                            tuple(rng.random() < 0.5 for _ in range(3))))
    return out


def history(rng, perm=None):
    ops = list(perm) if perm is not None else rng.sample(range(6), 6)
    if rng.random() < 0.5:
        ops.insert(rng.randrange(len(ops) + 1), 6)
    # re-reads at the end (a later access must not have changed what an earlier one reported)
    ops += [rng.randrange(6) for _ in range(2)]
    return ops


def special_sources():
    """explicit (lon, lat) node lists: poles (with arbitrary longitude), ±180, 0, snap cap"""
    out = []
    # octahedron: equator nodes on lon 0, 90, 180, -90; poles given with a non-zero longitude
    ll = [(0.0, 0.0), (90.0, 0.0), (180.0, 0.0), (-90.0, 0.0), (37.0, 90.0), (-120.0, -90.0)]
    faces = []
    for i in range(4):
        j = (i + 1) % 4
        faces += [[i, j, 4], [j, i, 5]]
    out.append(("octahedron", ll, faces))
    # same with the antimeridian written as -180
    out.append(("octahedron-180", [(0.0, 0.0), (90.0, 0.0), (-180.0, 0.0), (-90.0, 0.0), (0.0, 90.0), (0.0, -90.0)], faces))
    # lattices across the antimeridian and across the prime meridian
    for name, lons in (("antimeridian", [172.0, 180.0, -172.0]), ("antimeridian-180", [172.0, -180.0, -172.0]),
                       ("prime-meridian", [-8.0, 0.0, 8.0]), ("west", [-100.0, -91.0, -82.0])):
        lats = [-8.0, 0.0, 8.0]
        ll = [(lo, la) for la in lats for lo in lons]
        fs = []
        for j in range(2):
            for i in range(2):
                a = j * 3 + i
                fs.append([a, a + 1, a + 4, a + 3])
        out.append((name, ll, fs))
    # fans around a node inside the snapping cap (1 - |z| ≈ 1.5e-12) and just outside it (≈ 1.4e-7)
    for name, clat in (("cap-north", 89.9999), ("cap-south", -89.9999), ("near-cap-north", 89.97), ("near-cap-south", -89.97)):
        sgn = 1.0 if clat > 0 else -1.0
        ring = [(-170.0 + 72.0 * i, sgn * 80.0) for i in range(5)]
        ll = [(50.0, clat)] + ring
        fs = [[0, 1 + i, 1 + (i + 1) % 5] for i in range(5)]
        if sgn < 0:
            fs = [f[::-1] for f in fs]
        out.append((name, ll, fs))
    # mixed face sizes (padding) with a node that no face uses numbered LAST / FIRST
    out.append(("mixed-orphan-last", [(0.0, 0.0), (10.0, 0.0), (10.0, 10.0), (0.0, 10.0), (20.0, 5.0), (-50.0, 30.0)],
                [[0, 1, 2, 3], [1, 4, 2]]))
    out.append(("mixed-orphan-first", [(-50.0, 30.0), (0.0, 0.0), (10.0, 0.0), (10.0, 10.0), (0.0, 10.0), (20.0, 5.0)],
                [[2, 5, 3], [1, 2, 3, 4]]))
    # a single triangle west of Greenwich (smallest witness material)
    out.append(("triangle-west", [(-100.0, 10.0), (-80.0, 10.0), (-90.0, 25.0)], [[0, 1, 2]]))
    out.append(("triangle-east", [(100.0, -10.0), (120.0, -10.0), (110.0, 5.0)], [[0, 1, 2]]))
    return out


def run(ctx):
    rng = ctx.rng
    ctx.rule = ("sources = abstract meshes (harness/meshes.zoo + explicit lon/lat lists with poles, ±180, 0, snap-cap nodes, mixed face "
                "sizes with an unused node numbered last / first) × numbering and coverage (unused nodes first / middle / last, node "
                "ids kept / descending / shuffled, biggest face first / middle / last, one position under two ids) × element size "
                "(lattice spacing log-uniform 1e-6..1 rad, fixed 0.01°/0.1°/0.5° at high latitude and across the antimeridian); "
                "dtype of Cartesian-only supplied arrays (float64 | float32 | int32 | int64 at Earth radius); "
                "construct_face_centers('cartesian average' | 'welzl') between 0-3 pre-reads and a full permutation of reads on "
                "irregular mid-latitude faces x every provenance (re-basing rule in the harness, not in the Lean state machine) "
                "× provenance (node: lon/lat | xyz | both; edge, face: none | lon/lat | xyz | both; radii 1, 0.5, 2, 6371229; "
                "supplied centres are perturbed off the centroid) × longitude convention per variable (±180 | 0..360) × "
                "history (a permutation of the six getters, optional normalize_cartesian_coordinates(), two re-reads; "
                "lon/lat and x/y/z of one getter read in random order); plus float64 sample files through the real readers "
                "(SCRIP, Exodus, GEOS-CS, MPAS, UGRID) judged by the same Lean predicate against their own first Cartesian report; "
                "corpus/C04 first; distinct = distinct (source, history)")
    ctx.assumptions = [
        "narrow dtypes (int32/int64 whole metres, float32 at r = 6371220 and 6371.22): float clause — truth and model are computed in "
        "float64 from the stored values exactly as given and compared at the same 1e-12 (the unchanged code promotes to float64); corner "
        "means of such nodes use the stored vectors (whole-unit rounding leaves no common radius); int histories contain no normalize_cartesian_coordinates() "
        "(int32 squares overflow inside _check_normalization itself); with narrow NODE arrays only the node getters are read (centres "
        "derived from float32 corners are a float32 mean, ~4e-8: the source's own precision, not judged)",
        "construct_face_centers(): the Welzl centre itself is NOT modelled (judged: range, unit length, agreement of both representations "
        "in all later reads, inside the corner cap); 'cartesian average' re-derives from stored xyz or re-centres on the corner mean; "
        "histories with construct calls contain no normalize_cartesian_coordinates()",
        "IEEE rounding and libm (Lean's Float.sin/cos/atan2/asin vs NumPy's) are compared at 1e-12 on unit-vector components, not verified",
        "cases with a true position within 1e-10 of the snapping threshold |z| = 1 - 1e-8, or in the annulus 1e-8 <= 1-|z| < 1e-7 just outside it (arcsin conditioned worse than 1e-12), are dropped and counted; supplied lon/lat are generated with atan2(z, hypot(x,y))",
        "a source supplies lon with lat and x with y and z; node xyz have one common radius; centroids with |mean| < 1e-6 are not generated",
        "normalize_cartesian_coordinates() is judged on directions only (the property says it changes lengths only); "
        "that it leaves stored centre vectors un-normalised when the nodes are unit is recorded as a note, not judged",
    ]
    tol = [common.dec_float(x) for x in ctx.driver.ask("C04.tol").split()]
    import uxarray.constants as uc

    if tol[0] != float(uc.ERROR_TOLERANCE):
        ctx.mismatch("C04/ERROR_TOLERANCE", dict(), float(uc.ERROR_TOLERANCE), tol[0])
    if float(uc.ERROR_TOLERANCE) != SNAP:
        ctx.fail("C04/pole-snap-tolerance", f"ERROR_TOLERANCE is {uc.ERROR_TOLERANCE}, the property's pole-snapping tolerance is 1e-8",
                 dict(ERROR_TOLERANCE=float(uc.ERROR_TOLERANCE)))
    big = ctx.thorough or ctx.escalate

    # 0. corpus: minimised past failures (one per repaired defect), always first
    import json

    for f in sorted((common.CORPUS / "C04").glob("*.json")):
        j = json.loads(f.read_text())
        judge(ctx, Source.from_json(j["input"]["source"]), [int(o) for o in j["input"]["ops"]])
        ctx.hit("corpus")

    # 1. explicit special sources × EVERY provenance combination (3 × 4 × 4)
    specials = special_sources()
    for name, ll, faces in specials:
        lon = np.array([p[0] for p in ll])
        lat = np.array([p[1] for p in ll])
        truth = xyz_of(lon, lat)
        for combo in all_combos(rng):
            if rng.random() < 0.5:
                f2, t2, ll2, tags = vary_numbering(rng, faces, truth, (lon, lat))
                s = make_source(rng, f2, t2, name + "".join("+" + t for t in tags), combo, node_ll=ll2)
            else:
                tags = []
                s = make_source(rng, faces, truth, name, combo, node_ll=(lon, lat))
            if degenerate(s):
                ctx.hit("skipped-degenerate")
                continue
            for t in tags:
                ctx.hit("numbering:" + t)
            for _ in range(ctx.n(1, 3)):
                judge(ctx, s, history(rng))

    # 2. the mesh zoo × sampled provenance × sampled histories
    for rep in range(ctx.n(1, 3)):
        for m in meshes.zoo(rng, big=False):
            for _ in range(ctx.n(4, 8)):
                f2, t2, _, tags = vary_numbering(rng, m.faces, m.xyz)
                s = make_source(rng, f2, t2, m.kind + "".join("+" + t for t in tags), random_combo(rng))
                if degenerate(s):
                    ctx.hit("skipped-degenerate")
                    continue
                for t in tags:
                    ctx.hit("numbering:" + t)
                if len({len(f) for f in f2}) > 1:
                    ctx.hit("numbering:mixed-face-sizes")
                judge(ctx, s, history(rng))

    # 2c. element SIZE: lattices with spacing log-uniform in [1e-6, 1] rad (+ fixed 0.01°, 0.1°, 0.5° at
    #     high latitude and across the antimeridian), centres derived at least half of the time
    sized = [fine_patch(rng, math.radians(dd), wh) for dd in (0.01, 0.1, 0.5) for wh in ("high-lat", "antimeridian")]
    sized += [fine_patch(rng) for _ in range(ctx.n(70, 400))]
    for name, lon, lat, faces in sized:
        combo = random_combo(rng)
        if rng.random() < 0.5:
            combo = (combo[0], "none", "none", combo[3], combo[4])
        f2, t2, ll2, tags = vary_numbering(rng, faces, xyz_of(lon, lat), (lon, lat)) if rng.random() < 0.3 else (faces, xyz_of(lon, lat), (lon, lat), [])
        s = make_source(rng, f2, t2, name + "".join("+" + t for t in tags), combo, node_ll=ll2)
        if degenerate(s):
            ctx.hit("skipped-degenerate")
            continue
        dd = float(name[5:name.index("deg")])
        ctx.hit("size:<0.001°" if dd < 1e-3 else "size:0.001°-0.01°" if dd < 1e-2 else "size:0.01°-0.5°" if dd < 0.5
                else "size:0.5°-5°" if dd < 5 else "size:>5°")
        ctx.hit("size@" + name.split("@")[1].split("+")[0])
        judge(ctx, s, history(rng))

    # 2d. construct_face_centers(method) — both documented methods — inside histories, on irregular
    #     faces with the face centres supplied in every form (× node and edge provenance)
    for rep in range(ctx.n(2, 8)):
        name, lon, lat, faces = irregular_source(rng)
        for combo in all_combos(rng):
            if rep and rng.random() < 0.5:
                continue
            s = make_source(rng, faces, xyz_of(lon, lat), name, combo, node_ll=(lon, lat))
            if degenerate(s):
                continue
            pre = rng.sample(range(6), rng.choice([0, 1, 2, 3]))
            post = rng.sample(range(6), 6)
            judge_construct(ctx, s, pre, METHODS[(rep + len(pre) + rng.randrange(2)) % 2], post)

    # 2e. DTYPE of supplied Cartesian coordinates: int32 / int64 whole metres and float32 (metres,
    #     kilometres) at Earth radius, for every Cartesian-only kind; truth = the stored values exactly
    #     as given, in float64 (clauses stay at 1e-12: a float64 computation from the stored values)
    by_name = {sp[0]: sp for sp in special_sources()}
    for nm in ["triangle-west", "mixed-orphan-last", "antimeridian", "octahedron"][: ctx.n(3, 4)]:
        name, ll, faces = by_name[nm]
        lon = np.array([p[0] for p in ll])
        lat = np.array([p[1] for p in ll])
        for dtype, radius in DTYPES:
            for rep in range(ctx.n(6, 20)):
                combo = random_combo(rng)
                combo = ("xyz" if rep % 3 else combo[0], combo[1], combo[2], combo[3], combo[4])
                s = make_source(rng, faces, xyz_of(lon, lat), name, combo, node_ll=(lon, lat))
                if not narrow_dtype(s, dtype, radius) or degenerate(s):
                    continue
                ops = history(rng)
                if dtype.startswith("int"):
                    ops = [o for o in ops if o != 6]   # int32 squares overflow inside _check_normalization itself
                if "node" in s.dtype:
                    # centres DERIVED from narrow node arrays are not judged: np.mean of float32 corners is
                    # itself a float32 computation (~4e-8, the source's own precision); only the node reads
                    ops = [o for o in ops if o in (0, 3, 6)]
                ctx.hit(f"dtype:{dtype}@{radius:g}")
                judge(ctx, s, ops)

    # 2b. sample files through the real readers (float64 sources only)
    for fmt, rel in FILES:
        for _ in range(ctx.n(1, 4)):
            judge_file(ctx, fmt, rel, history(rng))

    # 3. orders of first access: thorough = ALL 6! permutations on a covering set of provenance
    #    combinations of the smallest source (+ two random combinations of three other sources);
    #    quick = a sample of permutations
    perms = list(itertools.permutations(range(6)))
    by_name = {sp[0]: sp for sp in specials}
    for idx, nm in enumerate(["triangle-west", "octahedron", "cap-north", "antimeridian"][: ctx.n(2, 4)]):
        name, ll, faces = by_name[nm]
        lon = np.array([p[0] for p in ll])
        lat = np.array([p[1] for p in ll])
        truth = xyz_of(lon, lat)
        combos = all_combos(rng)
        if big:
            if idx == 0:
                # every (node, face) pair and every (node, edge) pair of provenances occurs
                cover = [c for i, c in enumerate(combos) if CENTRE_PROV.index(c[1]) == (i + NODE_PROV.index(c[0])) % 4
                         or CENTRE_PROV.index(c[2]) == (CENTRE_PROV.index(c[1]) + 1) % 4]
                combos = cover
            else:
                combos = rng.sample(combos, 2)
        else:
            combos = rng.sample(combos, 6)
        for combo in combos:
            s = make_source(rng, faces, truth, name + "/orders", combo, node_ll=(lon, lat))
            if degenerate(s):
                continue
            for p in (perms if big else rng.sample(perms, 30)):
                judge(ctx, s, history(rng, p) if rng.random() < 0.3 else list(p))
                ctx.hit("order-sweep")
        ctx.extra.setdefault("order_sweep", []).append(dict(source=nm, combos=len(combos), permutations=len(perms) if big else 30))


def replay(ctx, rp):
    inp = rp["input"]
    if "construct" in inp:
        c = inp["construct"]
        judge_construct(ctx, Source.from_json(c["source"]), [int(o) for o in c["pre"]], c["method"], [int(o) for o in c["post"]])
        return
    if "file" in inp:
        judge_file(ctx, inp["format"], inp["file"], [int(o) for o in inp["ops"]])
        return
    if "source" not in inp:
        run(ctx)
        return
    judge(ctx, Source.from_json(inp["source"]), [int(o) for o in inp["ops"]])
