"""area.py quadrature tables -> lean/UxVerif/Gen/QuadTables.lean   (property C05)

The tables are obtained by CALLING the real ``get_tri_quadratureDG.py_func(order)`` and
``get_gauss_quadratureDG.py_func(order)`` of the tree under test (so a re-layout of the literals
is harmless, a changed digit is not) for every order 1..MAX_PROBE; an order is "supported" when
the call returns arrays.  Every float is emitted as the exact rational it denotes: an integer
numerator over ONE common power-of-two denominator (``float.as_integer_ratio``; round-tripped
before writing).  Gauss tables are emitted as the code returns them, i.e. after its own
[-1,1] -> [0,1] scaling.

Props/C05.lean re-proves, against whatever this file contains today, weight sums, barycentric
sums, positivity, symmetry and moment exactness of every rule (``decide +kernel`` on integers).
"""

from __future__ import annotations

from fractions import Fraction

from . import common, translate

MAX_PROBE = 16  # orders 1..MAX_PROBE are asked of the code


def _exact(x):
    x = float(x)
    if x != x or x in (float("inf"), float("-inf")):
        raise ValueError(f"non-finite table entry {x!r}")
    a, b = x.as_integer_ratio()
    assert Fraction(a, b) == Fraction(x) and float(Fraction(a, b)) == x
    return Fraction(a, b)


def read_tables():
    """(tri, gauss, notes): tri[order] = list of (g0,g1,g2,w) floats; gauss[n] = list of (x,w)."""
    common.use_repo()
    import numpy as np
    from uxarray.grid import area as A

    notes = []

    def call(fn, o):
        f = getattr(fn, "py_func", fn)
        try:
            dG, dW = f(o)
        except (UnboundLocalError, NameError):
            return None  # the order is not supported (no branch assigns the arrays)
        except Exception as e:
            notes.append(f"{fn.__name__}({o}): {type(e).__name__}: {e}")
            return None
        return np.array(dG, dtype=np.float64), np.array(dW, dtype=np.float64)

    tri, gauss = {}, {}
    for o in range(1, MAX_PROBE + 1):
        r = call(A.get_tri_quadratureDG, o)
        if r is not None:
            dG, dW = r
            if dG.ndim != 2 or dG.shape[1] not in (2, 3) or dW.shape != (dG.shape[0],):
                notes.append(f"get_tri_quadratureDG({o}): unexpected shapes {dG.shape} {dW.shape}")
            else:
                # the code reads columns 0 and 1 only (third coordinate = 1 - dA - dB); a stored third column is
                # carried along for the informational consistency report
                tri[o] = [(float(g[0]), float(g[1]), float(g[2]) if len(g) > 2 else 1.0 - float(g[0]) - float(g[1]), float(w))
                          for g, w in zip(dG, dW)]
        r = call(A.get_gauss_quadratureDG, o)
        if r is not None:
            dG, dW = r
            if dG.ndim != 2 or dG.shape[0] != 1 or dW.shape != (dG.shape[1],):
                notes.append(f"get_gauss_quadratureDG({o}): unexpected shapes {dG.shape} {dW.shape}")
            else:
                gauss[o] = [(float(x), float(w)) for x, w in zip(dG[0], dW)]
    return tri, gauss, notes


def gen_quad(notes):
    tri, gauss, n2 = read_tables()
    notes += n2
    vals = [_exact(v) for t in tri.values() for row in t for v in row]
    vals += [_exact(v) for t in gauss.values() for row in t for v in row]
    den = 1
    for v in vals:
        den = max(den, v.denominator)
    k = den.bit_length() - 1
    assert den == 1 << k, "denominators of doubles are powers of two"

    def num(x):
        f = _exact(x) * den
        assert f.denominator == 1
        n = int(f)
        assert float(Fraction(n, den)) == float(x)  # round trip
        return str(n) if n >= 0 else f"({n})"

    out = ["namespace UxVerif.Gen.Quad", "",
           "/-- every entry below is the exact value of the code's float64 as `numerator / 2^DEN_LOG2` -/",
           f"def DEN_LOG2 : Nat := {k}",
           f"def DEN : Nat := {den}", ""]
    for o, t in sorted(tri.items()):
        out.append(f"/-- `get_tri_quadratureDG({o})`: rows `(dG[p][0], dG[p][1], dG[p][2], dW[p])`, {len(t)} points -/")
        out.append(f"def tri{o} : List (Int × Int × Int × Int) := [")
        out.append(",\n".join("  (" + ", ".join(num(v) for v in row) + ")" for row in t))
        out.append("]\n")
    for o, t in sorted(gauss.items()):
        out.append(f"/-- `get_gauss_quadratureDG({o})` as returned (scaled to [0,1]): `(dG[0][p], dW[p])` -/")
        out.append(f"def gauss{o} : List (Int × Int) := [")
        out.append(",\n".join("  (" + ", ".join(num(v) for v in row) + ")" for row in t))
        out.append("]\n")
    out.append("/-- orders for which `get_tri_quadratureDG` returns a table today -/")
    out.append("def TRI_ORDERS : List Nat := [" + ", ".join(str(o) for o in sorted(tri)) + "]")
    out.append("/-- orders for which `get_gauss_quadratureDG` returns a table today -/")
    out.append("def GAUSS_ORDERS : List Nat := [" + ", ".join(str(o) for o in sorted(gauss)) + "]\n")
    out.append("def tri : Nat → List (Int × Int × Int × Int)")
    for o in sorted(tri):
        out.append(f"  | {o} => tri{o}")
    out.append("  | _ => []\n")
    out.append("def gauss : Nat → List (Int × Int)")
    for o in sorted(gauss):
        out.append(f"  | {o} => gauss{o}")
    out.append("  | _ => []\n")
    out.append("end UxVerif.Gen.Quad\n")
    return translate._write("QuadTables.lean", "\n".join(out))


translate.GENERATORS["QuadTables.lean"] = gen_quad
