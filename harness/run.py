"""Entry point:  ./check Cxx [--tier quick|thorough] [--replay file]

Exit 0: property held on everything explored (KNOWN-FINDING lines allowed);
exit 1: `VIOLATION property=<id> replay=<path>` printed; exit 2: infrastructure failure.
"""

from __future__ import annotations

import argparse
import importlib
import json
import os
import sys
import traceback
import warnings

sys.path.insert(0, os.path.dirname(os.path.dirname(os.path.abspath(__file__))))


def main():
    ap = argparse.ArgumentParser()
    ap.add_argument("prop")
    ap.add_argument("--tier", default=os.environ.get("VERIF_TIER", "quick"), choices=["quick", "thorough"])
    ap.add_argument("--replay", default=None)
    ap.add_argument("--skip-lean", action="store_true", help="development only: skip translate/build/audit")
    a = ap.parse_args()
    seed = int(os.environ.get("VERIF_SEED", "0") or 0)

    from harness import common

    warnings.filterwarnings("ignore")
    prop = a.prop.upper()
    try:
        mod = importlib.import_module(f"harness.{prop.lower()}")
    except ModuleNotFoundError:
        print(f"no check for {prop}", file=sys.stderr)
        return 2
    ctx = common.Ctx(prop, a.tier, seed)
    ctx.is_replay = bool(a.replay)
    ctx.skip_lean = bool(a.skip_lean)
    try:
        common.use_repo()
        if not a.skip_lean:
            ctx.lean_state = common.prepare_lean(prop, thorough=(a.tier == "thorough"))
            if not ctx.lean_state.proofs_ok:
                ctx.escalate = True  # search for a failing input at thorough size
        if ctx.lean_state is None or ctx.lean_state.driver_ok:
            ctx.driver = common.Driver(prop)
        if a.replay:
            rp = json.loads(open(a.replay).read())
            mod.replay(ctx, rp)
        else:
            mod.run(ctx)
            # correspondence broke without a spec failure: widen the search once
            if ctx.mismatches and not ctx.failures and not ctx.escalate and not ctx.thorough:
                ctx.escalate = True
                ctx.notes.append("correspondence broken: re-running the search at thorough size")
                mod.run(ctx)
        rc = common.finish(ctx)
    except Exception:
        traceback.print_exc()
        print(f"[{prop}] infrastructure failure (no verdict)", file=sys.stderr)
        return 2
    finally:
        if ctx.driver:
            ctx.driver.close()
    return rc


if __name__ == "__main__":
    sys.exit(main())
